"""C19 demonstration: lock-order inversion between the lazy attribute hook of sqlglot.dialects and importlib's module lock.

T1 loads the DuckDB dialect by name (sqlglot.transpile(..., read="duckdb")): importlib holds the module lock of
sqlglot.dialects.duckdb / sqlglot.generators.duckdb while their class bodies parse SQL templates, which reaches
jsonpath.parse and its function-level `from sqlglot.dialects import Dialect` -> the package hook -> _import_lock.
T2 asks for `from sqlglot.dialects import DuckDB`: the hook takes _import_lock first and then waits for the module lock.
T1 is paused (per-thread trace hook) right after it started executing the duckdb module until T2 is inside the hook.

Exit status 0: both calls return the single-threaded answer. Non-zero: a thread hung (deadlock) or differed.
Adapted from the demonstration of seeded change C19-D.
"""
import json
import os
import subprocess
import sys
import threading
import time

sys.path.insert(0, os.getcwd())

SQL = "SELECT a, b FROM t WHERE c = 'x'"
WAIT = 8.0


def baseline() -> dict:
    code = (
        "import sys, os, json; sys.path.insert(0, os.getcwd()); import sqlglot;"
        f"r1 = sqlglot.transpile({SQL!r}, read='duckdb', write='duckdb')[0];"
        "from sqlglot.dialects import DuckDB;"
        f"r2 = sqlglot.transpile({SQL!r}, read=DuckDB, write=DuckDB)[0];"
        "print(json.dumps({'T1': r1, 'T2': r2}))"
    )
    out = subprocess.run(
        [sys.executable, "-c", code], capture_output=True, text=True, timeout=40, check=True
    )
    return json.loads(out.stdout)


def main() -> int:
    expected = baseline()

    import sqlglot
    import sqlglot.dialects as dialects_pkg

    if "sqlglot.dialects.duckdb" in sys.modules:
        print("SETUP ERROR: the duckdb dialect is already loaded; the demo needs its first use")
        return 3

    duckdb_suffix = os.path.join("sqlglot", "dialects", "duckdb.py")
    package_lock = dialects_pkg._import_lock

    t1_in_module = threading.Event()
    results: dict = {}
    state = {"paused": False, "t2_in_hook": False}

    def global_tracer(frame, event, arg):
        code = frame.f_code
        if (
            event == "call"
            and not state["paused"]
            and code.co_name == "<module>"
            and code.co_filename.endswith(duckdb_suffix)
        ):
            # T1 has just started executing sqlglot/dialects/duckdb.py (first import, by name).
            state["paused"] = True
            sys.settrace(None)
            t1_in_module.set()
            # Wait until T2 is inside the lazy attribute hook of the package (it holds the lock).
            deadline = time.monotonic() + WAIT
            while time.monotonic() < deadline:
                if package_lock.acquire(blocking=False):
                    package_lock.release()
                    time.sleep(0.01)
                else:
                    state["t2_in_hook"] = True
                    break
        return None

    def t1():
        sys.settrace(global_tracer)
        try:
            results["T1"] = ("ok", sqlglot.transpile(SQL, read="duckdb", write="duckdb")[0])
        except BaseException as e:  # noqa: BLE001
            results["T1"] = ("raised", f"{type(e).__name__}: {e}")
        finally:
            sys.settrace(None)
            t1_in_module.set()

    def t2():
        t1_in_module.wait(WAIT)
        try:
            from sqlglot.dialects import DuckDB

            results["T2"] = ("ok", sqlglot.transpile(SQL, read=DuckDB, write=DuckDB)[0])
        except BaseException as e:  # noqa: BLE001
            results["T2"] = ("raised", f"{type(e).__name__}: {e}")

    threads = [threading.Thread(target=t1, daemon=True), threading.Thread(target=t2, daemon=True)]
    for th in threads:
        th.start()
    deadline = time.monotonic() + 2 * WAIT
    for th in threads:
        th.join(max(0.0, deadline - time.monotonic()))

    if not state["paused"]:
        print("SETUP ERROR: T1 never started executing the duckdb module")
        return 3
    if not state["t2_in_hook"]:
        print("SETUP ERROR: T2 was never observed inside the package's lazy attribute hook")
        return 3

    if any(th.is_alive() for th in threads):
        hung = [name for name, th in zip(("T1", "T2"), threads) if th.is_alive()]
        print(f"FAIL: {' and '.join(hung)} never returned (deadlock on the first use of 'duckdb')")
        print("      T1: sqlglot.transpile(sql, read='duckdb', write='duckdb')")
        print("      T2: from sqlglot.dialects import DuckDB")
        return 1

    bad = 0
    for name in ("T1", "T2"):
        status, value = results.get(name, ("missing", None))
        if status != "ok" or value != expected[name]:
            bad += 1
            print(f"FAIL: {name} {status}: {value!r}\n      expected  : {expected[name]!r}")
    if bad:
        print("Concurrent first use of the dialect gave a different answer than running alone.")
        return 1

    print("OK: both threads returned the single-threaded answer")
    return 0


if __name__ == "__main__":
    code = main()
    sys.stdout.flush()
    os._exit(code)
