"""Demonstration (not a check): a dialect class was visible in Dialect._classes before
_Dialect.__new__ had initialised it. Deterministic: the importing thread is paused inside
class construction (first new_trie call for the DuckDB class) while another thread looks
the dialect up. Prints HALF-BUILT on the defective tree, OK on the repaired one."""
import sys, threading
import sqlglot.dialects.dialect as dd

paused, resume = threading.Event(), threading.Event()
orig = dd.new_trie
state = {"armed": True}

def slow_new_trie(*a, **k):
    import inspect
    fr = inspect.currentframe().f_back
    if state["armed"] and fr.f_code.co_name == "__new__" and fr.f_locals.get("clsname") == "DuckDB":
        state["armed"] = False
        paused.set()
        resume.wait(5)
    return orig(*a, **k)

dd.new_trie = slow_new_trie
res = {}

def importer():
    import importlib
    importlib.import_module("sqlglot.dialects.duckdb")

def looker():
    c = dd.Dialect._classes.get("duckdb")  # what Dialect.get() consults first
    res["cls"] = c
    res["tok"] = None if c is None else c.tokenizer_class.__qualname__

t1 = threading.Thread(target=importer); t1.start()
paused.wait(5)
t2 = threading.Thread(target=looker); t2.start(); t2.join(5)
resume.set(); t1.join()
if res.get("cls") is not None and res["tok"] != "DuckDB.Tokenizer":
    print("HALF-BUILT: registry exposes", res["cls"].__name__, "with tokenizer_class =", res["tok"]); sys.exit(1)
print("OK: registry entry during construction =", res.get("cls"), res.get("tok"))
