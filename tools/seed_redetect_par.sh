#!/bin/bash
# usage: seed_redetect_par.sh [jobs]   : like seed_redetect.sh for all kept changes, N at a time on scratch worktrees of /repo's HEAD
J=${1:-6}
cd /verif
for k in $(seq 1 $J); do
  git -C /repo worktree remove --force /tmp/rd_$k >/dev/null 2>&1
  git -C /repo worktree add --detach /tmp/rd_$k HEAD >/dev/null 2>&1
done
ls -d seeded/* | nl -v0 | while read i D; do echo "$((i % J + 1)) /verif/$D"; done > /tmp/rd_jobs.txt
for k in $(seq 1 $J); do
  ( grep "^$k " /tmp/rd_jobs.txt | while read _ D; do
      python3 tools/seed_eval.py detect_scratch $D /tmp/rd_$k $k > $D/detect.json
      python3 - "$D" <<'PY'
import json,sys
d=sys.argv[1]
t=json.load(open(d+'/detect.json')); m=json.load(open(d+'/meta.json'))
fired={k:v['rules'] for k,v in t.items() if isinstance(v,dict) and v.get('rc')==1}
errs=[k for k,v in t.items() if isinstance(v,dict) and v.get('rc')==2]
m["detected_by"]=fired; m["first_findings"]={k:v.get('first') for k,v in t.items() if isinstance(v,dict) and v.get('rc')==1}
json.dump(m,open(d+'/meta.json','w'),indent=1)
print(d.split('/')[-1], 'fired:',fired, '| analysis errors:', errs, '| apply_error' if 'apply_error' in t else '')
PY
    done ) &
done
wait
for k in $(seq 1 $J); do git -C /repo worktree remove --force /tmp/rd_$k >/dev/null 2>&1; rm -rf /tmp/seed_eval_cache_$k /tmp/seed_eval_ev_$k; done
