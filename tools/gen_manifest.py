#!/usr/bin/env python3
"""Regenerates /verif/MANIFEST.json from the table below (kept in one place so the manifest stays valid)."""
import json
import os

HERE = os.path.dirname(os.path.dirname(os.path.abspath(__file__)))

TRUST = (
    "Trusted base: CPython's ast module; the hand-built CFG/dataflow engine in sa/cfg.py (self-tested with seeded faults); "
    "for table rules, that importing sqlglot (import-time class construction only, no SQL processed) yields the tables used at run time; "
    "the reviewed idiom/exception tables inside each rule (one symbol + reason each). Decides structural necessary conditions, not run-time behaviour."
)

CHECKS = {
    "C14": dict(
        technique="static analysis: who-may-read/who-may-raise confinement over all attribute/raise sites + save/restore pairing + must-pass-through dataflow on a hand-built CFG",
        text="Every access to Parser.error_level/errors and Generator.unsupported_level/unsupported_messages in the package lies in the reporting funnel and level-guarded branches only report; the temporary level switch in _try_parse is restored in finally; UnsupportedError is raised only through the generator funnel or under transforms.preprocess; check_errors() post-dominates every top-level parse call; generators that delegate to other generators (Athena) thread every generation option, including unsupported_level, to their delegates. These are the mechanisms by which the code enforces C14; the run-time relation between the four levels is not executed.",
        ref="DESIGN.md section 4 / C14",
    ),
}

CHECKS["C19"] = dict(
    technique="static analysis: whole-package global-write scan (who-may-write inventory), lock-coverage lint of PEP 562 hooks, publish-after-build reachability on a hand-built CFG, import-introspection inventory of shared instances",
    text="The complete set of functions that write process-wide state (module globals, class attributes, globals()) is computed from the source and must equal the reviewed inventory; every lazy import/publish is under a module-level RLock; no object is mutated after being stored into shared state on any CFG path; cache builders are effect-free; no shared Parser/Generator/Tokenizer instance exists. No module- or class-level instance of a package class that keeps per-call state on itself may exist, and no module in the import closure of a locked lazy hook's target modules may resolve a lazy attribute through that hook (it would take the package lock and importlib's module lock in the opposite order to the hook — a first-use deadlock). This is the publication/lock discipline that makes first-use races benign; schedules are not executed. No public entry point sets a process-global switch (closed list of setters with a positive control), and memoised factories never return worker objects or instances of stateful classes. A class-body comprehension over another generator's TRANSFORMS (pruned in place by the dialect metaclass) iterates a snapshot or runs after the owning dialect was imported.",
    ref="DESIGN.md section 4 / C19",
)

CHECKS["C18"] = dict(
    technique="static analysis: memo discovery by pattern, transitive field-read sets, in-place-helper mutation summaries, write=>invalidate forward dataflow on the writer's CFG, def-use memo-key completeness",
    text="For every dict memo of MappingSchema (discovered from the source) the fields its fill function reads are computed transitively; every method that writes such a field (directly or through an in-place helper such as nested_set/new_trie) must fully invalidate the memo on every CFG path to the return, keyed eviction being rejected while the fill resolves partial names; every parameter read by a memoised computation must be in the lookup key; None is never served as a hit. Lookups must be read-only on the registered state: outside the registration methods nothing stores into or mutates a value obtained from self.mapping / find() / nested_get() (taint from registered state to item stores and mutator calls). This is the coherence discipline on which 'answers as a fresh schema would' rests; trie arithmetic is not evaluated. The constructor path normalises every table-path part with is_table=True exactly as the lookup path does. A flag left out of a memo key as failure-only is verified to choose only between raising and returning None along the whole memoised computation; lookups normalise the identifier (with its quoted flag), not its bare text.",
    ref="DESIGN.md section 4 / C18",
)

CHECKS["C08"] = dict(
    technique="static analysis: who-may-write enumeration of every store to the tree representation with alias-tracked child lists, shape checks of the primitives, cross-reference of the import-introspected shared-Expr inventory with every syntactic reference",
    text="The parent/arg_key/index/hash invariant is kept by a handful of primitives; the check enumerates every other store to the representation in the whole package (args items, pointer fields, _hash, raw list mutation of child lists incl. local aliases) and requires each to be a primitive, a provably sound form, or a reviewed exception; checks invalidate-before-write in set/append and unfiltered mirroring in __deepcopy__; and classifies every reference to a process-wide Expr instance as read/copy/compare vs embedding. Also: the same `*args` nodes are not embedded twice (on one path or once per loop iteration) without a copy, and leaf classes (is_primitive, whose constructor links no children) are never constructed around a node. A node looked up in a local dict must be copied before it is embedded (typed lint). Breaking the invariant from outside the primitives requires one of the flagged constructs; index arithmetic inside the primitives is trusted. List arguments are flat (typed), Expression.set re-indexes a child list after every shift on every path, and optimizer helpers never hand a bare parameter to a copy=False builder. In optimizer code a node variable that was moved into a tree reaches no second un-copied hand-over (path search on the CFG incl. back edges, with the repository's last-iteration / first-iteration idioms); __deepcopy__ stores cached hashes only before attaching children.",
    ref="DESIGN.md section 4 / C08",
)

CHECKS["C20"] = dict(
    technique="static analysis: partition typestate of the matching sets (co-location + dominance of guards) and exhaustive CFG path enumeration of the edit-script loop body",
    text="Every matching_set.add is co-located with the removal of both ids from the unmatched sets, guarded by a both-unmatched proof and by the same-type test (also through the candidate heap); every acyclic path through the per-pair loop body of _generate_edit_script appends exactly one Keep or Update (none only under delta_only) and the two unmatched loops append exactly one Remove/Insert per id; hashes cached on uncopied inputs are evicted in finally and no tree mutator is called by the distiller. These are the mechanisms behind 'each node accounted for exactly once' and 'inputs untouched'; 'delta empty iff equal' depends on run-time similarity scores and is not decided. The distiller's per-call attributes are rebound at the start of diff(), and originals and their copies are listed by the same traversal before they are zipped positionally. Heap entries that carry nodes have a unique element before the first node (nodes are never ordered), and Keep / Update / Move pair nodes only through the matching.",
    ref="DESIGN.md section 4 / C20",
)

CHECKS["C15"] = dict(
    technique="static analysis: typed lint (mypy as a library) locating every iteration over a set-typed expression and classifying its consumer; sibling agreement __init__/reset; finally-protected state toggles; who-may-write inventory of process-wide state; table-ownership facts from import introspection",
    text="Hash-seed dependence enters only through iteration order of sets (str/Enum/Expr hashes vary with the seed): every such iteration in the package (mypy-typed, 180+ sites) must feed an order-insensitive consumer or a reviewed site. Dependence on earlier calls enters only through per-instance state that is not reset (checked by __init__/reset agreement and by finally/re-initialisation of every Generator attribute written during generation) or through process-wide state (closed who-may-write inventory, fresh containers in class bodies, TRANSFORMS ownership, no embedding of shared nodes). Class-body set displays without a static type, list[T](set) conversions and keyed Expression.set(<element>) insertions are covered; generator classes that copy a parent's TRANSFORMS must be pruned by their own dialect or explicitly (import-order independence). Any-typed iterables and second-order dict orders are outside the rule and stated as assumptions.",
    ref="DESIGN.md section 4 / C15",
)

CHECKS["C12"] = dict(
    technique="static analysis: writer/reader key-set agreement of the wire format, per-slot coverage of Expression.__slots__ (import introspection) by dump/load/__deepcopy__, typed JSON-safety lint (mypy as a library) over meta stores and constructor arguments",
    text="dump and load/_load must agree on the set of payload keys; every slot of Expression must be read by dump, restored by load (links through set/append) and copied by __deepcopy__, so a newly added field cannot be silently dropped; every value stored into meta (and, thorough tier, every non-expression constructor/set argument, 4000+ sites) must have a JSON-representable static type or be an expression that dump encodes; pickle must delegate to the same pair. The DType codec must agree between dump (.value/.name) and _load (call/subscript), and nothing on the serialisation path may be memoised on expression-typed parameters (tree equality ignores comments, meta, case). _load resolves a dotted class name only through the module dump recorded. Decides field coverage and JSON-safety structurally; value-level round trips are not executed.",
    ref="DESIGN.md section 4 / C12",
)

CHECKS["C13"] = dict(
    technique="static analysis: symbolic (linear normal form) check of the scanner's cursor invariant on every block that writes the offset, keyword/field agreement of the token stamp, inclusive-end convention lint at every consumer",
    text="The tokenizer keeps _char/_peek/_end/_col consistent with _current by hand in three places (_advance, its alnum batch, the str.find string fast path); each block that writes _current must re-establish the three equalities with symbolically equal expressions and move the column in lockstep, so an off-by-one in a fast path is caught without running it. The string fast path must count exactly the line breaks _advance counts (count-term vector incl. CR LF pairing) and restart the column after the last of them. Token stamps, every slice/adjacency/highlight consumer of the inclusive end, TokenError's own slice and same-token error reporting are shape-checked. Tiling of the input by tokens is not decided. The window slice feeding the lookahead clamps its lower bound; the i>1 branch of _advance counts the line breaks it skips; self._prev/_curr is never read as an argument after a sibling argument moved the cursor; a variable-length rewind restores _line/_col; after a nested _scan the enclosing method re-assigns _start before emitting its own token. On every path through the scanner's methods _start is re-assigned between two token emissions, so no two tokens are stamped with overlapping spans. A function that hands tokens to a parser entry point hands the source text on with them. A name merged from several tokens records the span of all of them.",
    ref="DESIGN.md section 4 / C13",
)

CHECKS["C10"] = dict(
    technique="static analysis: typestate of the straight-line qualify() pipeline (stage order, threading, guards, defaults) and error-family resolution of every raise in the qualification modules",
    text="A thin, exact necessary condition: qualify() must run normalize_identifiers, qualify_tables, [isolate_table_selects], qualify_columns, quote_identifiers, validate in that order on one threaded variable, each optional stage behind its own flag with the documented defaults and the resolved dialect/schema passed on; every explicit raise in the qualification modules must be a SqlglotError subclass. Completeness, idempotence, star order and case rules are run-time valued and are NOT decided by this check. Scope.branch must give the inner scope's CTE definitions precedence over inherited ones (closed set of merge forms; an unrecognised form is reported as not decided). Case folding consults the dialect's ASCII-only flag, no id() of a str is used as identity, and every Dialect-level setting overridden by some dialect is read somewhere. Free-standing db / catalog identifiers are marked as table parts before they are normalised.",
    ref="DESIGN.md section 4 / C10",
)
CHECKS["C07"] = dict(
    technique="static analysis: pairing/post-domination of the line-break sentinel, injectivity of the substitution, flow confinement of comment text to maybe_comment, block-comment-only emission lint",
    text="Decides the two explicit clauses of C07 that are structural: pretty output cannot contain the sentinel and plain output cannot be altered by it (single guarded insertion/removal pair, removal before every return, overrides delegate), and comments=False emits no comment text / comments cannot swallow SQL (comment text flows only into maybe_comment, which short-circuits on self.comments; only block comments, sanitised on both markers). In the emitters of text-bearing leaves (literal, identifier, raw/unicode/byte/national string) the text wrapped in quote delimiters must have passed _replace_line_breaks on every path (must-dataflow), so pretty printing never pads the continuation lines of a literal. The separators Generator.indent splits on must all be hidden by _replace_line_breaks (regex AST of the separator compared with the replaced constants). One genuine defect (sentinel collision with user text under pretty) is recorded as a known finding. Whether pretty/pad/indent/leading_comma/max_text_width affect whitespace only is semantic and not decided. (Typed) no f-string in generator code interpolates an expression node itself instead of its rendered SQL. No decision is taken on text rendered with the current options (comparison with constants / settings) and rendered SQL is not placed inside string literals (one known finding: T-SQL sp_rename); the end of rendered SQL is cut only on comment-free renders. This found and led to fixes for comment-dependent time-format rewriting and DuckDB's unbalanced ordered-set aggregates.",
    ref="DESIGN.md section 4 / C07",
)

CHECKS["C04"] = dict(
    technique="static analysis: exhaustive writer/reader table agreement over all dialect classes (import-introspected tables vs. predicates mirroring the tokenizer's branches, anchored on those branches), emitter-funnel and comment-emission lints",
    text="For each of the 35 dialect classes the generator's escaping tables are checked against the tokenizer's acceptance conditions: the escaped quote is read back as a quote, every reader escape is neutralised by the writer, every writer sequence decodes, identifier escape characters are escaped and decoded, overrides of the emitters delegate, and comments are block comments sanitised on both markers. These relations are necessary for 'a value can never terminate its own quoting'; the rule R7 pins the reader branches the predicates mirror so a tokenizer change cannot silently invalidate them. Byte/raw/national/heredoc literals and the full for-all-strings round trip are not decided. No generator f-string may place raw node text (.name/.this/.text()/args.get) between hand-written single quotes: what is interpolated inside an opened quote must be escaped (escape_str / explicit quote replacement), rendered SQL or a constant. Identifiers rebuilt from another node's alias text keep its quoted flag; the builders' safe-bare-word regex admits only characters that no tokenizer treats specially and is anchored at the very end.",
    ref="DESIGN.md section 4 / C04",
)

CHECKS["C01"] = dict(
    technique="static analysis: exhaustiveness of generator dispatch over the classes each dialect's parser chain constructs (AST + import-introspected dispatch tables), fixpoint closure of operator, time-format, function-name and type-name tables across tokenizer/parser/generator",
    text="For all 34 SQL dialect classes: every expression class the dialect's parser chain can construct must be printable by the same dialect's generator (16k class-dialect pairs); every table-driven binary operator printed by self.binary(e, OP) must tokenize and re-parse to the same class (base) or to a class printed identically (500+ obligations); the effective time/format mapping tables must be idempotent on the generator's image (900+ entries). These are necessary conditions of the round-trip fixpoint visible in tables; precedence, nesting and bespoke parse/print pairs are run-time valued and NOT decided. Every Parser/Generator/Tokenizer setting that a dialect overrides must be read somewhere (a dead setting means the dialect's reader and writer silently stopped agreeing). Function names (13k obligations) and single-word type names (2.5k) printed by a dialect must be read back by the same dialect as the same class / type or as one printed under that name again; this table rule found 119 (dialect, type) pairs that are not fixpoints (LONGTEXT -> TEXT -> STRING in Spark ...), each confirmed by two round trips and listed as a known finding because the repair contradicts outputs pinned by the existing suite. Alias tables keyed by a node's name are idempotent under one lookup, and a parser-side version gate that marks the tree cuts the version line where the generator has a gate.",
    ref="DESIGN.md section 4 / C01",
)

CHECKS["C05"] = dict(
    technique="static analysis: loop-progress dataflow with interprocedural 'productive' summaries (greatest fixpoint over all parser classes) on a hand-built CFG; provenance/consumption analysis of cursor moves; must-dataflow dominance for table lookups; raise-family lint, length-bound and token-existence dataflows, typed definite-assignment lint",
    text="Every while loop of the recursive-descent parser (all 34 parser classes) and of the tokenizer must reach each back edge having consumed a token (consuming-match conditions, unconditional advances, peek-then-parse, explicit progress checks, productive callees derived by a fixpoint) or be a recognised non-cursor loop; every backward cursor move must target a saved index or be covered by consumption/dispatch credit; every class-table lookup must be dominated by a successful match on the same table; the generator's fall-through and every explicit raise must stay inside the library's error family; constant indexing of function-builder argument lists and of every list-typed local/attribute of the parser, tokenizer and JSON-path parser needs a dominating length fact (length-bound dataflow, one-level caller facts for list parameters); every forward _advance needs evidence that the token it steps over exists; callees that un-read their caller's match are charged back to the caller's loop; locals are definitely assigned (mypy possibly-undefined); cursor-relative subscripts of the token list carry a bound test; no generator handler renders the same child twice in one execution (2^depth work); the scanner runs only under the TokenError wrapper. This found and led to fixes for five parser hangs, a cursor restored one token too far and seven IndexError/UnboundLocalError leaks. None-dereferences, work bounds and recursion depth are not decided. _advance_chunk advances are bounded by the chunk, and enum lookups by computed name are guarded. Table-dispatched callables called with keywords run under a TypeError conversion or every entry accepts the keyword; to_py() conversions of parsed nodes are guarded and assert_is is not applied to them; stepped walks over argument lists stay inside the list. A value that was just reported missing through a non-raising raise_error is not used unguarded afterwards.",
    ref="DESIGN.md section 4 / C05",
)

CHECKS["C09"] = dict(
    technique="static analysis: ownership/effect classification of every use of a borrowed tree in functions with a copy flag, dominance of copy-before-use at the non-mutating entry points, ownership of receivers at copy=False call sites",
    text="In each of the ~100 functions with a copy parameter, every use of the caller's tree (self of expression methods; parameters handed on with copy=copy) is classified and must be a read, a copy or a threaded pass-on; generate() must copy before use with default True and every public route must thread it; optimize() must feed its rules only from maybe_parse(copy=True); transform/expand/replace_*/lineage must copy or thread; __deepcopy__ must create fresh nodes and deep-copy comments/type/meta; copy=False call sites outside the in-place layers must act on owned trees. This is the discipline on which 'non-mutating APIs leave arguments untouched' rests; mutations performed by *_sql methods on generate()'s private copy are not enumerated. Sub-trees read out of the caller's tree before it is copy-guarded must not be embedded into new nodes (taint from borrowed parameter to constructor/set/append arguments). A parameter adopted by maybe_parse/maybe_copy without the copy flag must not be returned as is, and replace_placeholders inserts copies of the caller's replacement values.",
    ref="DESIGN.md section 4 / C09",
)

# session 3 additions (rules C20.i/j, C18.h, C12.j, C09.d, C14.f)
CHECKS["C20"]["text"] += " Session 3: the private-copy decision of diff() depends on the node-sequence length and id set of both inputs (C20.i) and caller matchings are re-mapped through per-side id tables (C20.j)."
CHECKS["C18"]["text"] += " Session 3: no == / != on column mappings in schema.py, dict equality ignores column order (C18.h)."
CHECKS["C12"]["text"] += " Session 3: whether dump() writes a per-node slot depends only on that slot's value, never on the class of the node (C12.j)."
CHECKS["C09"]["text"] += " Session 3: same-name delegation inside copy-parameter functions states the copy flag (C09.d)."
CHECKS["C14"]["text"] += " Session 3: merge_errors() keeps every entry of every collected exception (C14.f)."

NOT_APPLICABLE = {
    "C02": "oracle is SQLite/DuckDB evaluation semantics (NULL ordering, division, || precedence); not present in the source, no structural clause implies row equality",
    "C03": "result-multiset equality of optimized vs original query over all databases; guards are semantic conditions, only checkable as frozen fragments (false-alarm prone)",
    "C06": "three-valued-logic equivalence of rewrites over all assignments is a run-time value property; no sound structural necessary condition beyond frozen fragments",
    "C11": "executor vs reference engines is a run-time value property; name/table mismatches surface as the permitted ExecuteError",
    "C16": "agreement with DuckDB's typing needs the engine as oracle; the only source-level clause (annotation never changes SQL) is false by design (_restore_dot_parts)",
    "C17": "exactness of lineage leaves is a data-flow fact about arbitrary queries at run time; cache-key soundness is identity-based",
}


def main():
    checks = []
    for pid, c in sorted(CHECKS.items()):
        checks.append(
            {
                "property_id": pid,
                "quick_cmd": f"./vcheck {pid} --tier quick",
                "thorough_cmd": f"./vcheck {pid} --tier thorough",
                "evidence_file": f"/verif/evidence/{pid}.json",
                "replay_cmd_template": f"./vcheck {pid} --tier quick --replay {{path}}",
                "engine": "sa",
                "level_claimed": {"category": "other", "text": c["text"], "design_ref": c["ref"]},
                "level_note": TRUST,
                "technique": c["technique"],
            }
        )
    na = [{"property_id": k, "reason": v} for k, v in sorted(NOT_APPLICABLE.items())]
    claimed = set(CHECKS)
    import re
    props = [json.loads(l)["id"] for l in open(os.path.join(HERE, "properties.jsonl")) if l.strip()]
    for p in props:
        if p not in claimed and p not in NOT_APPLICABLE:
            na.append({"property_id": p, "reason": "check under construction in this session: not yet claimed (see DESIGN.md section 4 for the planned static rules)"})
    man = {
        "version": 1,
        "setup_cmd": "true",
        "hooks": {
            "guard": "SQLGLOT_VERIF",
            "enable": "no hooks: the checks read /repo's sources and import-time class tables only; nothing is instrumented",
            "baseline_off_cmd": "cd /repo && /venv/bin/python -m pytest -ra -q -p no:cacheprovider --timeout=900 --continue-on-collection-errors",
            "source_commits": [],
            "add_only": True,
        },
        "engines": [
            {
                "name": "sa",
                "path": "/verif/sa",
                "serves_properties": sorted(claimed),
                "kind_free_text": "repository-specific static analysis: ast loader + class/function index (core.py), import-introspection of declarative dialect tables (facts.py), statement CFG + dataflow (cfg.py), per-property rule modules (rules/cXX.py)",
            }
        ],
        "checks": checks,
        "notes": "All checks are static analyses of /repo's current working tree (VERIF_REPO_ROOT overrides the root for self-tests on scratch copies). Exit 0 pass, 1 VIOLATION, 2 ANALYSIS-ERROR. known_findings.json lists genuine defects (known / fixed).",
        "not_applicable": sorted(na, key=lambda x: x["property_id"]),
    }
    with open(os.path.join(HERE, "MANIFEST.json"), "w") as f:
        json.dump(man, f, indent=1)
        f.write("\n")


if __name__ == "__main__":
    main()
