#!/bin/bash
# usage: seed_redetect.sh [dir ...]   : re-run detection of the kept seeded changes against the current checks
cd /verif
for D in ${@:-seeded/*}; do
  D=/verif/seeded/$(basename $D)
  python3 tools/seed_eval.py detect $D > $D/detect.json
  python3 - "$D" <<'PY'
import json,sys
d=sys.argv[1]
t=json.load(open(d+'/detect.json')); m=json.load(open(d+'/meta.json'))
fired={k:v['rules'] for k,v in t.items() if isinstance(v,dict) and v.get('rc')==1}
errs=[k for k,v in t.items() if isinstance(v,dict) and v.get('rc')==2]
m["detected_by"]=fired; m["first_findings"]={k:v.get('first') for k,v in t.items() if isinstance(v,dict) and v.get('rc')==1}
json.dump(m,open(d+'/meta.json','w'),indent=1)
print(d.split('/')[-1], 'fired:',fired, '| analysis errors:', errs)
PY
done
