#!/bin/bash
# usage: seed_import.sh <Cxx> <A|B> [<source subdir> <kept name>]
#   copy an agent deliverable into /verif/seeded/<Cxx>-<X>/, confirm it in the scratch worktree, run detection
#   e.g. seed_import.sh C05 A round2 C   takes /tmp/seedout/C05/round2/patchA.diff and keeps it as seeded/C05-C
set -e
P=$1; X=$2; SUB=${3:-}; NAME=${4:-$X}
SRC=/tmp/seedout/$P/$SUB; D=/verif/seeded/$P-$NAME; WT=/tmp/seed_$P
mkdir -p $D
cp $SRC/patch$X.diff $D/patch.diff; cp $SRC/demo$X.py $D/demo.py; cp $SRC/meta$X.json $D/agent_meta.json
git -C $WT checkout -q -- . ; git -C $WT checkout -q --detach $(git -C /repo rev-parse HEAD)
python3 /verif/tools/seed_eval.py confirm $D $WT > $D/confirm.json
python3 /verif/tools/seed_eval.py detect $D > $D/detect.json
python3 - "$D" "$P" <<'PY'
import json,sys
d,p=sys.argv[1],sys.argv[2]
c=json.load(open(d+'/confirm.json')); t=json.load(open(d+'/detect.json')); a=json.load(open(d+'/agent_meta.json'))
fired={k:v['rules'] for k,v in t.items() if isinstance(v,dict) and v.get('rc')==1}
errs={k:v for k,v in t.items() if isinstance(v,dict) and v.get('rc')==2}
print(d, 'confirmed=',c.get('confirmed'), 'demo_clean',c.get('demo_clean_rc'),'demo_patched',c.get('demo_patched_rc'),'tests',c.get('tests_rc'), '| fired:',fired, '| analysis errors:', list(errs))
json.dump({"property":p,"summary":a.get("summary"),"needs":a.get("needs"),"files":a.get("files"),
 "what_i_ran":["tools/seed_eval.py confirm (scratch worktree: demo on clean tree, demo with patch, full existing suite with patch)","tools/seed_eval.py detect (git apply to /repo, ./vcheck <all 14> --tier quick, git checkout -- .)"],
 "confirmed":c.get("confirmed"),"confirm":c,"detected_by":fired,"first_findings":{k:v.get('first') for k,v in t.items() if isinstance(v,dict) and v.get('rc')==1}}, open(d+'/meta.json','w'), indent=1)
PY
