#!/usr/bin/env python3
"""Evaluate an independently written property-breaking change kept under /verif/seeded/<id>/.

  tools/seed_eval.py confirm <dir> <scratch worktree>   apply patch in the scratch worktree: demo must fail, existing
                                                         suite must pass; revert: demo must pass
  tools/seed_eval.py detect  <dir> [Cxx ...]            apply patch to /repo, run the checks, ALWAYS undo, report rules fired

Never commits anything to /repo.
"""
import json
import os
import subprocess
import sys
import time

PY = "/venv/bin/python"


def sh(cmd, cwd=None, timeout=1800, env=None):
    p = subprocess.run(cmd, cwd=cwd, shell=isinstance(cmd, str), capture_output=True, text=True, timeout=timeout, env=env)
    return p.returncode, p.stdout + p.stderr


def confirm(d, wt):
    patch = os.path.join(d, "patch.diff")
    demo = os.path.join(d, "demo.py")
    res = {}
    sh(f"git -C {wt} checkout -- . && git -C {wt} clean -fdq")
    rc, out = sh(f"{PY} {demo}", cwd=wt, timeout=300)
    res["demo_clean_rc"] = rc
    rc, out = sh(f"git -C {wt} apply {patch}")
    if rc != 0:
        res["apply_error"] = out[-400:]
        return res
    try:
        rc, out = sh(f"{PY} {demo}", cwd=wt, timeout=300)
        res["demo_patched_rc"] = rc
        res["demo_patched_tail"] = out.strip().splitlines()[-3:]
        t0 = time.time()
        rc, out = sh(f"{PY} -m pytest tests -q -p no:cacheprovider -n 10 -x", cwd=wt, timeout=3000)
        res["tests_rc"] = rc
        res["tests_tail"] = out.strip().splitlines()[-2:]
        res["tests_s"] = round(time.time() - t0)
    finally:
        sh(f"git -C {wt} checkout -- . && git -C {wt} clean -fdq")
    res["confirmed"] = res.get("demo_clean_rc") == 0 and res.get("demo_patched_rc", 0) != 0 and res.get("tests_rc") == 0
    return res


def detect(d, pids):
    patch = os.path.join(d, "patch.diff")
    rc, out = sh("git -C /repo status --porcelain")
    if out.strip():
        raise SystemExit("/repo has uncommitted changes; refusing")
    rc, out = sh(f"git -C /repo apply {patch}")
    if rc != 0:
        return {"apply_error": out[-400:]}
    fired = {}
    try:
        env = dict(os.environ)
        env["VERIF_EVIDENCE_DIR"] = "/tmp/seed_eval_ev"
        env["VERIF_CACHE_DIR"] = "/tmp/seed_eval_cache"
        for pid in pids:
            rc, out = sh(["/verif/vcheck", pid, "--tier", "quick"], cwd="/verif", env=env, timeout=900)
            rules = sorted({l.split()[1] for l in out.splitlines() if l.strip().startswith("FINDING")})
            fired[pid] = {"rc": rc, "rules": rules, "first": next((l.strip()[:260] for l in out.splitlines() if l.strip().startswith("FINDING")), None)}
    finally:
        sh("git -C /repo checkout -- .")
    return fired


def detect_scratch(d, wt, pids, tag):
    """same as detect, but on a scratch worktree of /repo's HEAD (lets several changes be evaluated in parallel)"""
    patch = os.path.join(d, "patch.diff")
    sh(f"git -C {wt} checkout -q -- . && git -C {wt} checkout -q --detach $(git -C /repo rev-parse HEAD)")
    rc, out = sh(f"git -C {wt} apply {patch}")
    if rc != 0:
        return {"apply_error": out[-400:]}
    fired = {}
    try:
        env = dict(os.environ)
        env["VERIF_REPO_ROOT"] = wt
        env["VERIF_EVIDENCE_DIR"] = f"/tmp/seed_eval_ev_{tag}"
        env["VERIF_CACHE_DIR"] = f"/tmp/seed_eval_cache_{tag}"
        for pid in pids:
            rc, out = sh(["/verif/vcheck", pid, "--tier", "quick"], cwd="/verif", env=env, timeout=900)
            rules = sorted({l.split()[1] for l in out.splitlines() if l.strip().startswith("FINDING")})
            fired[pid] = {"rc": rc, "rules": rules, "first": next((l.strip()[:260] for l in out.splitlines() if l.strip().startswith("FINDING")), None)}
    finally:
        sh(f"git -C {wt} checkout -q -- .")
    return fired


if __name__ == "__main__":
    mode, d = sys.argv[1], sys.argv[2]
    if mode == "detect_scratch":
        wt, tag = sys.argv[3], sys.argv[4]
        pids = sys.argv[5:] or ["C01", "C04", "C05", "C07", "C08", "C09", "C10", "C12", "C13", "C14", "C15", "C18", "C19", "C20"]
        print(json.dumps(detect_scratch(d, wt, pids, tag), indent=1))
        sys.exit(0)
    if mode == "confirm":
        print(json.dumps(confirm(d, sys.argv[3]), indent=1))
    else:
        pids = sys.argv[3:] or ["C01", "C04", "C05", "C07", "C08", "C09", "C10", "C12", "C13", "C14", "C15", "C18", "C19", "C20"]
        print(json.dumps(detect(d, pids), indent=1))
