"""S3 child: runs mypy as a library over the sqlglot package of the repo under analysis and
dumps the static type of every expression, keyed by source position.

Run as: cd <repo root> && /venv/bin/python typed_child.py <out.json>
No repository code is executed; mypy only reads the sources.
"""
import json
import os
import sys
import time


def main(out):
    t0 = time.time()
    from mypy import build
    from mypy.find_sources import create_source_list
    from mypy.options import Options
    from mypy.nodes import Expression, MypyFile, Node, TypeInfo, Var

    SKIP = (MypyFile, TypeInfo, Var)
    REF_ATTRS = {"node", "info", "def_var", "var", "original_def", "type", "unanalyzed_type", "type_guard", "type_is"}

    opts = Options()
    opts.preserve_asts = True
    opts.export_types = True
    opts.incremental = False
    opts.cache_dir = os.devnull
    opts.ignore_missing_imports = True
    opts.follow_imports = "silent"
    opts.show_traceback = False
    opts.python_version = sys.version_info[:2]
    # opt-in code the project does not enable: definite-assignment (UnboundLocalError) candidates
    opts.enable_error_code = ["possibly-undefined"]
    opts.enabled_error_codes = set()
    try:
        from mypy import errorcodes

        opts.enabled_error_codes = {errorcodes.POSSIBLY_UNDEFINED}
    except Exception:
        pass
    sources = create_source_list(["sqlglot"], opts)
    res = build.build(sources=sources, options=opts)
    types = res.types
    facts = {}
    n = 0
    for expr, typ in types.items():
        if expr.line < 0:
            continue
        n += 1
    # map expressions to modules by walking each tree
    by_mod = {}
    for modname, f in res.files.items():
        if not (modname == "sqlglot" or modname.startswith("sqlglot.")):
            continue
        d = {}
        seen = set()
        stack = [f]
        while stack:
            node = stack.pop()
            if id(node) in seen:
                continue
            seen.add(id(node))
            if isinstance(node, Expression):
                t = types.get(node)
                if t is not None and node.line >= 0:
                    key = f"{node.line}:{node.column}:{node.end_line}:{node.end_column}"
                    s = str(t)
                    prev = d.get(key)
                    if prev is None or len(s) > len(prev):
                        d[key] = s if len(s) < 300 else s[:300]
            for name in dir(type(node)):
                if name.startswith("_") or name in REF_ATTRS:
                    continue
                try:
                    v = getattr(node, name)
                except Exception:
                    continue
                if isinstance(v, Node):
                    if not isinstance(v, SKIP):
                        stack.append(v)
                elif isinstance(v, (list, tuple)):
                    for x in v:
                        if isinstance(x, Node):
                            if not isinstance(x, SKIP):
                                stack.append(x)
                        elif isinstance(x, (list, tuple)):
                            for y in x:
                                if isinstance(y, Node) and not isinstance(y, SKIP):
                                    stack.append(y)
        by_mod[modname] = d
    with open(out, "w") as fh:
        json.dump({"errors": len(res.errors), "messages": [e for e in res.errors if "possibly-undefined" in e], "n_types": n, "wall_s": round(time.time() - t0, 1), "modules": by_mod}, fh)
    sys.stdout.flush()
    os._exit(0)


if __name__ == "__main__":
    main(sys.argv[1])
