"""C20 – An AST diff accounts for every node once and is empty only for equal trees.

Partition typestate of ChangeDistiller, decided on the shape of the code:
  C20.a  every matching_set.add((s, t)) is co-located with the removal of s and t from the
         unmatched sets and is preceded by a proof that both are currently unmatched
         (membership tests, or snapshot iteration with pop + break).
  C20.b  every match is between nodes of the same type (_is_same_type dominates the add,
         or dominates the heap push the pair was taken from).
  C20.c  the edit script emits exactly one Remove / Insert per unmatched id and exactly one
         Keep-or-Update per matched pair on every path (none only under delta_only).
  C20.d  diff() leaves its inputs untouched: hashes cached on the inputs are reset in
         `finally`; the distiller never calls a tree mutator; SQL is generated with the
         copying default.
Does not decide: "delta empty <=> trees equal" (similarity thresholds, hash equality).
"""

from __future__ import annotations

import ast

from ..cfg import CFG
from ..core import Ctx, call_name, dotted, is_self_attr, norm, walk_no_nested

MOD = "sqlglot.diff"


def _adds(fn: ast.FunctionDef):
    return [
        c for c in walk_no_nested(fn)
        if isinstance(c, ast.Call) and isinstance(c.func, ast.Attribute) and c.func.attr == "add"
        and isinstance(c.func.value, ast.Name) and "matching" in c.func.value.id
        and c.args and isinstance(c.args[0], ast.Tuple) and len(c.args[0].elts) == 2
    ]


def _block_of(m, node: ast.AST) -> tuple[list[ast.stmt], ast.stmt]:
    st = m.enclosing_stmt(node)
    p = m.parent(st)
    for fld in ("body", "orelse", "finalbody"):
        lst = getattr(p, fld, None)
        if isinstance(lst, list) and st in lst:
            return lst, st
    return [st], st


def _dominating_tests(m, node: ast.AST, stop: ast.AST) -> list[ast.AST]:
    """Conjuncts of the tests of enclosing `if`s whose *body* contains node."""
    out: list[ast.AST] = []
    cur = node
    p = m.parent(cur)
    while p is not None and p is not stop:
        if isinstance(p, ast.If) and any(cur is s or cur in ast.walk(s) for s in p.body):
            def conj(e):
                if isinstance(e, ast.BoolOp) and isinstance(e.op, ast.And):
                    for v in e.values:
                        yield from conj(v)
                else:
                    yield e
            out += list(conj(p.test))
        cur = p
        p = m.parent(p)
    return out


def rule_ab(ctx: Ctx) -> None:
    ctx.rule("C20.a", "every matching_set.add((s,t)) removes s and t from the unmatched sets in the same block and is guarded by a both-unmatched proof")
    ctx.rule("C20.b", "every matching_set.add((s,t)) is dominated by _is_same_type on the pair (directly or at the heap push it was popped from)")
    cls = ctx.repo.cls(MOD, "ChangeDistiller")
    m = cls.module
    n_adds = 0
    for name, md in cls.methods().items():
        for add in _adds(md):
            n_adds += 1
            where = f"{cls.key}.{name}"
            s_expr, t_expr = (norm(e) for e in add.args[0].elts)
            block, st = _block_of(m, add)
            texts = [norm(x) for x in block]
            rm_s = f"self._unmatched_source_nodes.remove({s_expr})" in texts
            rm_t = f"self._unmatched_target_nodes.remove({t_expr})" in texts
            ctx._cur_rule = "C20.a"
            if rm_s and rm_t:
                ctx.ok(f"{where}|co-update|{norm(add)}", {"add": norm(add), "removes": [s_expr, t_expr]})
            else:
                ctx.fail(m, add, where, add,
                         f"matching_set.add is not accompanied in the same block by removal of "
                         f"{'source ' + s_expr if not rm_s else ''}{' and ' if not rm_s and not rm_t else ''}{'target ' + t_expr if not rm_t else ''} "
                         f"from the unmatched sets: the node would be reported both as matched and as removed/inserted (or be matched twice)")
            tests = [norm(x) for x in _dominating_tests(m, add, md)]
            member = f"{s_expr} in self._unmatched_source_nodes" in tests and f"{t_expr} in self._unmatched_target_nodes" in tests
            snapshot = False
            if not member:
                # snapshot iteration: s and t are loop variables of nested for-loops over dicts/lists built from the
                # unmatched sets; after the add the target is popped from the iterated container and the inner loop breaks
                loops = []
                p = m.parent(add)
                while p is not None and p is not md:
                    if isinstance(p, ast.For):
                        loops.append(p)
                    p = m.parent(p)
                if len(loops) >= 2:
                    inner, outer = loops[0], loops[1]
                    if norm(inner.target) == t_expr and norm(outer.target) == s_expr and isinstance(inner.iter, ast.Name) and isinstance(outer.iter, ast.Name):
                        def built_from_unmatched(varname: str, attr: str) -> bool:
                            for a in walk_no_nested(md):
                                if isinstance(a, ast.Assign) and len(a.targets) == 1 and norm(a.targets[0]) == varname:
                                    return any(is_self_attr(x, attr) for x in ast.walk(a.value)) and any(
                                        isinstance(x, ast.Compare) and isinstance(x.ops[0], ast.In) for x in ast.walk(a.value)
                                    )
                            return False
                        src_ok = built_from_unmatched(outer.iter.id, "_unmatched_source_nodes")
                        tgt_ok = built_from_unmatched(inner.iter.id, "_unmatched_target_nodes")
                        popped = any(t.startswith(f"{inner.iter.id}.pop({t_expr}") for t in texts)
                        idx = block.index(st)
                        breaks = any(isinstance(x, ast.Break) for x in block[idx:])
                        no_continue_before_break = True
                        snapshot = src_ok and tgt_ok and popped and breaks and no_continue_before_break
            if member or snapshot:
                ctx.ok(f"{where}|unmatched-proof|{norm(add)}", {"add": norm(add), "proof": "membership tests" if member else "snapshot iteration + pop + break"})
            else:
                ctx.fail(m, add, where, f"unmatched proof for {norm(add)}",
                         "matching_set.add is not guarded by a proof that both nodes are currently unmatched (membership tests, or snapshot "
                         "iteration with pop of the target and break): a node can be matched twice")
            ctx._cur_rule = "C20.b"
            same = any(t.startswith("_is_same_type(") for t in tests)
            via_heap = False
            if not same:
                # pair popped from a heap: all pushes to that heap in this method are dominated by _is_same_type
                pops = [c for c in walk_no_nested(md) if isinstance(c, ast.Call) and call_name(c) == "heappop"]
                pushes = [c for c in walk_no_nested(md) if isinstance(c, ast.Call) and call_name(c) == "heappush"]
                if pops and pushes:
                    via_heap = all(any(t.startswith("_is_same_type(") for t in (norm(x) for x in _dominating_tests(m, pu, md))) for pu in pushes)
            if same or via_heap:
                ctx.ok(f"{where}|same-type|{norm(add)}", {"add": norm(add), "guard": "_is_same_type" + (" at heappush" if via_heap else "")})
            else:
                ctx.fail(m, add, where, f"_is_same_type guard for {norm(add)}", "a pair can be matched without the same-type check: paired nodes may differ in type")
    ctx.count("matching_adds", n_adds, "C20.a")
    ctx._cur_rule = "C20.a"
    ctx.min_instances("matching_adds", n_adds, 2)
    # _is_same_type itself must compare the classes
    f = ctx.repo.func(MOD, "_is_same_type")
    if any(isinstance(x, ast.Compare) and "__class__" in norm(x) or (isinstance(x, ast.Compare) and "type(" in norm(x)) for x in ast.walk(f.node)):
        ctx.ok(f"{f.key}|compares classes", rule="C20.b")
    else:
        ctx.fail(f.module, f.node, f.key, "_is_same_type", "_is_same_type no longer compares the node classes", rule="C20.b")


def rule_c(ctx: Ctx) -> None:
    ctx.rule("C20.c", "edit script: one Remove per unmatched source id, one Insert per unmatched target id, exactly one Keep|Update per matched pair on every path (zero only under delta_only)")
    f = ctx.repo.func(MOD, "ChangeDistiller._generate_edit_script")
    m = f.module
    loops = [st for st in f.node.body if isinstance(st, ast.For)]
    ctx.require(len(loops) >= 3, "anchor vanished: _generate_edit_script no longer has its three loops")

    def appended(node: ast.AST) -> list[str]:
        out = []
        for c in ast.walk(node):
            if isinstance(c, ast.Call) and call_name(c) == "edit_script.append" and c.args and isinstance(c.args[0], ast.Call):
                out.append(call_name(c.args[0]) or "?")
        return out

    for loop, attr, kind in ((loops[0], "_unmatched_source_nodes", "Remove"), (loops[1], "_unmatched_target_nodes", "Insert")):
        ok = is_self_attr(loop.iter, attr) and len(loop.body) == 1 and appended(loop.body[0]) == [kind] and not any(
            isinstance(x, (ast.If, ast.Continue, ast.Break)) for x in ast.walk(loop)
        )
        if ok:
            ctx.ok(f"{f.key}|{kind} per unmatched id", {"loop": norm(loop.iter), "emits": kind})
        else:
            ctx.fail(m, loop, f.key, loop, f"the loop over {attr} must append exactly one {kind} per id unconditionally")
    third = loops[2]
    ctx.require("matchings" in norm(third.iter), "anchor vanished: third loop of _generate_edit_script does not iterate matchings")
    g = CFG(f.node)
    head = next((h for h in g.loop_heads if h.ast is third), None)
    ctx.require(head is not None, "internal: loop head not found")
    # enumerate acyclic paths head(True) -> back edge to head, tracking count of Keep/Update and whether delta_only was taken True
    paths = 0
    bad: list[str] = []

    def walk(n, seen, cnt, delta_true, trail):
        nonlocal paths
        for s, lab in n.succ:
            c2, d2 = cnt, delta_true
            if n.kind == "stmt" and n.ast is not None:
                pass
            if s is head:
                paths += 1
                if paths > 5000:
                    return
                if not (c2 == 1 or (c2 == 0 and d2)):
                    bad.append(f"{c2} Keep/Update on path via lines {[x.lineno for x in trail if x.ast is not None][:12]}")
                continue
            if s in seen or s is g.exit or s is g.raise_exit:
                continue
            if s.loop is not head and s.loop is not None and s.kind != "for":
                # nested loop bodies: treat as transparent unless they append Keep/Update
                pass
            add = 0
            if s.kind == "stmt" and s.ast is not None:
                add = sum(1 for k in appended(s.ast) if k in ("Keep", "Update"))
            d3 = d2
            walk(s, seen | {s}, c2 + add, d3, trail + [s])

    # handle delta_only: edges out of cond `delta_only` — the cond node is `delta_only` with `not` decomposed
    def walk2(n, seen, cnt, delta_true, trail):
        nonlocal paths
        for s, lab in n.succ:
            d2 = delta_true
            if n.kind == "cond" and isinstance(n.ast, ast.Name) and n.ast.id == "delta_only" and lab is True:
                d2 = True
            if s is head:
                paths += 1
                if not (cnt == 1 or (cnt == 0 and d2)):
                    bad.append(f"{cnt} Keep/Update emitted on the path through lines {sorted({x.lineno for x in trail if x.ast is not None})[:14]}")
                continue
            if s in seen or s is g.exit or s is g.raise_exit or paths > 5000:
                continue
            add = 0
            if s.kind == "stmt" and s.ast is not None:
                add = sum(1 for k in appended(s.ast) if k in ("Keep", "Update"))
            walk2(s, seen | {s}, cnt + add, d2, trail + [s])

    for s, lab in head.succ:
        if lab is True:
            add = sum(1 for k in appended(s.ast) if k in ("Keep", "Update")) if s.kind == "stmt" and s.ast is not None else 0
            walk2(s, {s, head}, add, False, [s])
    ctx.count("paths_enumerated", paths)
    ctx.min_instances("paths_enumerated", paths, 4)
    if bad:
        ctx.fail(m, third, f.key, "Keep|Update exactly once per matched pair", "; ".join(sorted(set(bad))[:4]))
    else:
        ctx.ok(f"{f.key}|exactly one Keep|Update per matched pair", {"paths": paths})
    # no other statement of the function appends Keep/Update/Remove/Insert outside its loop
    outside = [k for st in f.node.body if st not in loops for k in appended(st)]
    if outside:
        ctx.fail(m, f.node, f.key, "appends outside loops", f"edit_script appends outside the three loops: {outside}")
    else:
        ctx.ok(f"{f.key}|no appends outside the loops")


def rule_d(ctx: Ctx) -> None:
    ctx.rule("C20.d", "diff() leaves inputs untouched: cached hashes on inputs are reset in finally under `not copy`; distiller and helpers call no tree mutator; generate() uses the copying default")
    f = ctx.repo.func(MOD, "diff")
    m = f.module
    tries = [st for st in f.node.body if isinstance(st, ast.Try)]
    ctx.require(len(tries) == 1, "anchor vanished: diff() no longer has exactly one try statement")
    tr = tries[0]
    # every `_hash = hash(...)` store on input nodes lies inside the try body (or in the nested helper applied to copies)
    n_sites = 0
    for n in walk_no_nested(f.node):
        if isinstance(n, ast.Attribute) and n.attr == "_hash" and isinstance(n.ctx, ast.Store):
            n_sites += 1
            st = m.enclosing_stmt(n)
            inside_try = any(st is x or st in ast.walk(x) for x in tr.body)
            inside_finally = any(st is x or st in ast.walk(x) for x in tr.finalbody)
            if isinstance(st, ast.Assign) and isinstance(st.value, ast.Constant) and st.value.value is None:
                ctx.ok(f"{f.key}|{norm(st)}", {"stmt": norm(st), "where": "finally" if inside_finally else "body"})
            elif inside_try:
                ctx.ok(f"{f.key}|{norm(st)}", {"stmt": norm(st), "where": "try body"})
            else:
                ctx.fail(m, n, f.key, st, "a hash is cached on input nodes outside the try whose finally evicts it")
    # finally: if not copy: for node in <nodes of both inputs that were unhashed before>: node._hash = None
    fin_ok = False
    for st in tr.finalbody:
        if isinstance(st, ast.If) and norm(st.test) == "not copy":
            for lp in st.body:
                if isinstance(lp, ast.For) and any(norm(x) == f"{norm(lp.target)}._hash = None" for x in lp.body):
                    it = lp.iter
                    covers = "source_nodes" in norm(it) and "target_nodes" in norm(it)
                    if isinstance(it, ast.Name):
                        # a local collection: it must be built from the node tuples of *both* inputs
                        defs = [x.value for x in walk_no_nested(f.node) if isinstance(x, ast.Assign) and len(x.targets) == 1 and norm(x.targets[0]) == it.id]
                        covers = bool(defs) and all("source_nodes" in norm(d, 400) and "target_nodes" in norm(d, 400) for d in defs)
                    if covers:
                        fin_ok = True
    if fin_ok:
        ctx.ok(f"{f.key}|finally evicts the hashes it cached on both inputs when not copied")
    else:
        ctx.fail(m, tr, f.key, "finally: if not copy: for node in <both inputs' nodes>: node._hash = None",
                 "diff() no longer evicts, in finally, the hashes it cached on both (uncopied) input trees")
    # the uncopied branch caches over the same node tuples that finally resets
    # distiller + helpers: no mutators on nodes
    MUT = {"set", "replace", "set_kwargs", "add_comments", "pop_comments", "update_positions", "transform"}
    n_calls = 0
    for fn in m.funcs.values():
        if fn.qualname.startswith("diff"):
            continue
        for c in walk_no_nested(fn.node):
            if isinstance(c, ast.Call) and isinstance(c.func, ast.Attribute):
                n_calls += 1
                a = c.func.attr
                bad = a in MUT or (a == "append" and len(c.args) == 2) or (a == "pop" and not c.args and not c.keywords)
                if a == "pop" and not c.args:
                    # set.pop()/list.pop() on local containers are fine; flag only receivers that are node-like names
                    recv = norm(c.func.value)
                    bad = any(k in recv for k in ("node", "source", "target", "expression", "leaf")) and "nodes" not in recv and "_unmatched" not in recv
                if bad:
                    ctx.fail(m, c, fn.key, c, f"the diff machinery calls a tree mutator (.{a}) — inputs may be altered")
            if isinstance(c, ast.Call) and (call_name(c) or "").endswith("_sql_generator.generate"):
                if any(kw.arg == "copy" for kw in c.keywords) or len(c.args) > 1:
                    ctx.fail(m, c, fn.key, c, "generate() is called with an explicit copy argument; the copying default is required here")
                else:
                    ctx.ok(f"{fn.key}|{norm(c)}", {"call": norm(c), "copy": "default True"})
    ctx.count("method_calls_scanned", n_calls)
    ctx.count("hash_store_sites", n_sites)
    ctx.min_instances("hash_store_sites", n_sites, 2)
    ctx.ok(f"{MOD}|no tree mutator calls in ChangeDistiller/helpers", {"calls_scanned": n_calls})


def rule_e(ctx: Ctx) -> None:
    ctx.rule("C20.e", "per-call state of the distiller: every attribute of ChangeDistiller that its methods fill or mutate while diffing is rebound at the start of diff() "
                      "(an attribute created once in __init__ carries ids of the previous call's nodes into the next)")
    from ..effects import MUTATORS

    c = ctx.repo.cls(MOD, "ChangeDistiller")
    meths = c.methods()
    d = meths.get("diff")
    ctx.require(d is not None, "anchor vanished: ChangeDistiller.diff")
    rebound = {x.attr for x in walk_no_nested(d) if isinstance(x, ast.Attribute) and isinstance(x.ctx, ast.Store) and isinstance(x.value, ast.Name) and x.value.id == "self"}
    mutated: dict[str, str] = {}
    for name, md in meths.items():
        if name == "__init__":
            continue
        for x in walk_no_nested(md):
            if isinstance(x, ast.Subscript) and isinstance(x.ctx, (ast.Store, ast.Del)) and isinstance(x.value, ast.Attribute) and isinstance(x.value.value, ast.Name) and x.value.value.id == "self":
                mutated.setdefault(x.value.attr, f"{name}: {norm(m_stmt(c.module, x), 60)}")
            if isinstance(x, ast.Call) and isinstance(x.func, ast.Attribute) and x.func.attr in MUTATORS and isinstance(x.func.value, ast.Attribute) \
                    and isinstance(x.func.value.value, ast.Name) and x.func.value.value.id == "self":
                mutated.setdefault(x.func.value.attr, f"{name}: {norm(x, 60)}")
    ctx.require(bool(mutated), "anchor vanished: ChangeDistiller no longer keeps working state on self")
    for attr, where in sorted(mutated.items()):
        inst = f"{c.key}|self.{attr}"
        if attr in rebound:
            ctx.ok(inst, {"attribute": attr, "mutated_in": where, "rebound_in_diff": True})
        else:
            ctx.fail(c.module, d, f"{c.key}.diff", f"self.{attr}",
                     f"self.{attr} is filled while diffing ({where}) but diff() does not rebind it: a reused ChangeDistiller answers from entries of the previous call "
                     f"(node ids are reused by the allocator), so a tree diffed against its own copy can give a non-empty delta")


def m_stmt(m, node):
    return m.enclosing_stmt(node) or node


def rule_f(ctx: Ctx) -> None:
    ctx.rule("C20.f", "positional node mapping: the node tuple of an input and the node tuple of its copy that compute_node_mappings zips together are produced by the same traversal method")
    f = ctx.repo.func(MOD, "diff")
    binds = {}
    for st in walk_no_nested(f.node):
        if isinstance(st, ast.Assign) and len(st.targets) == 1 and isinstance(st.targets[0], ast.Name):
            binds.setdefault(st.targets[0].id, []).append(st.value)

    def traversal(e: ast.AST) -> str | None:
        if isinstance(e, ast.Name) and len(binds.get(e.id, [])) == 1:
            return traversal(binds[e.id][0])
        if isinstance(e, ast.Call) and call_name(e) in ("tuple", "list") and len(e.args) == 1:
            return traversal(e.args[0])
        if isinstance(e, ast.Call) and isinstance(e.func, ast.Attribute) and not e.args:
            return e.func.attr
        return None

    calls = [c for c in walk_no_nested(f.node) if isinstance(c, ast.Call) and call_name(c) == "compute_node_mappings" and len(c.args) == 2]
    ctx.require(len(calls) >= 2, "anchor vanished: diff() no longer maps both inputs with compute_node_mappings(old_nodes, new_nodes)")
    for c in calls:
        a, b = traversal(c.args[0]), traversal(c.args[1])
        inst = f"{f.key}|{norm(c, 80)}"
        if a is None or b is None:
            ctx.ok(inst, {"decided": False, "note": "traversal of an argument not recognised"})
        elif a == b:
            ctx.ok(inst, {"old_nodes": a, "new_nodes": b})
        else:
            ctx.fail(f.module, c, f.key, c, f"the original's nodes are listed with .{a}() but the copy's with .{b}(): positions no longer correspond, so caller-supplied matchings are "
                                           f"remapped onto the wrong copied nodes")


def _heap_pushes(fn: ast.AST) -> list[tuple[ast.Call, str, ast.Tuple]]:
    return [(c, c.args[0].id, c.args[1]) for c in ast.walk(fn)
            if isinstance(c, ast.Call) and (call_name(c) or "").split(".")[-1] == "heappush" and len(c.args) == 2 and isinstance(c.args[0], ast.Name) and isinstance(c.args[1], ast.Tuple)]


def rule_g(ctx: Ctx) -> None:
    ctx.rule("C20.g", "syntax-tree nodes are never ordered: every tuple pushed on a heap that carries nodes has, before its first node, an element that is unique per entry "
                      "(len(<the heap>), a counter) — Expr.__lt__ is the builder overload that returns a truthy LT node, so entries that tie on their scores would be ordered by an "
                      "arbitrary 'comparison' of nodes and the candidate matchings come off the heap in a non-positional order (spurious Move edits for equal trees)")
    probe = ast.parse("def f(self):\n    h: list[tuple[float, exp.Expr]] = []\n    heappush(h, (-s, leaf))\n").body[0]
    ctx.require(len(_heap_pushes(probe)) == 1, "positive control failed: heappush not recognised")
    m = ctx.repo.module("sqlglot.diff")
    n = 0
    for f in m.funcs.values():
        if ".<locals>." in f.qualname:
            continue
        ann: dict[str, list[str]] = {}
        for st in ast.walk(f.node):
            if isinstance(st, ast.AnnAssign) and isinstance(st.target, ast.Name):
                a = st.annotation
                # list[tuple[T0, T1, ...]]
                if isinstance(a, ast.Subscript) and norm(a.value) in ("list", "t.List", "List") and isinstance(a.slice, ast.Subscript) and norm(a.slice.value) in ("tuple", "t.Tuple", "Tuple"):
                    inner = a.slice.slice
                    ann[st.target.id] = [norm(e) for e in (inner.elts if isinstance(inner, ast.Tuple) else [inner])]
        for c, heap, tup in _heap_pushes(f.node):
            n += 1
            inst = f"{f.key}|heappush({heap}, ...)"
            types = ann.get(heap)
            if types is None or len(types) != len(tup.elts):
                ctx.ok(inst + "|not decided: the heap's element types are not declared as list[tuple[...]] of matching arity", None)
                continue
            first_node = next((i for i, t_ in enumerate(types) if "exp." in t_ or t_.endswith("Expr") or t_.endswith("Expression")), None)
            if first_node is None:
                ctx.ok(inst, {"entries_carry_nodes": False})
                continue
            unique = [i for i, e in enumerate(tup.elts[:first_node])
                      if (isinstance(e, ast.Call) and norm(e.func) == "len" and e.args and norm(e.args[0]) == heap) or (isinstance(e, ast.Call) and norm(e.func) == "next")]
            if unique:
                ctx.ok(inst, {"tie_breaker": norm(tup.elts[unique[0]]), "first_node_at": first_node})
            else:
                ctx.fail(m, c, f.key, c, f"the entries pushed on `{heap}` carry a node at position {first_node} and nothing unique before it ({', '.join(norm(e, 30) for e in tup.elts[:first_node])}): "
                                         f"entries with equal scores are ordered by comparing nodes, which builds LT expressions instead of ordering — equal trees get crosswise matches and a non-empty delta")
    ctx.count("heap_pushes", n)
    ctx.min_instances("heap_pushes", n, 1)


def rule_h(ctx: Ctx) -> None:
    ctx.rule("C20.h", "two-node edits pair only matched nodes: in sqlglot/diff.py every Keep / Update / Move is built from a source node looked up in the source index and the target "
                      "node looked up in the target index under the key the matching assigns to it (`matchings[key]`, or the paired variable of `for k, v in matchings.items()`) — "
                      "pairing nodes by position in two traversals assumes that equal trees list their nodes in the same order, which argument insertion order breaks")
    m = ctx.repo.module("sqlglot.diff")
    n = 0
    for f in m.funcs.values():
        if ".<locals>." in f.qualname:
            continue
        assigns: dict[str, ast.AST] = {}
        for st in ast.walk(f.node):
            if isinstance(st, ast.Assign) and len(st.targets) == 1 and isinstance(st.targets[0], ast.Name):
                assigns.setdefault(st.targets[0].id, st.value)
        pairs: set[tuple[str, str]] = set()
        for lp in ast.walk(f.node):
            if isinstance(lp, (ast.For, ast.comprehension)) and isinstance(lp.target, ast.Tuple) and len(lp.target.elts) == 2 and all(isinstance(e, ast.Name) for e in lp.target.elts) \
                    and isinstance(lp.iter, ast.Call) and isinstance(lp.iter.func, ast.Attribute) and lp.iter.func.attr == "items" and "matching" in norm(lp.iter.func.value):
                pairs.add((lp.target.elts[0].id, lp.target.elts[1].id))

        def lookup(e: ast.AST) -> tuple[str, ast.AST] | None:
            if isinstance(e, ast.Name) and e.id in assigns:
                e = assigns[e.id]
            if isinstance(e, ast.Subscript) and norm(e.value) in ("self._source_index", "self._target_index"):
                return norm(e.value), e.slice
            return None

        for c in ast.walk(f.node):
            if not (isinstance(c, ast.Call) and isinstance(c.func, ast.Name) and c.func.id in ("Keep", "Update", "Move")):
                continue
            n += 1
            ops = list(c.args) + [k.value for k in c.keywords if k.arg in ("source", "target")]
            inst = f"{f.key}|{norm(c, 70)}"
            if len(ops) != 2:
                ctx.fail(m, c, f.key, c, f"`{norm(c, 70)}`: cannot identify the source and target operands of this edit")
                continue
            src, tgt = lookup(ops[0]), lookup(ops[1])
            ok = False
            if src and tgt and src[0] == "self._source_index" and tgt[0] == "self._target_index":
                sk, tk = src[1], tgt[1]
                if isinstance(tk, ast.Subscript) and "matching" in norm(tk.value) and norm(tk.slice) == norm(sk):
                    ok = True
                elif isinstance(sk, ast.Name) and isinstance(tk, ast.Name) and (sk.id, tk.id) in pairs:
                    ok = True
            if ok:
                ctx.ok(inst, {"edit": norm(c, 70), "paired_through": "matchings"})
            else:
                ctx.fail(m, c, f.key, c, f"`{norm(c, 70)}` pairs two nodes that are not related through the matching (source index entry and the target index entry under "
                                         f"`matchings[key]`): e.g. pairing the nodes of two traversals by position reports Keep for nodes of different types when equal trees hold "
                                         f"their arguments in a different insertion order")
    ctx.count("two_node_edits", n)
    ctx.min_instances("two_node_edits", n, 4)


def rule_i(ctx: Ctx) -> None:
    ctx.rule("C20.i", "the private-copy decision of diff() sees both inputs whole: the condition of `<input>.copy() if <cond> else <input>` depends, for the source and for the target, "
                      "on the length of the node sequence and on the id set of that input (a node object residing twice inside one tree), and on both id sets in one "
                      "operation (a node shared by the two trees) — unless the inputs are copied unconditionally")
    f = ctx.repo.func(MOD, "diff")
    binds: dict[str, list[ast.AST]] = {}
    for st in walk_no_nested(f.node):
        if isinstance(st, ast.Assign) and len(st.targets) == 1 and isinstance(st.targets[0], ast.Name):
            binds.setdefault(st.targets[0].id, []).append(st.value)
    params = [a.arg for a in f.node.args.args[:2]]
    ctx.require(len(params) == 2, "anchor vanished: diff(source, target, ...)")

    def traverses(e: ast.AST, p: str) -> bool:
        if isinstance(e, ast.Call) and call_name(e) in ("tuple", "list") and len(e.args) == 1:
            return traverses(e.args[0], p)
        return isinstance(e, ast.Call) and isinstance(e.func, ast.Attribute) and isinstance(e.func.value, ast.Name) and e.func.value.id == p and not e.args

    seqs = {p: {n for n, vs in binds.items() if len(vs) == 1 and traverses(vs[0], p)} for p in params}

    def is_idset(e: ast.AST, p: str) -> bool:
        if isinstance(e, ast.Call) and call_name(e) in ("set", "frozenset") and len(e.args) == 1:
            e = e.args[0]
        if not isinstance(e, (ast.SetComp, ast.GeneratorExp, ast.ListComp)) or len(e.generators) != 1:
            return False
        it = e.generators[0].iter
        over = (isinstance(it, ast.Name) and it.id in seqs[p]) or traverses(it, p)
        return over and isinstance(e.elt, ast.Call) and call_name(e.elt) == "id"

    idsets = {p: {n for n, vs in binds.items() if len(vs) == 1 and is_idset(vs[0], p)} for p in params}

    conds = []
    for p in params:
        for st in walk_no_nested(f.node):
            if isinstance(st, ast.IfExp) and isinstance(st.orelse, ast.Name) and st.orelse.id == p and isinstance(st.body, ast.Call) \
                    and isinstance(st.body.func, ast.Attribute) and st.body.func.attr == "copy" and isinstance(st.body.func.value, ast.Name) and st.body.func.value.id == p:
                conds.append((p, st))
    uncond = [p for p in params if any(isinstance(c, ast.Call) and isinstance(c.func, ast.Attribute) and c.func.attr == "copy" and isinstance(c.func.value, ast.Name)
                                       and c.func.value.id == p and not isinstance(getattr(c, "_sa_parent", None), ast.IfExp) for c in walk_no_nested(f.node))
              and p not in [q for q, _ in conds]]
    ctx.require(len(conds) + len(uncond) >= 2, "anchor vanished: diff() no longer takes `<input>.copy() if <cond> else <input>` for both inputs")
    ctx.count("copy_decisions", len(conds))

    def expand(e: ast.AST, depth: int = 0) -> list[ast.AST]:
        out = [e]
        if depth < 4:
            for x in ast.walk(e):
                if isinstance(x, ast.Name) and x.id not in seqs[params[0]] | seqs[params[1]] | idsets[params[0]] | idsets[params[1]] and len(binds.get(x.id, [])) == 1:
                    out += expand(binds[x.id][0], depth + 1)
        return out

    for p, ife in conds:
        inst = f"{f.key}|{p}.copy() if {norm(ife.test, 40)}"
        if isinstance(ife.test, ast.Constant) and ife.test.value is True:
            ctx.ok(inst, {"unconditional": True})
            continue
        exprs = expand(ife.test)
        lens = {c.args[0].id for e in exprs for c in ast.walk(e) if isinstance(c, ast.Call) and call_name(c) == "len" and len(c.args) == 1 and isinstance(c.args[0], ast.Name)}
        names = {x.id for e in exprs for x in ast.walk(e) if isinstance(x, ast.Name)}
        if not any(idsets[q] for q in params) or not any(seqs[q] for q in params):
            ctx.ok(inst, {"decided": False, "note": "node sequences / id sets of the inputs not recognised"})
            continue
        missing = []
        for q in params:
            if not (lens & seqs[q]):
                missing.append(f"len(<node sequence of {q}>)")
            if not (names & idsets[q]):
                missing.append(f"<id set of {q}>")
        both = False
        for e in exprs:
            for x in ast.walk(e):
                if isinstance(x, (ast.BinOp, ast.Compare, ast.Call)):
                    direct = {y.id for y in ast.iter_child_nodes(x) if isinstance(y, ast.Name)}
                    if isinstance(x, ast.Call) and isinstance(x.func, ast.Attribute) and isinstance(x.func.value, ast.Name):
                        direct.add(x.func.value.id)
                    if isinstance(x, ast.Compare):
                        direct |= {y.id for y in x.comparators if isinstance(y, ast.Name)}
                    if all(direct & idsets[q] for q in params):
                        both = True
        if not both:
            missing.append("an operation on the two id sets together")
        if missing:
            ctx.fail(f.module, ife, f.key, f"{p}.copy() if {norm(ife.test, 40)}",
                     f"whether diff() works on private copies does not depend on {', '.join(missing)}: a tree that holds one node object twice (or shares a node with the other "
                     f"input) is diffed in place, parent links of the shared node describe only one residence and the edit script pairs / moves the wrong nodes")
        else:
            ctx.ok(inst, {"sequence_lengths": sorted(lens), "id_sets": sorted(names & (idsets[params[0]] | idsets[params[1]]))})


def rule_j(ctx: Ctx) -> None:
    ctx.rule("C20.j", "caller-supplied matchings are re-mapped side by side: when diff() works on private copies, the source node of a matching is looked up in the mapping built "
                      "from the source's node sequence only and the target node in the mapping built from the target's only — the copies are taken exactly when the inputs may share "
                      "node objects, so one merged id -> copy table answers a shared id with the copy of one side for both")
    f = ctx.repo.func(MOD, "diff")
    binds: dict[str, list[ast.AST]] = {}
    for st in walk_no_nested(f.node):
        if isinstance(st, ast.Assign) and len(st.targets) == 1 and isinstance(st.targets[0], ast.Name):
            binds.setdefault(st.targets[0].id, []).append(st.value)
    params = [a.arg for a in f.node.args.args[:2]]

    def traverses(e: ast.AST, p: str) -> bool:
        if isinstance(e, ast.Name) and len(binds.get(e.id, [])) == 1:
            return traverses(binds[e.id][0], p)
        if isinstance(e, ast.Call) and call_name(e) in ("tuple", "list") and len(e.args) == 1:
            return traverses(e.args[0], p)
        return isinstance(e, ast.Call) and isinstance(e.func, ast.Attribute) and isinstance(e.func.value, ast.Name) and e.func.value.id == p and not e.args

    remaps = []
    for x in ast.walk(f.node):
        if isinstance(x, (ast.ListComp, ast.GeneratorExp)) and len(x.generators) == 1 and isinstance(x.generators[0].target, ast.Tuple) and len(x.generators[0].target.elts) == 2 \
                and isinstance(x.elt, ast.Tuple) and len(x.elt.elts) == 2 and all(isinstance(e, ast.Subscript) for e in x.elt.elts):
            remaps.append(x)
    ctx.require(bool(remaps), "anchor vanished: diff() no longer re-maps caller matchings with `[(<source map>[id(s)], <target map>[id(t)]) for s, t in matchings]`")
    ctx.count("matching_remaps", len(remaps))
    for x in remaps:
        loop_vars = [e.id if isinstance(e, ast.Name) else None for e in x.generators[0].target.elts]
        for i, sub in enumerate(x.elt.elts):
            side = params[i]
            inst = f"{f.key}|{norm(sub, 50)}"
            key_vars = {n.id for n in ast.walk(sub.slice) if isinstance(n, ast.Name)}
            src = sub.value
            if isinstance(src, ast.Name) and len(binds.get(src.id, [])) == 1:
                src = binds[src.id][0]
            if loop_vars[i] is None or loop_vars[i] not in key_vars:
                ctx.fail(f.module, sub, f.key, sub, f"`{norm(sub, 50)}` is the {['source', 'target'][i]} side of a re-mapped matching but is not keyed by the {['first', 'second'][i]} element of the pair")
            elif isinstance(src, ast.Call) and call_name(src) == "compute_node_mappings" and src.args and traverses(src.args[0], side):
                ctx.ok(inst, {"side": side, "mapping": norm(src, 70)})
            else:
                ctx.fail(f.module, sub, f.key, sub, f"`{norm(sub, 50)}` looks the {side} node of a caller-supplied matching up in `{norm(src, 60)}`, which is not the id -> copy table built from the "
                                                    f"{side}'s own nodes alone: a node object that occurs in both inputs (the case that forces the private copies) resolves to the copy of one "
                                                    f"side for both, and the distiller is handed a pair that is not (source node, target node)")


RULES = [rule_ab, rule_c, rule_d, rule_e, rule_f, rule_g, rule_h, rule_i, rule_j]
EXPLANATION = (
    "Partition typestate of the Change Distiller decided structurally: co-location of matching_set.add with both "
    "unmatched-set removals, the both-unmatched proof (membership or snapshot+pop+break), same-type dominance (also "
    "through the candidate heap), exhaustive path enumeration of the edit-script loop body on a hand-built CFG counting "
    "Keep/Update per path, and the hash save/evict pairing plus absence of mutator calls for input preservation."
)
ASSUMPTIONS = [
    "the matching containers are the local `matching_set` variables and self._unmatched_{source,target}_nodes",
    "caller-supplied matchings are trusted to pair nodes of the caller's choosing (outside the property's same-type clause)",
]
