"""C05.i – constant-index access to input-derived lists in the parser and tokenizer.

`xs[0]`, `xs[-1]`, `a, b = xs` on a list that was built from the user's text (token lists, parsed
argument lists, split identifiers) raise IndexError / ValueError when the list is shorter than the
code assumes; nothing in the parser's funnel converts those into ParseError. The rule is a
length-bound dataflow on the hand-built CFG:

  state per receiver  (lo, ex):  len >= lo on every path; ex = exact length if known
  sources of facts    truthiness / `len(xs) <op> k` conditions (both branches), early exits,
                      literal displays, `str.split` (>= 1), append/insert (+1), loops `while xs`
  kills               rebinding, pop/remove/clear/del, and — for attribute receivers such as
                      `self.tokens` — any call that could reach a method of the same object

Receivers are selected by their mypy type (list[...]); tuples of fixed arity and strings are not
in scope. A site the dataflow cannot discharge must be in the reviewed table below (one line of
reason per site) or is reported.
"""

from __future__ import annotations

import ast

from ..cfg import CFG, forward
from ..core import Ctx, Module, call_name, norm, walk_no_nested

SCOPE_EXACT = ("sqlglot.parser", "sqlglot.tokenizer_core", "sqlglot.tokens", "sqlglot.jsonpath")
SCOPE_PREFIX = ("sqlglot.parsers.",)

NONE_LEN = 99
SHRINK = {"pop", "remove", "clear"}
GROW1 = {"append", "insert", "add"}

# (module:qualname, normalised site) -> reason
REVIEWED: dict[tuple[str, str], str] = {
    ("sqlglot.parser:Parser.parse_into", "errors[-1]"):
        "reached only after the loop over expression_types ran without returning, and every such iteration appends; an empty "
        "expression_types is an API-caller configuration (parse_one/parse only call parse_into when `into` is truthy), not input text",
    ("sqlglot.jsonpath:parse.<locals>._parse_literal", "tokens[-1]"):
        "closure over the token list of parse(); reached only after _match(PLACEHOLDER) / _match(L_PAREN) returned a token of that list",
    ("sqlglot.parser:Parser._replace_lambda", "column.parts[0]"):
        "Column.parts lists the node's present name parts and always contains `this`, a required argument of every Column the parser builds",
    ("sqlglot.parsers.redshift:RedshiftParser._parse_projections", "projections[-1]"):
        "guarded by `exclude`, which needs the token EXCLUDE right after the projection list; had the list been empty, EXCLUDE itself "
        "(a valid identifier) would have been parsed as the first projection, so the list is non-empty whenever exclude is",
    ("sqlglot.tokenizer_core:TokenizerCore._add", "self.tokens[-1]"):
        "the statement before it is the recursive self._add(TokenType.STRING, text), which appends a token unconditionally; its only shrinking branch "
        "(self.tokens = self.tokens[:tokens]) is guarded by `token_type in self.commands`, and STRING is not a command token",
    ("sqlglot.tokenizer_core:TokenizerCore._scan_comment", "self.tokens[-1]"):
        "guarded by comment_start_line == self._prev_token_line; _prev_token_line is -1 after reset and only _add (which appends a token) "
        "and this very branch assign it a real line number, so equality implies at least one token",
}


def _is_list_type(ty: str | None) -> bool:
    if not ty:
        return False
    ty = ty.replace("builtins.", "").replace("typing.", "")
    if ty.endswith("?"):
        ty = ty[:-1]
    if " | None" in ty:
        ty = ty.replace(" | None", "")
    return ty.startswith(("list[", "List[", "Sequence[", "MutableSequence[", "deque["))


def _need(sl: ast.AST) -> int | None:
    if isinstance(sl, ast.Constant) and isinstance(sl.value, int) and not isinstance(sl.value, bool):
        return sl.value + 1 if sl.value >= 0 else -sl.value
    if isinstance(sl, ast.UnaryOp) and isinstance(sl.op, ast.USub) and isinstance(sl.operand, ast.Constant) and isinstance(sl.operand.value, int):
        return sl.operand.value
    return None


def _bound_from_cond(e: ast.AST, lab: bool, var: str) -> tuple[int | None, int | None]:
    """(lower bound, exact) on len(var) implied by cond e evaluating to lab."""

    def is_len(x: ast.AST) -> bool:
        return isinstance(x, ast.Call) and call_name(x) == "len" and len(x.args) == 1 and norm(x.args[0]) == var

    if norm(e) == var and isinstance(e, (ast.Name, ast.Attribute)):
        return (1, None) if lab else (None, 0)
    if isinstance(e, ast.NamedExpr) and norm(e.target) == var:
        return (1, None) if lab else (None, 0)
    if is_len(e):
        return (1, None) if lab else (None, 0)
    if isinstance(e, ast.Compare) and len(e.ops) == 1:
        l, op, r = e.left, e.ops[0], e.comparators[0]
        if isinstance(l, ast.Constant) and is_len(r):
            # k <op> len  ==  len <flipped op> k
            flip = {ast.Lt: ast.Gt, ast.LtE: ast.GtE, ast.Gt: ast.Lt, ast.GtE: ast.LtE, ast.Eq: ast.Eq, ast.NotEq: ast.NotEq}
            fo = flip.get(type(op))
            if fo is None:
                return (None, None)
            l, op, r = r, fo(), l
        if is_len(l) and isinstance(r, ast.Constant) and isinstance(r.value, int) and not isinstance(r.value, bool):
            k = r.value
            if isinstance(op, ast.Eq):
                return (k, k) if lab else (None, None)
            if isinstance(op, ast.NotEq):
                return (None, None) if lab else (k, k)
            if isinstance(op, ast.GtE):
                return (k, None) if lab else (None, None)
            if isinstance(op, ast.Gt):
                return (k + 1, None) if lab else (None, None)
            if isinstance(op, ast.Lt):
                return (None, None) if lab else (k, None)
            if isinstance(op, ast.LtE):
                return (None, None) if lab else (k + 1, None)
    return (None, None)


def _refine(lo: int, ex: int | None, atom: ast.AST, lab: bool, var: str, alias: dict[str, str]) -> tuple[int, int | None]:
    """apply the fact `atom evaluates to lab` to the bound (lo, ex) of len(var)"""
    # n = len(var) aliases: rewrite `n <op> k` into `len(var) <op> k`
    if isinstance(atom, ast.Compare) and len(atom.ops) == 1:
        l, r = atom.left, atom.comparators[0]
        if isinstance(l, ast.Attribute) and alias.get(norm(l)) == var:
            l = ast.Name(id=norm(l), ctx=ast.Load())
        if isinstance(l, ast.Name) and alias.get(l.id) == var:
            atom = ast.Compare(left=ast.Call(func=ast.Name(id="len", ctx=ast.Load()), args=[ast.parse(var, mode="eval").body], keywords=[]), ops=atom.ops, comparators=atom.comparators)
        elif isinstance(r, ast.Name) and alias.get(r.id) == var:
            atom = ast.Compare(left=atom.left, ops=atom.ops, comparators=[ast.Call(func=ast.Name(id="len", ctx=ast.Load()), args=[ast.parse(var, mode="eval").body], keywords=[])])
    elif isinstance(atom, ast.Name) and alias.get(atom.id) == var:
        atom = ast.Call(func=ast.Name(id="len", ctx=ast.Load()), args=[ast.parse(var, mode="eval").body], keywords=[])
    l2, e2 = _bound_from_cond(atom, lab, var)
    if l2 is not None:
        lo = max(lo, l2)
    if e2 is not None:
        ex, lo = e2, max(lo, e2)
    # `len(var) == k` is false / `len(var) != k` is true while len >= k is known: len >= k + 1
    if isinstance(atom, ast.Compare) and len(atom.ops) == 1 and isinstance(atom.comparators[0], ast.Constant) and isinstance(atom.comparators[0].value, int):
        lf = atom.left
        if isinstance(lf, ast.Call) and call_name(lf) == "len" and len(lf.args) == 1 and norm(lf.args[0]) == var:
            k = atom.comparators[0].value
            if ((isinstance(atom.ops[0], ast.Eq) and lab is False) or (isinstance(atom.ops[0], ast.NotEq) and lab is True)) and lo == k:
                lo = k + 1
    return lo, ex


def _value_len(v: ast.AST | None) -> tuple[int, int | None]:
    """(lo, ex) for the length of the value of expression v"""
    if v is None:
        return (0, None)
    if isinstance(v, ast.Constant) and v.value is None:
        return (NONE_LEN, None)  # not a list at all: indexing it is not an IndexError question; joins take the other side
    if isinstance(v, (ast.List, ast.Tuple)):
        if any(isinstance(e, ast.Starred) for e in v.elts):
            return (sum(1 for e in v.elts if not isinstance(e, ast.Starred)), None)
        return (len(v.elts), len(v.elts))
    if isinstance(v, ast.Call) and isinstance(v.func, ast.Attribute) and v.func.attr in ("split", "rsplit", "splitlines") and (v.args or v.func.attr == "split" and not v.args and False):
        return (1, None)  # str.split(sep) always yields at least one element
    if isinstance(v, ast.BinOp) and isinstance(v.op, ast.Add):
        a, b = _value_len(v.left), _value_len(v.right)
        return (a[0] + b[0], a[1] + b[1] if a[1] is not None and b[1] is not None else None)
    if isinstance(v, ast.IfExp):
        a, b = _value_len(v.body), _value_len(v.orelse)
        return (min(a[0], b[0]), a[1] if a[1] == b[1] else None)
    if isinstance(v, ast.BoolOp) and isinstance(v.op, ast.Or):
        # `xs or [d]`: the first operand is only the value when truthy (non-empty)
        parts = [_value_len(x) for x in v.values]
        los = [max(1, p[0]) for p in parts[:-1]] + [parts[-1][0]]
        return (min(los), None)
    return (0, None)


def rule_i(ctx: Ctx) -> None:
    from ..typed import types

    ctx.rule(
        "C05.i",
        "constant-index access (xs[k], xs[-k], tuple unpack) to list-typed locals / attributes in the parser and tokenizer is dominated by a "
        "length fact implying it (truthiness or len() guard, literal display, str.split, append) — otherwise the input that makes the list "
        "shorter leaks IndexError / ValueError instead of a ParseError / TokenError",
    )
    T = types(ctx.repo)
    n_sites = n_untyped = 0
    mods = [m for nme, m in ctx.repo.modules.items() if nme in SCOPE_EXACT or nme.startswith(SCOPE_PREFIX)]
    for m in mods:
        units: list[tuple[str, ast.AST]] = [(f.key, f.node) for f in m.funcs.values()]
        for where, node in units:
            sites: list[tuple[ast.AST, str, int, bool]] = []
            for x in walk_no_nested(node, include_lambda=True):
                if isinstance(x, ast.Subscript) and isinstance(x.ctx, ast.Load) and isinstance(x.value, (ast.Name, ast.Attribute)):
                    need = _need(x.slice)
                    if need is None:
                        continue
                    ty = T.of(m, x.value)
                    if ty is None or ty.startswith("Any"):
                        # no static type (value of an unannotated call): a constant-indexed *local* is treated as a list
                        if not isinstance(x.value, ast.Name):
                            n_untyped += 1
                            continue
                    elif not _is_list_type(ty):
                        continue
                    if isinstance(x.value, ast.Attribute) and not all(isinstance(p, (ast.Name, ast.Attribute)) for p in ast.walk(x.value) if not isinstance(p, ast.expr_context)):
                        continue
                    sites.append((x, norm(x.value), need, False))
                elif isinstance(x, ast.Assign) and isinstance(x.value, ast.Name) and len(x.targets) == 1 and isinstance(x.targets[0], (ast.Tuple, ast.List)) \
                        and not any(isinstance(e, ast.Starred) for e in x.targets[0].elts) and _is_list_type(T.of(m, x.value)):
                    sites.append((x, x.value.id, len(x.targets[0].elts), True))
            if not sites:
                continue
            g = CFG(node)
            # n = len(xs) aliases (n assigned exactly once in the function)
            alias: dict[str, str] = {}
            assigned: dict[str, int] = {}
            for st in walk_no_nested(node):
                if isinstance(st, ast.Assign):
                    for tg in st.targets:
                        if isinstance(tg, ast.Name):
                            assigned[tg.id] = assigned.get(tg.id, 0) + 1
                            if isinstance(st.value, ast.Call) and call_name(st.value) == "len" and len(st.value.args) == 1:
                                alias[tg.id] = norm(st.value.args[0])
            alias = {k: v for k, v in alias.items() if assigned.get(k) == 1}
            alias.update(_field_aliases(m))
            params = [a_.arg for a_ in node.args.posonlyargs + node.args.args + node.args.kwonlyargs] if isinstance(node, (ast.FunctionDef, ast.AsyncFunctionDef)) else []
            for var in sorted({s[1] for s in sites}):
                is_attr = "." in var
                root = var.split(".")[0]

                def tr(nd, lab, s, var=var, is_attr=is_attr, root=root):
                    lo, ex = s
                    a = nd.ast
                    if a is None:
                        return s
                    if nd.kind == "cond":
                        if isinstance(a, ast.NamedExpr) and norm(a.target) == var:
                            lo, ex = _value_len(a.value)
                        elif is_attr and any(isinstance(c, ast.Call) and _may_touch(c, root) for c in ast.walk(a)):
                            lo, ex = 0, None
                        if lab in (True, False):
                            lo, ex = _refine(lo, ex, a, lab, var, alias)
                        return (lo, ex)
                    if nd.kind == "for":
                        tgt = a.target
                        if any(norm(t_) == var for t_ in ast.walk(tgt) if isinstance(t_, (ast.Name, ast.Attribute))):
                            return (0, None)
                        return s
                    if nd.kind in ("stmt", "with"):
                        if isinstance(a, (ast.FunctionDef, ast.AsyncFunctionDef, ast.ClassDef)):
                            return s
                        # rebinding
                        if isinstance(a, ast.Assign):
                            for tg in a.targets:
                                if norm(tg) == var:
                                    return _value_len(a.value)
                                if isinstance(tg, (ast.Tuple, ast.List)) and any(norm(e) == var for e in tg.elts):
                                    return (0, None)
                                if isinstance(tg, ast.Subscript) and norm(tg.value) == var and isinstance(tg.slice, ast.Slice):
                                    return (0, None)
                                if is_attr and norm(tg) == root:
                                    return (0, None)
                        if isinstance(a, ast.AnnAssign) and norm(a.target) == var:
                            return _value_len(a.value)
                        if isinstance(a, ast.AugAssign) and norm(a.target) == var:
                            return (lo, None) if isinstance(a.op, ast.Add) else (0, None)
                        if isinstance(a, ast.Delete) and any(norm(getattr(tg, "value", tg)) == var for tg in a.targets):
                            return (0, None)
                        for c in ast.walk(a):
                            if isinstance(c, ast.NamedExpr) and norm(c.target) == var:
                                lo, ex = _value_len(c.value)
                            if not isinstance(c, ast.Call):
                                continue
                            if isinstance(c.func, ast.Attribute) and norm(c.func.value) == var:
                                if c.func.attr in SHRINK:
                                    lo, ex = max(0, lo - 1), (max(0, ex - 1) if ex is not None and c.func.attr != "clear" else None)
                                    if c.func.attr == "clear":
                                        lo, ex = 0, 0
                                elif c.func.attr in GROW1:
                                    lo, ex = lo + 1, (ex + 1 if ex is not None else None)
                                elif c.func.attr == "extend":
                                    ex = None
                                elif c.func.attr in ("sort", "reverse", "index", "count", "copy"):
                                    pass
                                else:
                                    pass
                            elif is_attr and _may_touch(c, root):
                                lo, ex = 0, None
                            elif not is_attr and any(isinstance(arg, ast.Name) and arg.id == var for arg in c.args) and (call_name(c) or "") not in PURE_CALLS:
                                # the list escapes into a callee that may shrink it — unless every resolved definition leaves that parameter alone
                                if (call_name(c) or "").split(".")[-1] not in NON_MUTATING and not _callee_keeps(ctx, m, node, c, var):
                                    lo, ex = 0, None
                        return (lo, ex)
                    return s

                def meet(p, q):
                    return (min(p[0], q[0]), p[1] if p[1] == q[1] else None)

                init = (0, None)
                if var in params and isinstance(node, ast.FunctionDef):
                    init = _param_bound(ctx, m, node, params.index(var), var)
                IN = forward(g, init, tr, meet)
                for x, v, need, exact in sites:
                    if v != var:
                        continue
                    n_sites += 1
                    nodes = g.nodes_for(x)
                    lo, ex = (0, None)
                    vals = [IN[q] for q in nodes if IN.get(q) is not None]
                    if vals:
                        lo = min(v_[0] for v_ in vals)
                        ex = vals[0][1] if all(v_[1] == vals[0][1] for v_ in vals) else None
                    # refinement inside the statement: ternaries, and-chains, comprehension conditions
                    cur = x
                    p = m.parent(cur)
                    while p is not None and p is not node:
                        conds: list[tuple[ast.AST, bool]] = []
                        if isinstance(p, ast.IfExp) and (cur is p.body or cur is p.orelse):
                            conds.append((p.test, cur is p.body))
                        if isinstance(p, ast.BoolOp) and cur in p.values:
                            for prev in p.values[: p.values.index(cur)]:
                                conds.append((prev, isinstance(p.op, ast.And)))
                        for ce, lb in conds:
                            for atom, alab in _atoms(ce, lb):
                                lo, ex = _refine(lo, ex, atom, alab, var, alias)
                        if isinstance(p, ast.stmt):
                            break
                        cur, p = p, m.parent(p)
                    site_txt = norm(x, 70)
                    inst = f"{where}|{site_txt}|{_ordinal(node, x)}"
                    ok = (ex == need) if exact else (lo >= need)
                    if ok:
                        ctx.ok(inst, {"site": site_txt, "in": where, "needs_len": (f"== {need}" if exact else f">= {need}"), "proved": f"len >= {lo}" + (f" (== {ex})" if ex is not None else "")})
                    elif (where, site_txt) in REVIEWED:
                        ctx.ok(inst, {"site": site_txt, "in": where, "reviewed": REVIEWED[(where, site_txt)]})
                    else:
                        ctx.fail(m, x, where, site_txt,
                                 f"`{site_txt}` needs len({var}) {'==' if exact else '>='} {need} but only len >= {lo} is established on some path to it: "
                                 f"input that makes the list shorter leaks {'ValueError' if exact else 'IndexError'} instead of a sqlglot error")
    ctx.count("index_sites", n_sites)
    ctx.count("receivers_without_static_type_(skipped)", n_untyped)
    ctx.min_instances("index_sites", n_sites, 40)


PURE_CALLS = {"len", "isinstance", "list", "tuple", "set", "sorted", "reversed", "enumerate", "zip", "any", "all", "sum", "min", "max", "seq_get", "print", "str", "repr", "iter", "next", "map", "filter"}
NON_MUTATING = {"expression", "join", "format", "validate_expression", "from_arg_list", "raise_error", "Tuple", "Array", "Struct", "Dot", "build", "and_", "or_", "Coalesce", "Anonymous", "ParseError", "concat_messages", "merge_errors"}


def _may_touch(c: ast.Call, root: str) -> bool:
    """a call that can reach methods of the object `root` (and so may change its attributes)"""
    cn = call_name(c) or ""
    if cn.split(".")[0] == root and cn.count(".") == 1:
        return True  # root.method(...)
    return any(isinstance(a, ast.Name) and a.id == root for a in c.args)


def _atoms(e: ast.AST, lab: bool) -> list[tuple[ast.AST, bool]]:
    """atomic conditions known to hold when e evaluates to lab"""
    if isinstance(e, ast.UnaryOp) and isinstance(e.op, ast.Not):
        return _atoms(e.operand, not lab)
    if isinstance(e, ast.BoolOp):
        if isinstance(e.op, ast.And) and lab:
            return [a for v in e.values for a in _atoms(v, True)]
        if isinstance(e.op, ast.Or) and not lab:
            return [a for v in e.values for a in _atoms(v, False)]
        return []
    return [(e, lab)]


def _ordinal(fn: ast.AST, x: ast.AST) -> str:
    txt = norm(x, 70)
    k = 0
    for y in ast.walk(fn):
        if y is x:
            return f"#{k}"
        if type(y) is type(x) and norm(y, 70) == txt:
            k += 1
    return "#?"


def _defs_named(ctx: Ctx, name: str) -> list[tuple[Module, ast.FunctionDef]]:
    cache = ctx.__dict__.setdefault("_c05i_defs", None)
    if cache is None:
        cache = {}
        for mm in ctx.repo.modules.values():
            if mm.name in SCOPE_EXACT or mm.name.startswith(SCOPE_PREFIX):
                for f in mm.funcs.values():
                    cache.setdefault(f.name, []).append((mm, f.node))
        ctx.__dict__["_c05i_defs"] = cache
    return cache.get(name, [])


def _callee_keeps(ctx: Ctx, m: Module, fn: ast.AST, c: ast.Call, var: str) -> bool:
    """every definition the call can resolve to leaves the parameter receiving `var` unmutated"""
    from ..effects import mutated_params

    cn = call_name(c) or ""
    name = cn.split(".")[-1]
    defs: list[ast.FunctionDef] = []
    is_method = False
    if cn.startswith("self.") and cn.count(".") == 1:
        defs = [d for _mm, d in _defs_named(ctx, name) if d.args.args and d.args.args[0].arg == "self"]
        is_method = True
    elif "." not in cn and cn:
        local = [d for d in ast.walk(fn) if isinstance(d, ast.FunctionDef) and d.name == cn and d is not fn]
        if local:
            defs = local
        else:
            r = ctx.repo.resolve_name(m, cn)
            if r and r[1] in r[0].funcs:
                defs = [r[0].funcs[r[1]].node]
    if not defs:
        return False
    for d in defs:
        ps = [a.arg for a in d.args.posonlyargs + d.args.args]
        if is_method:
            ps = ps[1:]
        mut = mutated_params(d)
        for i, arg in enumerate(c.args):
            if isinstance(arg, ast.Name) and arg.id == var:
                if i >= len(ps) or ps[i] in mut:
                    return False
        for kw in c.keywords:
            if isinstance(kw.value, ast.Name) and kw.value.id == var and (kw.arg is None or kw.arg in mut):
                return False
    return True


def _param_bound(ctx: Ctx, m: Module, fn: ast.FunctionDef, pos: int, var: str) -> tuple[int, int | None]:
    """length facts for a list parameter, from every call site `self.<name>(...)` in the scope modules (one level)"""
    if not fn.args.args or fn.args.args[0].arg != "self":
        return (0, None)
    name = fn.name
    out: tuple[int, int | None] | None = None
    n_calls = 0
    for mm in ctx.repo.modules.values():
        if not (mm.name in SCOPE_EXACT or mm.name.startswith(SCOPE_PREFIX)):
            continue
        for c in mm.of_type(ast.Call):
            cn = call_name(c) or ""
            is_super = isinstance(c.func, ast.Attribute) and c.func.attr == name and isinstance(c.func.value, ast.Call) and call_name(c.func.value) == "super"
            if cn != f"self.{name}" and not is_super:
                continue
            caller = mm.enclosing_func(c)
            if caller is None:
                return (0, None)  # referenced from a class-level table: unknown argument
            if is_super and caller.name == name:
                continue  # an override forwarding its own parameter: covered by that override's callers
            n_calls += 1
            idx = pos - 1
            arg = c.args[idx] if idx < len(c.args) else next((kw.value for kw in c.keywords if kw.arg == var), None)
            if not isinstance(arg, ast.Name):
                return (0, None)
            g2 = CFG(caller.node)
            av = arg.id
            al: dict[str, str] = {}

            def tr2(nd, lab, s, av=av):
                lo, ex = s
                a = nd.ast
                if a is None:
                    return s
                if nd.kind == "cond" and lab in (True, False):
                    return _refine(lo, ex, a, lab, av, al)
                if nd.kind in ("stmt", "with") and isinstance(a, ast.Assign) and any(norm(tg) == av for tg in a.targets):
                    return _value_len(a.value)
                if nd.kind in ("stmt", "with") and any(isinstance(x, ast.Call) and isinstance(x.func, ast.Attribute) and norm(x.func.value) == av and x.func.attr in SHRINK | {"extend"} for x in ast.walk(a)):
                    return (0, None)
                return s

            IN2 = forward(g2, (0, None), tr2, lambda p, q: (min(p[0], q[0]), p[1] if p[1] == q[1] else None))
            vals = [IN2[q] for q in g2.nodes_for(c) if IN2.get(q) is not None]
            if not vals:
                return (0, None)
            lo, ex = min(v[0] for v in vals), (vals[0][1] if all(v[1] == vals[0][1] for v in vals) else None)
            # and-chain / ternary guards inside the calling statement
            cur: ast.AST = c
            p = mm.parent(cur)
            while p is not None and not isinstance(p, ast.stmt):
                if isinstance(p, ast.IfExp) and (cur is p.body or cur is p.orelse):
                    for atom, alab in _atoms(p.test, cur is p.body):
                        lo, ex = _refine(lo, ex, atom, alab, av, al)
                if isinstance(p, ast.BoolOp) and cur in p.values:
                    for prev in p.values[: p.values.index(cur)]:
                        for atom, alab in _atoms(prev, isinstance(p.op, ast.And)):
                            lo, ex = _refine(lo, ex, atom, alab, av, al)
                cur, p = p, mm.parent(p)
            out = (lo, ex) if out is None else (min(out[0], lo), out[1] if out[1] == ex else None)
    if out is None or n_calls == 0:
        return (0, None)
    return out


def _field_aliases(m: Module) -> dict[str, str]:
    """`self.F` -> `self.G` when every assignment to self.F in the module is `[wrapper](len(self.G))` or the constant 0
    (a size field kept next to its list, e.g. Parser._tokens_size / Parser._tokens)"""
    cache = m.__dict__.setdefault("_c05i_field_alias", None) if hasattr(m, "__dict__") else None
    if cache is not None:
        return cache
    cand: dict[str, set[str]] = {}
    bad: set[str] = set()
    for st in m.of_type(ast.Assign, ast.AnnAssign, ast.AugAssign):
        tgs = st.targets if isinstance(st, ast.Assign) else [st.target]
        for tg in tgs:
            if not (isinstance(tg, ast.Attribute) and isinstance(tg.value, ast.Name) and tg.value.id == "self"):
                continue
            key = norm(tg)
            v = getattr(st, "value", None)
            if isinstance(st, ast.AugAssign):
                bad.add(key)
                continue
            if isinstance(v, ast.Constant) and v.value == 0 and not isinstance(v.value, bool):
                cand.setdefault(key, set())
                continue
            inner = v
            if isinstance(inner, ast.Call) and len(inner.args) == 1 and not inner.keywords and call_name(inner) != "len":
                inner = inner.args[0]
            if isinstance(inner, ast.Call) and call_name(inner) == "len" and len(inner.args) == 1 and norm(inner.args[0]).startswith("self."):
                cand.setdefault(key, set()).add(norm(inner.args[0]))
            else:
                bad.add(key)
    out = {k: next(iter(v)) for k, v in cand.items() if k not in bad and len(v) == 1}
    try:
        m.__dict__["_c05i_field_alias"] = out
    except Exception:  # noqa: BLE001
        pass
    return out


# ------------------------------------------------------------------------------------------ C05.j
# Forward cursor moves stay inside the token list. Parser._advance(k) reads tokens[index + k - 1]
# unconditionally; that is in range iff index + k - 1 < size, i.e. for k = 1 iff the current token
# is a real token (not the end sentinel), for k = 2 iff the next token is real as well. A second
# unguarded advance at end of input raises IndexError (`SHOW GLOBAL` in MySQL did).

CURSOR_MOVERS = ("_parse", "_advance", "_retreat", "_try_parse", "_match")

# (module:qualname, normalised call) -> reason
REVIEWED_ADVANCE: dict[tuple[str, str], str] = {
    ("sqlglot.parser:Parser._parse_heredoc", "self._advance(len(tags))"):
        "dominated by self._match_text_seq(*tags, advance=False) on the same list: len(tags) real tokens follow the cursor",
    ("sqlglot.parsers.postgres:PostgresParser._parse_function_parameter", "self._advance()"):
        "guarded by param_mode, which _parse_parameter_mode returns only after peeking a mode keyword at the cursor "
        "(_match_set(ARG_MODE_TOKENS, advance=False)) and restoring the index (its look-ahead runs under _try_parse / explicit _retreat)",
}


def _moves(c: ast.Call) -> bool:
    cn = call_name(c) or ""
    if isinstance(c.func, ast.Attribute) and isinstance(c.func.value, ast.Call) and call_name(c.func.value) == "super":
        cn = "self." + c.func.attr
    if isinstance(c.func, ast.Subscript) or (isinstance(c.func, ast.Name) and any(isinstance(a, ast.Name) and a.id == "self" for a in c.args)):
        return True  # table dispatch: parser(self)
    if not cn.startswith("self."):
        return False
    name = cn[5:]
    if not name.startswith(CURSOR_MOVERS):
        return False
    if name.startswith("_match"):
        adv = next((kw.value for kw in c.keywords if kw.arg == "advance"), None)
        pos_adv = {"_match": 1, "_match_set": 1, "_match_texts": 1, "_match_pair": 2}.get(name)
        if pos_adv is not None and len(c.args) > pos_adv:
            adv = c.args[pos_adv]
        if isinstance(adv, ast.Constant) and adv.value is False:
            return False
    return True


def _peek_facts(e: ast.AST, lab: bool, aliases: frozenset) -> set[str]:
    """facts ("curr" / "next") implied by atomic condition e evaluating to lab"""
    out: set[str] = set()
    al = dict(aliases)

    def subject(x: ast.AST) -> str | None:
        t_ = norm(x)
        if t_.startswith("self._next"):
            return "next"
        if t_.startswith("self._curr"):
            return "curr"
        if isinstance(x, ast.Name) and x.id in al:
            return al[x.id]
        if isinstance(x, ast.Attribute) and isinstance(x.value, ast.Name) and x.value.id in al and al[x.value.id].endswith("_tok"):
            return al[x.value.id][:-4]
        if isinstance(x, ast.Call) and isinstance(x.func, ast.Attribute) and x.func.attr in ("upper", "lower"):
            return subject(x.func.value)
        return None

    if isinstance(e, (ast.Attribute, ast.Name)):
        s = subject(e)
        if s and lab is True and (norm(e) in ("self._curr", "self._next") or (isinstance(e, ast.Name) and al.get(e.id, "").endswith("_tok"))):
            out.add(s.replace("_tok", ""))
    elif isinstance(e, ast.Compare) and len(e.ops) == 1:
        s = subject(e.left)
        op = e.ops[0]
        if s and not s.endswith("_tok"):
            rhs = e.comparators[0]
            rhs_none = isinstance(rhs, ast.Constant) and rhs.value is None
            if not rhs_none and ((isinstance(op, (ast.Eq, ast.In)) and lab is True) or (isinstance(op, (ast.NotEq, ast.NotIn)) and lab is False)):
                out.add(s)
    elif isinstance(e, ast.NamedExpr):
        return _peek_facts(e.value, lab, aliases)
    elif isinstance(e, ast.Call) and isinstance(e.func, ast.Attribute) and e.func.attr == "get" and norm(e.func.value).startswith("self.") and len(e.args) == 1:
        # self.TABLE.get(<current token's type / text>) is truthy only for a key of the table, i.e. a real token
        s = subject(e.args[0])
        if s and not s.endswith("_tok") and lab is True:
            out.add(s)
    elif isinstance(e, ast.Call):
        cn = call_name(e) or ""
        if cn == "self._is_connected" and lab is True:
            out.add("curr")  # _is_connected() = bool(prev and curr and ...)
        if cn.startswith("self._match") and not _moves(e) and lab is True:
            out.add("curr")
            if cn == "self._match_pair":
                out.add("next")
            if cn == "self._match_text_seq" and len(e.args) >= 2:
                out.add("next")
    if "next" in out:
        out.add("curr")
    return out


def rule_j(ctx: Ctx) -> None:
    ctx.rule(
        "C05.j",
        "forward cursor moves stay inside the token list: every self._advance() / _advance(2) in the parser classes is dominated, with no cursor move "
        "in between, by evidence that the current (and for 2 the next) token is a real token — a truthiness test of self._curr/_next, a successful "
        "peek (_match*(advance=False)), or an equality / membership test of the current token's type or text",
    )
    repo = ctx.repo
    base = repo.cls("sqlglot.parser", "Parser")
    classes = [base] + repo.subclasses(base)
    n = 0
    for c in classes:
        m = c.module
        for name, md in c.methods().items():
            where = f"{c.key}.{name}"
            if name in ("_advance", "_retreat", "_advance_chunk"):
                continue
            sites = []
            for x in walk_no_nested(md, include_lambda=False):
                if isinstance(x, ast.Call) and call_name(x) == "self._advance":
                    k = 1
                    if x.args:
                        a = x.args[0]
                        if isinstance(a, ast.Constant) and isinstance(a.value, int):
                            k = a.value
                        elif isinstance(a, ast.UnaryOp) and isinstance(a.op, ast.USub):
                            continue
                        else:
                            k = None
                    if k is not None and k <= 0:
                        continue
                    sites.append((x, k))
            if not sites:
                continue
            g = CFG(md)

            def tr(nd, lab, s):
                facts, al = s
                a = nd.ast
                if a is None:
                    return s
                if nd.kind == "cond":
                    moved = any(isinstance(x, ast.Call) and _moves(x) for x in ast.walk(a))
                    if moved and lab is not False:
                        # a consuming match that succeeded (or an unknown outcome) moved the cursor
                        if isinstance(a, ast.Call) and (call_name(a) or "").startswith("self._match") and lab is False:
                            return s
                        return (frozenset(), frozenset())
                    if moved and lab is False and not (isinstance(a, ast.Call) and (call_name(a) or "").startswith("self._match")):
                        return (frozenset(), frozenset())
                    new = set(facts)
                    if lab in (True, False):
                        new |= _peek_facts(a, lab, al)
                    if isinstance(a, ast.NamedExpr) and isinstance(a.target, ast.Name):
                        al = frozenset((k_, v_) for k_, v_ in al if k_ != a.target.id)
                    return (frozenset(new), al)
                if nd.kind == "for":
                    return s
                if nd.kind in ("stmt", "with"):
                    if isinstance(a, (ast.FunctionDef, ast.AsyncFunctionDef, ast.ClassDef)):
                        return s
                    if any(isinstance(x, ast.Call) and _moves(x) for x in walk_no_nested(a, include_lambda=False)) or (isinstance(a, ast.Call) and _moves(a)):
                        return (frozenset(), frozenset())
                    if isinstance(a, ast.Assign) and len(a.targets) == 1 and isinstance(a.targets[0], ast.Name):
                        nm = a.targets[0].id
                        al2 = {k_: v_ for k_, v_ in al if k_ != nm}
                        v = norm(a.value)
                        if v == "self._curr":
                            al2[nm] = "curr_tok"
                        elif v == "self._next":
                            al2[nm] = "next_tok"
                        elif v.startswith("self._curr.token_type") or v.startswith("self._curr.text"):
                            al2[nm] = "curr"
                        elif v.startswith("self._next.token_type") or v.startswith("self._next.text"):
                            al2[nm] = "next"
                        elif isinstance(a.value, ast.Attribute) and isinstance(a.value.value, ast.Name) and dict(al).get(a.value.value.id, "").endswith("_tok") and a.value.attr in ("token_type", "text"):
                            al2[nm] = dict(al)[a.value.value.id][:-4]  # tt = token.token_type with token = self._curr
                        elif isinstance(a.value, ast.Call) and isinstance(a.value.func, ast.Attribute) and a.value.func.attr == "get" and norm(a.value.func.value).startswith("self.") \
                                and len(a.value.args) == 1 and isinstance(a.value.args[0], ast.Name) and dict(al).get(a.value.args[0].id) in ("curr", "next"):
                            # x = self.TABLE.get(<alias of the current token's type / text>): x truthy => that token is real
                            al2[nm] = dict(al)[a.value.args[0].id] + "_tok"
                        return (facts, frozenset(al2.items()))
                    return s
                return s

            def meet(p, q):
                return (p[0] & q[0], p[1] & q[1])

            IN = forward(g, (frozenset(), frozenset()), tr, meet)
            for x, k in sites:
                n += 1
                txt = norm(x)
                inst = f"{where}|{txt}|{_ordinal(md, x)}"
                nodes = g.nodes_for(x)
                vals = [IN[q] for q in nodes if IN.get(q) is not None]
                facts = frozenset.intersection(*[v[0] for v in vals]) if vals else frozenset()
                als = frozenset.intersection(*[v[1] for v in vals]) if vals else frozenset()
                # guards inside the same statement: and-chains / ternaries
                cur: ast.AST = x
                p = m.parent(cur)
                extra: set[str] = set()
                clean = True
                while p is not None and not isinstance(p, ast.stmt):
                    conds: list[tuple[ast.AST, bool]] = []
                    if isinstance(p, ast.IfExp) and (cur is p.body or cur is p.orelse):
                        conds.append((p.test, cur is p.body))
                    if isinstance(p, ast.BoolOp) and cur in p.values:
                        for prev in p.values[: p.values.index(cur)]:
                            conds.append((prev, isinstance(p.op, ast.And)))
                    for ce, lb in conds:
                        if any(isinstance(y, ast.Call) and _moves(y) for y in ast.walk(ce)):
                            clean = False
                            extra = set()
                        for atom, alab in _atoms(ce, lb):
                            extra |= _peek_facts(atom, alab, als)
                    cur, p = p, m.parent(p)
                have = set(facts) | extra if clean else extra
                need = {"curr"} if k == 1 else {"curr", "next"} if k == 2 else None
                if need is not None and need <= have:
                    ctx.ok(inst, {"move": txt, "in": where, "evidence": sorted(have)})
                elif (where, txt) in REVIEWED_ADVANCE:
                    ctx.ok(inst, {"move": txt, "in": where, "reviewed": REVIEWED_ADVANCE[(where, txt)]})
                else:
                    ctx.fail(m, x, where, txt,
                             f"`{txt}` is reached on some path without evidence that the {'current' if k == 1 else 'current and next'} token exists "
                             f"(no truthiness / peek / type test of self._curr since the last cursor move): at end of input the move runs past the "
                             f"token list and _advance leaks IndexError")
    ctx.count("forward_advance_sites", n)
    ctx.min_instances("forward_advance_sites", n, 25)


# ------------------------------------------------------------------------------------------ C05.k
# Text-to-number conversions. int(x) / int(x, base) / float(x) / Decimal(x) raise ValueError
# (InvalidOperation) on text that is not a number; nothing converts that into a sqlglot error.

CONVERTERS = {"int", "float", "Decimal"}
K_SCOPE_EXACT = ("sqlglot.parser", "sqlglot.tokenizer_core", "sqlglot.tokens", "sqlglot.jsonpath", "sqlglot.generator", "sqlglot.dialects.dialect", "sqlglot.transforms", "sqlglot.time")
K_SCOPE_PREFIX = ("sqlglot.parsers.", "sqlglot.generators.", "sqlglot.dialects.")
VALIDATORS = {"is_int", "is_float", "isdigit", "isdecimal", "isnumeric"}

# (module:qualname, normalised call) -> reason
REVIEWED_CONVERSIONS: dict[tuple[str, str], str] = {
    ("sqlglot.dialects.dialect:Dialect.__init__", "int(p)"):
        "parses the `version` setting supplied by the API caller when a Dialect is configured, not SQL text",
    ("sqlglot.generators.singlestore:_unicode_substitute", "int(m.group(1), 16)"):
        "the argument is group 1 of the regular expression the substitution runs with (hex digits only by construction of the pattern)",
}


def _handlers_catch(t_: ast.Try, names: tuple[str, ...]) -> bool:
    for h in t_.handlers:
        if h.type is None:
            return True
        for x in ast.walk(h.type):
            nm = x.attr if isinstance(x, ast.Attribute) else x.id if isinstance(x, ast.Name) else None
            if nm in names:
                return True
    return False


def _atom_validates(x_: ast.AST, arg: ast.AST) -> bool:
    """the atomic condition x_ being true implies that the text `arg` converts"""
    a = norm(arg)
    base = norm(arg.value) if isinstance(arg, ast.Attribute) and arg.attr in ("this", "name") else None
    if isinstance(arg, ast.Call) and isinstance(arg.func, ast.Attribute) and arg.func.attr == "to_py" and not arg.args:
        base = norm(arg.func.value)  # int(X.to_py()): X.is_number / is_int(X.name) make the value numeric text or a number
    for x in ast.walk(x_):
        if isinstance(x, ast.Call):
            cn = (call_name(x) or "").split(".")[-1]
            if cn in VALIDATORS and ((x.args and norm(x.args[0]) == a) or (isinstance(x.func, ast.Attribute) and norm(x.func.value) == a)):
                return True
            if cn in VALIDATORS and base is not None and x.args and norm(x.args[0]) in (f"{base}.name", f"{base}.this"):
                return True
            # all(... v.is_int for v in (a, b, c)) validates a.this / a.name for each listed name
            if cn == "all" and x.args and isinstance(x.args[0], ast.GeneratorExp) and base is not None:
                ge = x.args[0]
                if any(isinstance(y, ast.Attribute) and y.attr in ("is_int", "is_number") for y in ast.walk(ge.elt)):
                    it = ge.generators[0].iter
                    if isinstance(it, (ast.Tuple, ast.List)) and any(norm(e) == base for e in it.elts):
                        return True
        if isinstance(x, ast.Attribute) and x.attr == "is_int" and base is not None and norm(x.value) == base:
            return True
        if isinstance(x, ast.Attribute) and x.attr == "is_number" and base is not None and norm(x.value) == base and isinstance(arg, ast.Call):
            return True  # a number literal's to_py() is an int / Decimal
    return False


def _validates(test: ast.AST, lab: bool, arg: ast.AST, known_false: set[str] | None = None) -> bool:
    """`test` evaluating to `lab` implies that the text `arg` converts. A true disjunction validates when every disjunct that is
    not already known to be false does."""
    known_false = known_false or set()
    if isinstance(test, ast.UnaryOp) and isinstance(test.op, ast.Not):
        return _validates(test.operand, not lab, arg, known_false)
    if isinstance(test, ast.BoolOp):
        if isinstance(test.op, ast.And) and lab:
            return any(_validates(v, True, arg, known_false) for v in test.values)
        if isinstance(test.op, ast.Or) and lab:
            live = [v for v in test.values if norm(v) not in known_false]
            return bool(live) and all(_validates(v, True, arg, known_false) for v in live)
        if isinstance(test.op, ast.Or) and not lab:
            return False
        return False
    return lab and _atom_validates(test, arg)


def rule_k(ctx: Ctx) -> None:
    ctx.rule(
        "C05.k",
        "text-to-number conversions: every int()/float()/Decimal() of a non-constant value in the tokenizer, parser, generator and dialect modules runs under a "
        "try that catches ValueError (InvalidOperation), or under a guard that validates the same text (is_int/isdigit/.is_int) — otherwise input text that is "
        "not a number leaks ValueError instead of a sqlglot error",
    )
    from ..typed import types

    T = types(ctx.repo)
    n = 0
    for m in ctx.repo.modules.values():
        if not (m.name in K_SCOPE_EXACT or m.name.startswith(K_SCOPE_PREFIX)):
            continue
        for c in m.of_type(ast.Call):
            cn = call_name(c) or ""
            if cn not in CONVERTERS or not c.args or isinstance(c.args[0], ast.Constant):
                continue
            arg = c.args[0]
            # numeric-typed arguments (int(x / y), float(count)) cannot raise ValueError: only text can
            if isinstance(arg, (ast.BinOp, ast.UnaryOp)) or (isinstance(arg, ast.Call) and (call_name(arg) or "") in ("len", "round", "abs", "min", "max", "math.log10", "math.ceil", "math.floor")):
                continue
            ty_ = (T.of(m, arg) or "").replace("builtins.", "")
            if ty_ in ("int", "float", "bool", "decimal.Decimal", "Decimal") or ty_.startswith("Literal[") and not ty_.startswith("Literal['"):
                continue  # statically numeric
            f = m.enclosing_func(c)
            where = f.key if f else f"{m.name}:<module/class body>"
            n += 1
            txt = norm(c, 70)
            inst = f"{where}|{txt}|{_ordinal(f.node, c) if f else ''}"
            catch = ("ValueError", "Exception", "BaseException", "InvalidOperation", "ArithmeticError") if cn == "Decimal" else ("ValueError", "Exception", "BaseException")
            ok, why = False, ""
            known_false: set[str] = set()
            cur = c
            p = m.parent(cur)
            while p is not None and (f is None or p is not f.node):
                if isinstance(p, ast.IfExp) and cur is p.orelse:
                    known_false.add(norm(p.test))
                if isinstance(p, ast.If) and any(cur is s_ for s_ in p.orelse):
                    known_false.add(norm(p.test))
                if isinstance(p, (ast.FunctionDef, ast.AsyncFunctionDef, ast.Lambda)):
                    break
                cur, p = p, m.parent(p)
            cur = c
            p = m.parent(cur)
            while p is not None and (f is None or p is not f.node):
                if isinstance(p, ast.Try) and any(cur is s_ or any(cur is y for y in ast.walk(s_)) for s_ in p.body) and _handlers_catch(p, catch):
                    ok, why = True, "inside try/except " + "/".join(sorted({norm(h.type) if h.type is not None else "<bare>" for h in p.handlers}))
                    break
                if isinstance(p, ast.If) and any(cur is s_ for s_ in p.body) and _validates(p.test, True, arg, known_false):
                    ok, why = True, f"guarded by `{norm(p.test, 50)}`"
                    break
                if isinstance(p, ast.If) and any(cur is s_ for s_ in p.orelse) and _validates(p.test, False, arg, known_false):
                    ok, why = True, f"guarded by the negation of `{norm(p.test, 50)}`"
                    break
                if isinstance(p, ast.IfExp) and ((cur is p.body and _validates(p.test, True, arg, known_false)) or (cur is p.orelse and _validates(p.test, False, arg, known_false))):
                    ok, why = True, f"guarded by `{norm(p.test, 50)}`"
                    break
                if isinstance(p, ast.BoolOp) and isinstance(p.op, ast.And) and cur in p.values and any(_validates(v, True, arg, known_false) for v in p.values[: p.values.index(cur)]):
                    ok, why = True, "guarded earlier in the same and-chain"
                    break
                if isinstance(p, (ast.FunctionDef, ast.AsyncFunctionDef, ast.Lambda)):
                    break
                cur, p = p, m.parent(p)
            if ok:
                ctx.ok(inst, {"conversion": txt, "in": where, "protected": why})
            elif (where, txt) in REVIEWED_CONVERSIONS:
                ctx.ok(inst, {"conversion": txt, "in": where, "reviewed": REVIEWED_CONVERSIONS[(where, txt)]})
            else:
                ctx.fail(m, c, where, txt,
                         f"`{txt}` converts text that comes from the SQL being processed without a try/except ValueError or a validating guard on the same value: "
                         f"a non-numeric text leaks ValueError instead of a sqlglot error")
    ctx.count("conversion_sites", n)
    ctx.min_instances("conversion_sites", n, 8)


# ------------------------------------------------------------------------------------------ C05.l
# Regular expressions assembled from text of the SQL being processed.

RE_FUNCS = {"compile", "sub", "subn", "match", "search", "fullmatch", "split", "findall", "finditer"}


def _unescaped_pattern_parts(pat: ast.AST) -> list[ast.AST]:
    """non-constant pieces interpolated into a pattern without re.escape"""
    out: list[ast.AST] = []
    if isinstance(pat, ast.JoinedStr):
        for v in pat.values:
            if isinstance(v, ast.FormattedValue):
                e = v.value
                if isinstance(e, ast.Call) and call_name(e) in ("re.escape", "escape"):
                    continue
                if isinstance(e, ast.Constant):
                    continue
                out.append(e)
    elif isinstance(pat, ast.BinOp) and isinstance(pat.op, (ast.Add, ast.Mod)):
        for side in (pat.left, pat.right):
            if isinstance(side, ast.Constant):
                continue
            if isinstance(side, ast.Call) and call_name(side) in ("re.escape", "escape"):
                continue
            if isinstance(side, (ast.JoinedStr, ast.BinOp)):
                out.extend(_unescaped_pattern_parts(side))
            else:
                out.append(side)
    return out


def rule_l(ctx: Ctx) -> None:
    ctx.rule(
        "C05.l",
        "regular expressions built at run time escape what they interpolate: in every re.<function>(pattern, ...) of the tokenizer, parser, generator and dialect "
        "modules whose pattern is an f-string / concatenation, each non-constant piece is wrapped in re.escape(...) or is a module-/class-level constant — "
        "otherwise text of the SQL being processed can make the pattern invalid (re.error leaks) or match something else",
    )
    probe = ast.parse('import re\np = re.compile(rf"{esc.name}(\\d+)")\n')
    pc = [c for c in ast.walk(probe) if isinstance(c, ast.Call) and call_name(c) == "re.compile"]
    ctx.require(len(pc) == 1 and len(_unescaped_pattern_parts(pc[0].args[0])) == 1, "internal: C05.l matcher no longer recognises its positive control")
    n = n_dyn = 0
    for m in ctx.repo.modules.values():
        if not (m.name in K_SCOPE_EXACT or m.name.startswith(K_SCOPE_PREFIX) or m.name in ("sqlglot.helper", "sqlglot.expressions.core")):
            continue
        consts = {t_.id for st in m.tree.body if isinstance(st, (ast.Assign, ast.AnnAssign)) for t_ in (st.targets if isinstance(st, ast.Assign) else [st.target]) if isinstance(t_, ast.Name)}
        for c in m.of_type(ast.Call):
            cn = call_name(c) or ""
            if not (cn.startswith("re.") and cn[3:] in RE_FUNCS and c.args):
                continue
            n += 1
            parts = [p for p in _unescaped_pattern_parts(c.args[0]) if not (isinstance(p, ast.Name) and (p.id in consts or p.id.isupper()))
                     and not (isinstance(p, ast.Attribute) and p.attr.isupper())]
            if not isinstance(c.args[0], (ast.JoinedStr, ast.BinOp)):
                continue
            n_dyn += 1
            f = m.enclosing_func(c)
            where = f.key if f else f"{m.name}:<module/class body>"
            inst = f"{where}|{norm(c, 80)}"
            if not parts:
                ctx.ok(inst, {"pattern": norm(c.args[0], 60), "in": where, "interpolated": "constants / re.escape only"})
            else:
                ctx.fail(m, c, where, norm(c, 80),
                         f"the pattern interpolates `{norm(parts[0], 40)}` without re.escape: text taken from the SQL being processed is read as regular-expression syntax "
                         f"(re.error leaks for an unbalanced metacharacter, and metacharacters match unintended text)")
    ctx.count("re_calls_scanned", n)
    ctx.count("patterns_built_at_run_time", n_dyn)
    ctx.min_instances("re_calls_scanned", n, 10)


# ------------------------------------------------------------------------------------------ C05.m
# Cursor-relative subscripts of the token list: tokens[i], tokens[self._index + k], tokens[self._index - k].

TOKEN_LISTS = {"tokens", "self._tokens", "raw_tokens", "self.tokens"}
SIZE_NAMES = {"size", "self._tokens_size", "self.size"}

# (module:qualname, normalised subscript) -> reason
REVIEWED_TOKEN_INDEX: dict[tuple[str, str], str] = {
    ("sqlglot.jsonpath:parse.<locals>._prev", "tokens[i - 1]"):
        "_prev() is only called by _advance() right after `i += 1` and by callers that have just matched a token, so 1 <= i <= size",
    ("sqlglot.jsonpath:parse", "tokens[i]"):
        "else-branch of the match chain inside `while _curr():` — every preceding _match* failed, so i is unchanged since _curr() returned a token type (i < size)",
    ("sqlglot.parser:Parser._advance", "tokens[index - 1]"):
        "guarded by index > 0; the upper bound index - 1 < size is the obligation of every caller, decided by rule C05.j",
    ("sqlglot.parser:Parser._parse_hint_fallback_to_string", "self._tokens[self._index - 1]"):
        "reached after `while self._curr: self._advance()`; a hint token list is never empty (the tokenizer only emits HINT with text), and a negative index wraps instead of raising",
}


def _bound_guard(test: ast.AST, lab: bool, idx: str, recv: str) -> bool:
    """`test` evaluating to lab implies idx < len(recv)"""
    for atom, alab in _atoms(test, lab):
        if not (isinstance(atom, ast.Compare) and len(atom.ops) == 1):
            continue
        l, op, r = norm(atom.left), atom.ops[0], norm(atom.comparators[0])
        sizes = SIZE_NAMES | {f"len({recv})"}
        if l == idx and r in sizes and ((isinstance(op, ast.Lt) and alab) or (isinstance(op, ast.GtE) and not alab)):
            return True
        if r == idx and l in sizes and ((isinstance(op, ast.Gt) and alab) or (isinstance(op, ast.LtE) and not alab)):
            return True
    return False


def rule_m(ctx: Ctx) -> None:
    from . import c05_loops

    ctx.rule(
        "C05.m",
        "cursor-relative subscripts of the token list: tokens[<i + k>] is guarded by `<i + k> < size` (same expression) on the path to it; "
        "tokens[<cursor> - k] is reached only after >= k tokens were consumed in the same method or under an explicit lower-bound test",
    )
    model = c05_loops._model(ctx)
    n = 0
    for m in ctx.repo.modules.values():
        if not (m.name in SCOPE_EXACT or m.name.startswith(SCOPE_PREFIX)):
            continue
        for s_ in m.of_type(ast.Subscript):
            if not isinstance(s_.ctx, ast.Load) or norm(s_.value) not in TOKEN_LISTS or isinstance(s_.slice, ast.Slice) or _need(s_.slice) is not None:
                continue
            f = m.enclosing_func(s_)
            if f is None:
                continue
            n += 1
            where, txt, idx, recv = f.key, norm(s_, 70), norm(s_.slice), norm(s_.value)
            inst = f"{where}|{txt}|{_ordinal(f.node, s_)}"
            ok, why = False, ""
            back = isinstance(s_.slice, ast.BinOp) and isinstance(s_.slice.op, ast.Sub) and isinstance(s_.slice.right, ast.Constant) and isinstance(s_.slice.right.value, int)
            # guards on the path: enclosing If / IfExp / and-chain
            cur: ast.AST = s_
            p = m.parent(cur)
            while p is not None and p is not f.node:
                conds: list[tuple[ast.AST, bool]] = []
                if isinstance(p, ast.IfExp) and (cur is p.body or cur is p.orelse):
                    conds.append((p.test, cur is p.body))
                if isinstance(p, ast.If) and (any(cur is x for x in p.body) or any(cur is x for x in p.orelse)):
                    conds.append((p.test, any(cur is x for x in p.body)))
                if isinstance(p, ast.BoolOp) and cur in p.values:
                    for prev in p.values[: p.values.index(cur)]:
                        conds.append((prev, isinstance(p.op, ast.And)))
                for ce, lb in conds:
                    if not back and _bound_guard(ce, lb, idx, recv):
                        ok, why = True, f"guarded by `{norm(ce, 50)}`"
                    if back:
                        k = s_.slice.right.value
                        base = norm(s_.slice.left)
                        for atom, alab in _atoms(ce, lb):
                            if isinstance(atom, ast.Compare) and len(atom.ops) == 1 and norm(atom.left) == base and isinstance(atom.comparators[0], ast.Constant):
                                c0 = atom.comparators[0].value
                                if (isinstance(atom.ops[0], ast.GtE) and alab and c0 >= k) or (isinstance(atom.ops[0], ast.Gt) and alab and c0 >= k - 1) or (isinstance(atom.ops[0], ast.Lt) and not alab and c0 >= k):
                                    ok, why = True, f"guarded by `{norm(atom, 40)}`"
                if ok or isinstance(p, (ast.FunctionDef, ast.Lambda)):
                    break
                cur, p = p, m.parent(p)
            if not ok and not back:
                # early-exit guard earlier in the same block: `if <idx> >= size: raise/return/continue/break`
                st = m.enclosing_stmt(s_)
                blk = m.parent(st) if st is not None else None
                while st is not None and blk is not None and not ok:
                    for fld in ("body", "orelse", "finalbody"):
                        seq = getattr(blk, fld, None)
                        if isinstance(seq, list) and st in seq:
                            for prev_st in seq[: seq.index(st)]:
                                if isinstance(prev_st, ast.If) and prev_st.body and isinstance(prev_st.body[-1], (ast.Raise, ast.Return, ast.Continue, ast.Break)) and not prev_st.orelse:
                                    # falling through means the test was false
                                    if _bound_guard(prev_st.test, False, idx, recv):
                                        between = seq[seq.index(prev_st) + 1: seq.index(st)]
                                        if not any(isinstance(x, ast.Name) and x.id == idx and isinstance(x.ctx, ast.Store) for b_ in between for x in ast.walk(b_)):
                                            ok, why = True, f"after the early exit `if {norm(prev_st.test, 40)}`"
                    if isinstance(blk, (ast.FunctionDef, ast.AsyncFunctionDef)):
                        break
                    st, blk = blk, m.parent(blk)
            if not ok and isinstance(s_.slice, ast.Name):
                # alias of <cursor> - k with an explicit lower-bound test on the path (`0 if v < 0 else tokens[v]`)
                defs = [a_.value for a_ in walk_no_nested(f.node) if isinstance(a_, ast.Assign) and len(a_.targets) == 1 and norm(a_.targets[0]) == idx]
                if defs and all(isinstance(d_, ast.BinOp) and isinstance(d_.op, ast.Sub) and isinstance(d_.right, ast.Constant) and norm(d_.left) in ("i", "self._index") for d_ in defs):
                    cur2: ast.AST = s_
                    p2 = m.parent(cur2)
                    while p2 is not None and p2 is not f.node and not ok:
                        if isinstance(p2, ast.IfExp) and cur2 is p2.orelse:
                            for atom, alab in _atoms(p2.test, False):
                                if isinstance(atom, ast.Compare) and norm(atom.left) == idx and isinstance(atom.ops[0], ast.Lt) and not alab and norm(atom.comparators[0]) == "0":
                                    ok, why = True, f"alias of the cursor minus a constant, lower bound tested by `{norm(p2.test, 30)}`"
                        cur2, p2 = p2, m.parent(p2)
            if not ok and back and norm(s_.slice.left) == "self._index" and f.cls is not None:
                g = model.cfg(f.node)
                IN, _ = model.flow(g, g.entry, {})
                have = min((IN[x][0] for x in g.nodes_for(s_) if x in IN), default=0)
                if have >= min(2, s_.slice.right.value):
                    ok, why = True, f">= {have} tokens consumed on every path from the method entry"
            if ok:
                ctx.ok(inst, {"site": txt, "in": where, "protected": why})
            elif (where, txt) in REVIEWED_TOKEN_INDEX:
                ctx.ok(inst, {"site": txt, "in": where, "reviewed": REVIEWED_TOKEN_INDEX[(where, txt)]})
            else:
                ctx.fail(m, s_, where, txt,
                         f"`{txt}` indexes the token list at a cursor-relative position without a bound check on the path to it: at the end (or start) of the input "
                         f"the index is out of range and IndexError leaks")
    ctx.count("cursor_relative_subscripts", n)
    ctx.min_instances("cursor_relative_subscripts", n, 12)


# ------------------------------------------------------------------------------------------ C05.n
# Work bound of the generator: a handler that renders the same child twice does 2^depth work on a chain of that node.

REVIEWED_DOUBLE_RENDER: dict[tuple[str, str], str] = {
    ("sqlglot.generators.hive:HiveGenerator.altercolumn_sql", "self.sql(expression, 'comment')"):
        "the comment of ALTER COLUMN is a literal and cannot contain another AlterColumn: the repeated rendering costs a factor 2, not 2^depth",
}


def _exclusive(m: Module, a: ast.AST, b: ast.AST, stop: ast.AST) -> bool:
    """a and b lie in different arms of one if / conditional expression (they never both run)"""
    def arms(x: ast.AST) -> dict[int, str]:
        out: dict[int, str] = {}
        cur, p = x, m.parent(x)
        while p is not None and cur is not stop:
            if isinstance(p, ast.IfExp):
                if cur is p.body:
                    out[id(p)] = "body"
                elif cur is p.orelse:
                    out[id(p)] = "orelse"
            elif isinstance(p, ast.If):
                if any(cur is s_ for s_ in p.body):
                    out[id(p)] = "body"
                elif any(cur is s_ for s_ in p.orelse):
                    out[id(p)] = "orelse"
            cur, p = p, m.parent(p)
        return out

    aa, bb = arms(a), arms(b)
    if any(k in bb and bb[k] != v for k, v in aa.items()):
        return True
    # two conditionals on the same plain name (`x if fetch else y`, `y if fetch else x`): opposite arms never both run
    def by_test(x: ast.AST) -> dict[str, str]:
        out: dict[str, str] = {}
        cur, p = x, m.parent(x)
        while p is not None and cur is not stop:
            if isinstance(p, ast.IfExp) and isinstance(p.test, ast.Name):
                out[p.test.id] = "body" if cur is p.body else "orelse" if cur is p.orelse else out.get(p.test.id, "")
            cur, p = p, m.parent(p)
        return out
    ta, tb = by_test(a), by_test(b)
    return any(k in tb and tb[k] and v and tb[k] != v for k, v in ta.items())


def rule_n(ctx: Ctx) -> None:
    ctx.rule(
        "C05.n",
        "generator work bound: no handler renders the same child of its node twice on one execution (two identical self.sql(expression, <key>) calls that are "
        "not in exclusive branches) — on a chain of such nodes the second rendering doubles the work at every level (2^depth calls for `- - - ... 1`)",
    )
    repo = ctx.repo
    g0 = repo.cls("sqlglot.generator", "Generator")
    n = n_methods = 0
    for c in [g0] + repo.subclasses(g0):
        m = c.module
        for name, md in c.methods().items():
            calls: dict[str, list[ast.Call]] = {}
            for x in walk_no_nested(md, include_lambda=False):
                if isinstance(x, ast.Call) and call_name(x) == "self.sql" and x.args and isinstance(x.args[0], ast.Name) and md.args.args[1:] and x.args[0].id == md.args.args[1].arg \
                        and all(isinstance(a_, ast.Constant) for a_ in x.args[1:]) and not x.keywords:
                    # comprehension bodies run per element of a *different* collection: not the same child twice
                    p_ = m.parent(x)
                    in_comp = False
                    while p_ is not None and p_ is not md:
                        if isinstance(p_, (ast.ListComp, ast.GeneratorExp, ast.SetComp, ast.DictComp)):
                            in_comp = True
                        p_ = m.parent(p_)
                    if not in_comp:
                        calls.setdefault(norm(x), []).append(x)
            if calls:
                n_methods += 1
            for txt, sites in calls.items():
                if len(sites) < 2:
                    continue
                pair = next(((a, b) for i, a in enumerate(sites) for b in sites[i + 1:] if not _exclusive(m, a, b, md)), None)
                if pair is None:
                    continue
                n += 1
                where = f"{c.key}.{name}"
                inst = f"{where}|{txt}"
                if (where, txt) in REVIEWED_DOUBLE_RENDER:
                    ctx.ok(inst, {"handler": where, "child": txt, "reviewed": REVIEWED_DOUBLE_RENDER[(where, txt)]})
                else:
                    ctx.fail(m, pair[1], where, txt,
                             f"`{txt}` is evaluated twice on one execution of {name} (lines {pair[0].lineno} and {pair[1].lineno}): each level of a nested chain of this node "
                             f"renders its child twice, so generation work grows as 2^depth although the output is unchanged")
    ctx.ok("generator|no unreviewed double rendering", {"handlers_rendering_children": n_methods, "double_render_candidates": n})
    ctx.count("handlers_rendering_children", n_methods)
    ctx.min_instances("handlers_rendering_children", n_methods, 300)


# ------------------------------------------------------------------------------------------ C05.o
# _advance_chunk() indexes self._chunks[self._chunk_index] unconditionally.

def rule_o(ctx: Ctx) -> None:
    ctx.rule(
        "C05.o",
        "chunk cursor stays inside the chunk list: every self._advance_chunk() is reached only on paths on which `self._chunk_index < <number of chunks>` was "
        "established since the previous chunk move (a branch that merely *reports* the end with raise_error and then falls through does not establish it)",
    )
    repo = ctx.repo
    base = repo.cls("sqlglot.parser", "Parser")
    n = 0
    for c in [base] + repo.subclasses(base):
        m = c.module
        for name, md in c.methods().items():
            if name == "_advance_chunk":
                continue
            sites = [x for x in walk_no_nested(md, include_lambda=False) if isinstance(x, ast.Call) and call_name(x) == "self._advance_chunk"]
            if not sites:
                continue
            g = CFG(md)
            aliases = {st.targets[0].id for st in walk_no_nested(md) if isinstance(st, ast.Assign) and len(st.targets) == 1 and isinstance(st.targets[0], ast.Name)
                       and norm(st.value) in ("len(self._chunks)",)}

            def is_size(e: ast.AST) -> bool:
                return norm(e) == "len(self._chunks)" or (isinstance(e, ast.Name) and e.id in aliases)

            def tr(nd, lab, s):
                a = nd.ast
                if a is None:
                    return s
                if nd.kind == "cond" and isinstance(a, ast.Compare) and len(a.ops) == 1 and lab in (True, False):
                    l, op, r = a.left, a.ops[0], a.comparators[0]
                    if norm(l) == "self._chunk_index" and is_size(r):
                        if (isinstance(op, ast.Lt) and lab) or (isinstance(op, ast.GtE) and not lab):
                            return True
                        if (isinstance(op, ast.Lt) and not lab) or (isinstance(op, ast.GtE) and lab):
                            return False
                if nd.kind in ("stmt", "with") and any(isinstance(x, ast.Call) and call_name(x) == "self._advance_chunk" for x in walk_no_nested(a)):
                    return False
                return s

            IN = forward(g, False, tr, lambda p, q: p and q)
            for x in sites:
                n += 1
                where = f"{c.key}.{name}"
                nodes = g.nodes_for(x)
                ok = bool(nodes) and all(IN.get(q) is True for q in nodes)
                if ok:
                    ctx.ok(f"{where}|self._advance_chunk()|{_ordinal(md, x)}", {"in": where, "guard": "self._chunk_index < number of chunks on every path"})
                else:
                    ctx.fail(m, x, where, "self._advance_chunk()",
                             "reached on a path on which no `self._chunk_index < len(self._chunks)` test succeeded since the last chunk move: after the last chunk "
                             "self._chunks[self._chunk_index] raises IndexError (a raise_error() that returns under a lenient error level does not end the path)")
    ctx.count("advance_chunk_sites", n)
    ctx.min_instances("advance_chunk_sites", n, 2)


# ------------------------------------------------------------------------------------------ C05.p
# Enum members looked up by a name computed from the input: Enum[...] raises KeyError for a non-member.

def rule_p(ctx: Ctx) -> None:
    ctx.rule(
        "C05.p",
        "enum lookups by computed name are guarded: every <Enum>[<non-constant>] in the tokenizer / parser / generator modules is dominated by a membership test of the "
        "same key (`in <Enum>.__members__`, hasattr) or runs under try/except KeyError — a type token without a DataType counterpart otherwise leaks KeyError",
    )
    repo = ctx.repo
    enums = {c.name for c in repo.all_classes() if any(x.name in ("Enum", "AutoName", "IntEnum", "StrEnum") or b.split(".")[-1] in ("Enum", "AutoName", "IntEnum", "StrEnum") for x in repo.mro(c) for b in (x.bases or [""]))}
    probe = ast.parse("x = exp.DType[tok.name]\n")
    ctx.require("DType" in enums, "anchor vanished: DType is no longer recognised as an Enum class")
    n = 0
    for m in repo.modules.values():
        if not (m.name in K_SCOPE_EXACT or m.name.startswith(K_SCOPE_PREFIX)):
            continue
        for s_ in m.of_type(ast.Subscript):
            if not isinstance(s_.ctx, ast.Load) or isinstance(s_.slice, (ast.Constant, ast.Slice)):
                continue
            d = norm(s_.value)
            if d.split(".")[-1] not in enums or not d.split(".")[-1][:1].isupper():
                continue
            n += 1
            f = m.enclosing_func(s_)
            where = f.key if f else m.name
            key = norm(s_.slice)
            ok, why = False, ""
            cur: ast.AST = s_
            p = m.parent(cur)
            while p is not None and (f is None or p is not f.node):
                if isinstance(p, ast.Try) and any(cur is x or any(cur is y for y in ast.walk(x)) for x in p.body) and _handlers_catch(p, ("KeyError", "LookupError", "Exception")):
                    ok, why = True, "inside try/except KeyError"
                    break
                cur, p = p, m.parent(p)
            if not ok and f is not None:
                # early exit earlier in an enclosing block: `if <key> not in <Enum>.__members__: ...; return/raise`
                st = m.enclosing_stmt(s_)
                blk = m.parent(st) if st is not None else None
                while st is not None and blk is not None and not ok:
                    for fld in ("body", "orelse"):
                        seq = getattr(blk, fld, None)
                        if isinstance(seq, list) and st in seq:
                            for prev_st in seq[: seq.index(st)]:
                                if isinstance(prev_st, ast.If) and prev_st.body and isinstance(prev_st.body[-1], (ast.Return, ast.Raise, ast.Continue, ast.Break)):
                                    t_ = norm(prev_st.test, 200)
                                    if key in t_ and "not in" in t_ and ("__members__" in t_ or d.split(".")[-1] in t_):
                                        ok, why = True, f"after the early exit `if {norm(prev_st.test, 50)}`"
                    if isinstance(blk, (ast.FunctionDef, ast.AsyncFunctionDef)):
                        break
                    st, blk = blk, m.parent(blk)
            inst = f"{where}|{norm(s_, 60)}"
            if ok:
                ctx.ok(inst, {"lookup": norm(s_, 60), "in": where, "protected": why})
            else:
                ctx.fail(m, s_, where, s_, f"`{norm(s_, 60)}` looks an enum member up by a name computed from the input without a membership test or a KeyError handler: "
                                           f"a name that is not a member (e.g. the type token NULLABLE with two arguments) leaks KeyError")
    ctx.count("enum_lookups_by_computed_name", n)
    ctx.min_instances("enum_lookups_by_computed_name", n, 1)


def rule_q(ctx: Ctx) -> None:
    ctx.rule(
        "C05.q",
        "table-dispatched parser callables are called with keyword arguments they accept: a call `self.<TABLE>[key](self, kw=...)` (or of a local bound from the table, or with **kwargs) "
        "either runs under try/except TypeError, or every entry of <TABLE> in every parser class accepts that keyword (named parameter or **kwargs) — otherwise the keyword that "
        "selects the entry comes from the input and a non-accepting entry leaks TypeError",
    )
    repo = ctx.repo
    # table name -> list of (module, entry key, callable node)
    tables: dict[str, list[tuple[Module, str, ast.AST]]] = {}
    for m in repo.modules.values():
        if not (m.name == "sqlglot.parser" or m.name.startswith("sqlglot.parsers.")):
            continue
        for cls in m.of_type(ast.ClassDef):
            for st in cls.body:
                tg = st.targets[0] if isinstance(st, ast.Assign) and len(st.targets) == 1 else st.target if isinstance(st, ast.AnnAssign) else None
                val = getattr(st, "value", None)
                if isinstance(tg, ast.Name) and tg.id.isupper() and isinstance(val, ast.Dict):
                    for k, v in zip(val.keys, val.values):
                        if k is not None:
                            tables.setdefault(tg.id, []).append((m, norm(k, 40), v))

    def accepts(fn: ast.AST, kw: str) -> bool | None:
        if isinstance(fn, ast.Lambda):
            a = fn.args
        else:
            return None  # a name / attribute: not decided here
        return a.kwarg is not None or kw in {x.arg for x in a.args + a.kwonlyargs}

    n = 0
    for m in repo.modules.values():
        if not (m.name == "sqlglot.parser" or m.name.startswith("sqlglot.parsers.")):
            continue
        for f in m.funcs.values():
            local_tbl: dict[str, str] = {}
            for _round in range(3):
                for st in walk_no_nested(f.node):
                    if not (isinstance(st, ast.Assign) and len(st.targets) == 1 and isinstance(st.targets[0], ast.Name)):
                        continue
                    v = st.value
                    # t.cast(T, x) / x or y keep the callable
                    if isinstance(v, ast.Call) and (call_name(v) or "").split(".")[-1] == "cast" and len(v.args) == 2:
                        v = v.args[1]
                    src = None
                    if isinstance(v, ast.Subscript) and isinstance(v.value, ast.Attribute) and v.value.attr.isupper() and norm(v.value.value) == "self":
                        src = v.value.attr
                    elif isinstance(v, ast.Call) and isinstance(v.func, ast.Attribute) and v.func.attr == "get" and isinstance(v.func.value, ast.Attribute) \
                            and v.func.value.attr.isupper() and norm(v.func.value.value) == "self":
                        src = v.func.value.attr
                    elif isinstance(v, ast.Call) and isinstance(v.func, ast.Attribute) and v.func.attr == "get" and isinstance(v.func.value, ast.Name) and v.func.value.id in local_tbl:
                        src = local_tbl[v.func.value.id]
                    elif isinstance(v, ast.Name) and v.id in local_tbl:
                        src = local_tbl[v.id]
                    elif isinstance(v, ast.Attribute) and v.attr.isupper() and norm(v.value) == "self":
                        src = v.attr  # an alias of the table itself (functions = self.FUNCTIONS)
                    if src:
                        local_tbl[st.targets[0].id] = src
            for c in walk_no_nested(f.node):
                if not isinstance(c, ast.Call) or not c.keywords:
                    continue
                tbl = None
                if isinstance(c.func, ast.Subscript) and isinstance(c.func.value, ast.Attribute) and c.func.value.attr.isupper() and norm(c.func.value.value) == "self":
                    tbl = c.func.value.attr
                elif isinstance(c.func, ast.Name) and c.func.id in local_tbl:
                    tbl = local_tbl[c.func.id]
                if tbl is None or tbl not in tables:
                    continue
                n += 1
                where = f.key
                inst = f"{where}|{norm(c, 80)}"
                cur: ast.AST = c
                p_ = m.parent(cur)
                guarded = False
                while p_ is not None and p_ is not f.node:
                    if isinstance(p_, ast.Try) and any(cur is x for x in p_.body) and _handlers_catch(p_, ("TypeError", "Exception")):
                        guarded = True
                        break
                    cur, p_ = p_, m.parent(p_)
                if guarded:
                    ctx.ok(inst, {"call": norm(c, 80), "in": where, "protected": "inside try/except TypeError"})
                    continue
                kws = [k.arg for k in c.keywords]
                bad = None
                for kw in kws:
                    for tm, key, fn in tables[tbl]:
                        a = accepts(fn, kw) if kw is not None else (accepts(fn, "\0") if isinstance(fn, ast.Lambda) else None)
                        if a is False:
                            bad = (kw, tm, key, fn)
                            break
                    if bad:
                        break
                if bad is None:
                    ctx.ok(inst, {"call": norm(c, 80), "in": where, "every_entry_accepts": kws})
                else:
                    kw, tm, key, fn = bad
                    ctx.fail(m, c, where, c, f"`{norm(c, 80)}` passes {'**kwargs' if kw is None else kw + '='} to whichever entry of {tbl} the input selects, outside any try/except TypeError, "
                                             f"but e.g. the entry {key} ({tm.name}:{getattr(fn, 'lineno', 0)}) does not accept it: that input leaks TypeError instead of a ParseError")
    ctx.count("keyword_dispatch_sites", n)
    ctx.min_instances("keyword_dispatch_sites", n, 3)


LITERAL_TESTS = ("is_number", "is_int", "is_string")
REVIEWED_TO_PY: dict[tuple[str, str], str] = {
    ("sqlglot.generators.fabric:FabricGenerator.attimezone_sql", "precision_param.this.to_py()"):
        "precision_param is found in the DataType that _cap_data_type_precision has just built, whose only parameter is exp.Literal.number(<int>)",
}


def _assertions_on_parse_results(tree: ast.AST) -> list[ast.Call]:
    return [c for c in ast.walk(tree) if isinstance(c, ast.Call) and isinstance(c.func, ast.Attribute) and c.func.attr == "assert_is"]


def rule_r(ctx: Ctx) -> None:
    ctx.rule(
        "C05.r",
        "conversions and assertions on parsed nodes are guarded: in the parser modules and in generator-time code (generators, dialect helpers, transforms) every `<node>.to_py()` runs under a literal test of the same node (enclosing test, `not <test> or ...`, or an earlier `if not <test>: ...; return`) "
        "(<node>.is_number / .is_int / .is_string / isinstance(<node>, exp.Literal), also as `all(isinstance(a, exp.Literal) for a in args)` for elements of args) or under "
        "try/except ValueError, and no `<node>.assert_is(<class>)` is applied to a node whose class depends on the input — to_py raises ValueError and assert_is AssertionError, "
        "neither belongs to the library's error family",
    )
    repo = ctx.repo
    ctx.require(len(_assertions_on_parse_results(ast.parse("q = self._parse_paren().assert_is(exp.Subquery)\n"))) == 1, "positive control failed: assert_is call not recognised")
    n = 0
    for m in repo.modules.values():
        parser_side = m.name == "sqlglot.parser" or m.name.startswith("sqlglot.parsers.")
        generator_side = m.name == "sqlglot.generator" or m.name.startswith("sqlglot.generators.") or m.name in ("sqlglot.dialects.dialect", "sqlglot.transforms")
        if not (parser_side or generator_side):
            continue
        for c in (_assertions_on_parse_results(m.tree) if parser_side else []):
            n += 1
            f = m.enclosing_func(c)
            where = f.key if f else m.name
            ctx.fail(m, c, where, c, f"`{norm(c, 70)}` asserts the class of a node built from the input: a different class leaks AssertionError instead of a ParseError")
        for c in m.of_type(ast.Call):
            if not (isinstance(c.func, ast.Attribute) and c.func.attr == "to_py" and not c.args):
                continue
            n += 1
            f = m.enclosing_func(c)
            where = f.key if f else m.name
            recv = norm(c.func.value)
            ok, why = False, ""
            # the receiver may be a local bound from args[k] / seq_get(args, k)
            from_args = None
            if f is not None and isinstance(c.func.value, ast.Name):
                for st in walk_no_nested(f.node):
                    if isinstance(st, ast.Assign) and len(st.targets) == 1 and norm(st.targets[0]) == recv:
                        v = st.value
                        if isinstance(v, ast.Subscript) and isinstance(v.value, ast.Name):
                            from_args = v.value.id
                        elif isinstance(v, ast.Call) and (call_name(v) or "").split(".")[-1] == "seq_get" and v.args and isinstance(v.args[0], ast.Name):
                            from_args = v.args[0].id
            cur: ast.AST = c
            p_ = m.parent(cur)
            while p_ is not None and (f is None or cur is not f.node) and not ok:
                if isinstance(p_, ast.Try) and any(cur is x for x in p_.body) and _handlers_catch(p_, ("ValueError", "Exception")):
                    ok, why = True, "inside try/except ValueError"
                tests: list[ast.AST] = []
                if isinstance(p_, ast.If) and cur in p_.body:
                    tests.append(p_.test)
                elif isinstance(p_, ast.IfExp) and cur is p_.body:
                    tests.append(p_.test)
                elif isinstance(p_, ast.BoolOp) and isinstance(p_.op, ast.And) and cur in p_.values:
                    tests.extend(p_.values[: p_.values.index(cur)])
                elif isinstance(p_, ast.BoolOp) and isinstance(p_.op, ast.Or) and cur in p_.values:
                    # `not X.is_int or X.to_py() > 1`: the conversion runs only when the negated test is false
                    tests.extend(v.operand for v in p_.values[: p_.values.index(cur)] if isinstance(v, ast.UnaryOp) and isinstance(v.op, ast.Not))
                # an earlier sibling `if <not literal>: ...; return` dominates the conversion
                for fld in ("body", "orelse", "finalbody"):
                    seq = getattr(p_, fld, None)
                    if isinstance(seq, list) and cur in seq:
                        for prev_st in seq[: seq.index(cur)]:
                            if isinstance(prev_st, ast.If) and prev_st.body and isinstance(prev_st.body[-1], (ast.Return, ast.Raise, ast.Continue, ast.Break)):
                                t0 = prev_st.test
                                negs = [t0] if not (isinstance(t0, ast.BoolOp) and isinstance(t0.op, ast.Or)) else list(t0.values)
                                for ng in negs:
                                    if isinstance(ng, ast.UnaryOp) and isinstance(ng.op, ast.Not):
                                        tests.append(ng.operand)
                for t_ in tests:
                    txt = norm(t_, 400)
                    if any(f"{recv}.{k}" in txt for k in LITERAL_TESTS) or f"isinstance({recv}, exp.Literal)" in txt:
                        ok, why = True, f"under `{norm(t_, 60)}`"
                    elif from_args and "all(" in txt and "isinstance(" in txt and "exp.Literal) for " in txt and f" in {from_args})" in txt:
                        ok, why = True, f"under `{norm(t_, 60)}` (every element of {from_args} is a literal)"
                cur, p_ = p_, m.parent(p_)
            inst = f"{where}|{norm(c, 60)}"
            if ok:
                ctx.ok(inst, {"conversion": norm(c, 60), "in": where, "protected": why})
            elif (where, norm(c, 60)) in REVIEWED_TO_PY:
                ctx.ok(inst, {"conversion": norm(c, 60), "in": where, "reviewed": REVIEWED_TO_PY[(where, norm(c, 60))]})
            else:
                ctx.fail(m, c, where, c, f"`{norm(c, 60)}` converts a parsed node without a literal test of `{recv}` or a ValueError handler: for a column, a parameter or a malformed number "
                                         f"the conversion leaks ValueError instead of a ParseError")
    ctx.count("conversions_and_assertions", n)
    ctx.min_instances("conversions_and_assertions", n, 5)


def _stepped_overruns(tree: ast.AST) -> list[tuple[ast.For, ast.Subscript, int, int]]:
    """`for i in range(a, len(X) - c, step)` (step >= 2) with a subscript X[i + k], k > c: the last round may index past the end."""
    out = []
    for lp in ast.walk(tree):
        if not (isinstance(lp, ast.For) and isinstance(lp.target, ast.Name) and isinstance(lp.iter, ast.Call) and norm(lp.iter.func) == "range" and len(lp.iter.args) == 3):
            continue
        _a, stop, step = lp.iter.args
        if not (isinstance(step, ast.Constant) and isinstance(step.value, int) and step.value >= 2):
            continue
        c_ = 0
        ln = stop
        if isinstance(stop, ast.BinOp) and isinstance(stop.op, ast.Sub) and isinstance(stop.right, ast.Constant) and isinstance(stop.right.value, int):
            ln, c_ = stop.left, stop.right.value
        if not (isinstance(ln, ast.Call) and norm(ln.func) == "len" and len(ln.args) == 1):
            continue
        coll = norm(ln.args[0])
        i = lp.target.id
        for b in lp.body:
            for sub in ast.walk(b):
                if isinstance(sub, ast.Subscript) and norm(sub.value) == coll and isinstance(sub.slice, ast.BinOp) and isinstance(sub.slice.op, ast.Add) \
                        and isinstance(sub.slice.left, ast.Name) and sub.slice.left.id == i and isinstance(sub.slice.right, ast.Constant) and isinstance(sub.slice.right.value, int):
                    k = sub.slice.right.value
                    if k > c_:
                        out.append((lp, sub, k, c_))
    return out


def rule_s(ctx: Ctx) -> None:
    ctx.rule(
        "C05.s",
        "stepped walks over argument lists stay inside the list: in `for i in range(a, len(xs) - c, step)` with step >= 2, every subscript xs[i + k] has k <= c (hive's MAP builder "
        "stops at len(args) - 1); with a larger k the last round indexes past the end when the length is not a multiple of the step — an argument count chosen by the input — "
        "and leaks IndexError",
    )
    ctx.require(len(_stepped_overruns(ast.parse("for i in range(0, len(args), 2):\n    v = args[i + 1]\n"))) == 1, "positive control failed: stepped overrun not recognised")
    ctx.require(len(_stepped_overruns(ast.parse("for i in range(0, len(args) - 1, 2):\n    v = args[i + 1]\n"))) == 0, "negative control failed: bounded stepped walk reported")
    n = 0
    for m in ctx.repo.modules.values():
        if m.name.startswith(("sqlglot.executor", "sqlglot.planner")):
            continue
        for lp in m.of_type(ast.For):
            if isinstance(lp.iter, ast.Call) and norm(lp.iter.func) == "range" and len(lp.iter.args) == 3 and isinstance(lp.iter.args[2], ast.Constant) \
                    and isinstance(lp.iter.args[2].value, int) and lp.iter.args[2].value >= 2:
                n += 1
                f = m.enclosing_func(lp)
                where = f.key if f else m.name
                bad = _stepped_overruns(lp)
                if not bad:
                    ctx.ok(f"{where}|{norm(lp.iter, 60)}", None)
                for _lp, sub, k, c_ in bad:
                    ctx.fail(m, sub, where, sub, f"`{norm(sub)}` inside `for {norm(lp.target)} in {norm(lp.iter)}`: the walk stops at len - {c_} but reads {k} past the index, so a length that is not a "
                                                 f"multiple of the step (an argument count chosen by the input) raises IndexError")
    ctx.count("stepped_walks", n)
    ctx.min_instances("stepped_walks", n, 2)


def _reported_missing(test: ast.AST) -> str | None:
    """X for the tests `not X`, `X is None`, `not isinstance(X, ...)` (the branch reports X as missing / of the wrong kind)."""
    if isinstance(test, ast.UnaryOp) and isinstance(test.op, ast.Not):
        o = test.operand
        if isinstance(o, ast.Name):
            return o.id
        if isinstance(o, ast.Call) and norm(o.func) == "isinstance" and o.args and isinstance(o.args[0], ast.Name):
            return o.args[0].id
    if isinstance(test, ast.Compare) and len(test.ops) == 1 and isinstance(test.ops[0], ast.Is) and isinstance(test.left, ast.Name) \
            and isinstance(test.comparators[0], ast.Constant) and test.comparators[0].value is None:
        return test.left.id
    return None


def _fallthrough_uses(fn: ast.AST) -> list[tuple[ast.If, str, ast.AST]]:
    """`if not X: self.raise_error(...)` without an exit, followed in the same block by X.attr / X[...] / *X outside any test of X."""
    out = []
    parents: dict[int, ast.AST] = {}
    for x in ast.walk(fn):
        for ch in ast.iter_child_nodes(x):
            parents[id(ch)] = x
    for blk in ast.walk(fn):
        for fld in ("body", "orelse", "finalbody"):
            seq = getattr(blk, fld, None)
            if not isinstance(seq, list):
                continue
            for i, st in enumerate(seq):
                if not (isinstance(st, ast.If) and not st.orelse):
                    continue
                x = _reported_missing(st.test)
                if x is None:
                    continue
                last = st.body[-1]
                if not (isinstance(last, ast.Expr) and isinstance(last.value, ast.Call) and norm(last.value.func) == "self.raise_error"):
                    continue
                for later in seq[i + 1:]:
                    if any(isinstance(a, ast.Assign) and any(isinstance(t_, ast.Name) and t_.id == x for t_ in a.targets) for a in ast.walk(later)):
                        break  # rebound
                    for u in ast.walk(later):
                        if isinstance(u, (ast.Starred, ast.Attribute, ast.Subscript)) and isinstance(getattr(u, "value", None), ast.Name) and u.value.id == x:
                            # guarded by a test of X?
                            cur: ast.AST = u
                            guarded = False
                            while id(cur) in parents and cur is not later:
                                par = parents[id(cur)]
                                if isinstance(par, (ast.IfExp, ast.If)) and any(isinstance(n_, ast.Name) and n_.id == x for n_ in ast.walk(par.test)) and cur is not par.test:
                                    guarded = True
                                    break
                                if isinstance(par, ast.BoolOp) and isinstance(par.op, ast.And) and any(isinstance(v, ast.Name) and v.id == x for v in par.values[: par.values.index(cur)] if cur in par.values):
                                    guarded = True
                                    break
                                cur = par
                            if not guarded:
                                out.append((st, x, u))
    return out


def rule_t(ctx: Ctx) -> None:
    ctx.rule(
        "C05.t",
        "a value reported missing is not used as if present: `if not X: self.raise_error(...)` only raises at the IMMEDIATE level; when the branch has no exit, the code after it "
        "still runs with the empty / missing X at the other levels, so every later X.attr, X[...] or *X in that block is guarded by a test of X — otherwise the non-raising levels leak "
        "AttributeError / IndexError / ValueError",
    )
    probe = ast.parse("def f(self, c):\n    args = self.p()\n    if not args:\n        self.raise_error('x')\n    return c(*args)\n").body[0]
    ctx.require(len(_fallthrough_uses(probe)) == 1, "positive control failed: fall-through use not recognised")
    n = 0
    for m in ctx.repo.modules.values():
        if not (m.name == "sqlglot.parser" or m.name.startswith("sqlglot.parsers.")):
            continue
        for f in m.funcs.values():
            if ".<locals>." in f.qualname:
                continue
            ifs = [st for st in ast.walk(f.node) if isinstance(st, ast.If) and isinstance(st.test, ast.UnaryOp) and isinstance(st.test.op, ast.Not) and isinstance(st.test.operand, ast.Name)
                   and not st.orelse and isinstance(st.body[-1], ast.Expr) and isinstance(st.body[-1].value, ast.Call) and norm(st.body[-1].value.func) == "self.raise_error"]
            n += len(ifs)
            bad = _fallthrough_uses(f.node)
            flagged = {id(st) for st, _, _ in bad}
            for st in ifs:
                if id(st) not in flagged:
                    ctx.ok(f"{f.key}|{norm(st.test)} reported, not used unguarded afterwards", None)
            for st, x, u in bad:
                ctx.fail(m, u, f.key, u, f"`{norm(u, 40)}` uses `{x}` after `if {norm(st.test, 40)}: self.raise_error(...)` (line {st.lineno}) fell through: at the WARN / RAISE / IGNORE levels the error is only "
                                         f"recorded and this line runs with the missing value")
    ctx.count("reported_missing_values", n)
    ctx.min_instances("reported_missing_values", n, 5)
