"""C05.a loop progress and C05.b cursor discipline for the recursive-descent parser and the tokenizer.

Consumption lattice: 0 / 1 / 2 = "at least that many tokens consumed since the reference point"
(meet = min). Consumption events:
  * True edge of a condition `self._match(...)`, `_match_set`, `_match_texts` (+1), `_match_pair`
    (+2), `_match_text_seq(a, b, ..)` (+number of texts) unless `advance=False`;
  * True edge of a condition on a call to a *productive* method or on a local bound only from
    productive calls (`x`, `x is not None`; False edge of `x is None` / `not x`);
  * a statement calling `self._advance()` / `self._advance(k>0)` / `self._advance_chunk()`;
  * `self._retreat(<saved>)` resets to 0; `_retreat(self._index - k)` / `_advance(-k)` subtract k.
A method is *productive* (P) when on every path that returns a possibly-truthy value at least one
token was consumed; P is the greatest fixpoint over all same-named definitions in every parser
class (dynamic dispatch resolved by name). Higher-order combinators (`_parse_csv(f)`,
`_try_parse(f)`, `_parse_wrapped*(f)`, `_parse_wrapped_csv(f)`) are productive when f is.

C05.a: for every `while` loop (and `for .. in iter(f, sentinel)`), starting from the loop head with
0, every back edge must be reached with >= 1 — or the loop is a recognised non-cursor loop whose
condition variables are updated on every back-edge path — or it is in the reviewed axiom table.
C05.b: every `_retreat(v)` takes a local saved from `self._index`; every relative backward move
by k is dominated by >= k consumed tokens since function entry, or credited by table dispatch;
`_try_parse` restores in `finally`.
"""

from __future__ import annotations

import ast

from ..cfg import CFG, Node
from ..core import Cls, Ctx, Func, Module, call_name, is_self_attr, kwarg, norm, walk_no_nested

MATCH_AMOUNT = {"_match": 1, "_match_set": 1, "_match_texts": 1, "_match_pair": 2}
COMBINATORS = {"_parse_csv", "_try_parse", "_parse_wrapped", "_parse_wrapped_csv", "_parse_wrapped_id_vars_not_used"}
CURSOR_NAMES = ("_match", "_advance", "_retreat", "_parse", "_try_parse", "_curr", "_next", "_prev", "_index", "_tokens")

# reviewed axioms: method name -> reason it is productive although the fixpoint cannot derive it
AXIOM_PRODUCTIVE: dict[str, str] = {}
# reviewed loops: (module:qualname, normalised loop test) -> reason it terminates
REVIEWED_LOOPS: dict[tuple[str, str], str] = {
    ("sqlglot.parser:Parser._parse_column_ops", "self._curr.token_type in self.BRACKETS"):
        "the body calls _parse_bracket with the current token in BRACKETS: the base definition starts with _match_set(self.BRACKETS) "
        "(consumes), BigQuery/DuckDB overrides call super() first, and the ClickHouse override either consumes `[ ]` pairs or reaches "
        "super() without having moved the cursor",
}


class Model:
    def __init__(self, ctx: Ctx) -> None:
        self.ctx = ctx
        repo = ctx.repo
        base = repo.cls("sqlglot.parser", "Parser")
        self.classes: list[Cls] = [base] + repo.subclasses(base)
        self.defs: dict[str, list[tuple[Cls, ast.FunctionDef]]] = {}
        for c in self.classes:
            for name, md in c.methods().items():
                self.defs.setdefault(name, []).append((c, md))
        self.cfgs: dict[int, CFG] = {}
        self.P: dict[str, bool] = {}
        self.why_not: dict[str, str] = {}

    def cfg(self, fn: ast.AST) -> CFG:
        k = id(fn)
        if k not in self.cfgs:
            self.cfgs[k] = CFG(fn)
        return self.cfgs[k]

    # ---- expression classification -------------------------------------------------------------
    def call_amount(self, e: ast.AST) -> int:
        """tokens consumed when the call `e` evaluates truthy"""
        if isinstance(e, ast.NamedExpr):
            e = e.value
        if not isinstance(e, ast.Call):
            return 0
        cn = call_name(e) or ""
        if not cn.startswith("self."):
            return 0
        name = cn[5:]
        adv = kwarg(e, "advance")
        if name in MATCH_AMOUNT:
            if adv is not None and not (isinstance(adv, ast.Constant) and adv.value is True):
                return 0
            pos_adv = {"_match": 1, "_match_set": 1, "_match_texts": 1, "_match_pair": 2}[name]
            if len(e.args) > pos_adv:  # positional advance flag
                a = e.args[pos_adv]
                if not (isinstance(a, ast.Constant) and a.value is True):
                    return 0
            return MATCH_AMOUNT[name]
        if name == "_match_text_seq":
            if adv is not None and not (isinstance(adv, ast.Constant) and adv.value is True):
                return 0
            return min(2, len([a for a in e.args if not isinstance(a, ast.Starred)])) or (1 if e.args else 0)
        if name == "_advance_any":
            return 1
        if self.productive_expr(e, {}):
            return 1
        return 0

    def productive_strict(self, name: str) -> bool:
        """productive when raise_error raises (callee runs under _try_parse, i.e. ErrorLevel.IMMEDIATE)"""
        cache = self.__dict__.setdefault("_strict_cache", {})
        if name in cache:
            return cache[name]
        cache[name] = False
        ok = bool(self.defs.get(name))
        saved = self.strict_errors
        self.strict_errors = True
        try:
            for c, md in self.defs.get(name, []):
                r, _ = self.method_productive(c, md, defaults_only=True)
                if not r:
                    r, _ = self.method_productive(c, md)
                if not r:
                    ok = False
                    break
        finally:
            self.strict_errors = saved
        cache[name] = ok
        return ok

    def productive_with_call(self, name: str, call: ast.Call, via_super: bool = False) -> bool:
        """productive for this particular call: parameters the call does not pass keep their (falsy) defaults"""
        if not getattr(self, "solved", False) or any(isinstance(a, ast.Starred) for a in call.args) or any(k.arg is None for k in call.keywords):
            return False
        cache = self.__dict__.setdefault("_pwc_cache", {})
        skip_md = self.__dict__.get("_cur_md") if via_super else None
        key = (name, len(call.args), tuple(sorted(k.arg for k in call.keywords)), tuple(norm(k.value, 30) for k in call.keywords), self.__dict__.get("_cur_falsy", frozenset()), id(skip_md))
        if key in cache:
            return cache[key]
        cache[key] = False
        ok = bool(self.defs.get(name))
        for c, md in self.defs.get(name, []):
            if md is skip_md:
                continue  # super().name(...): the override's own definition is not a callee
            pos = [x.arg for x in md.args.args if x.arg != "self"]
            cur_falsy = self.__dict__.get("_cur_falsy", frozenset())
            # an argument that forwards a parameter known to be falsy in the calling context, or a falsy constant, leaves the default in force
            def _is_falsy_arg(v: ast.AST) -> bool:
                return (isinstance(v, ast.Name) and v.id in cur_falsy) or (isinstance(v, ast.Constant) and not v.value)
            given = frozenset(nm for nm, v in zip(pos, call.args) if not _is_falsy_arg(v)) | frozenset(k.arg for k in call.keywords if not _is_falsy_arg(k.value))
            r, _ = self.method_productive(c, md, defaults_only=True, given=given)
            if not r:
                ok = False
                break
        cache[key] = ok
        return ok

    def productive_callable(self, f: ast.AST, locals_: dict[str, bool]) -> bool:
        """callable expression f (method reference / lambda) whose truthy result implies consumption"""
        if isinstance(f, ast.Attribute) and isinstance(f.value, ast.Name) and f.value.id == "self":
            return self.P.get(f.attr, False) or getattr(self, "P0", {}).get(f.attr, False)
        if isinstance(f, ast.Lambda):
            return self.productive_expr(f.body, locals_)
        if isinstance(f, ast.Call) and (call_name(f) or "").endswith("partial") and f.args:
            return self.productive_callable(f.args[0], locals_)
        return False

    def productive_expr(self, e: ast.AST, locals_: dict[str, bool]) -> bool:
        """truthy value of e implies >= 1 token consumed *by evaluating e*"""
        if isinstance(e, ast.NamedExpr):
            return self.productive_expr(e.value, locals_)
        if isinstance(e, ast.Name):
            return locals_.get(e.id, False)
        if isinstance(e, ast.Attribute) and isinstance(e.value, ast.Name) and e.value.id != "self":
            # x.attr can only be evaluated (truthy or not) on a non-None x
            return locals_.get(e.value.id, False)
        if isinstance(e, ast.Constant):
            return not e.value  # a falsy constant never yields a truthy value
        if isinstance(e, (ast.List, ast.Tuple, ast.Set)) and not e.elts:
            return True  # empty display is falsy
        if isinstance(e, ast.Dict) and not e.keys:
            return True
        if isinstance(e, ast.BoolOp) and isinstance(e.values[0], ast.Call) and call_name(e.values[0]) in ("self._advance", "self._advance_chunk") and not e.values[0].args:
            return True  # the first operand is always evaluated and always consumes
        if isinstance(e, ast.Call) and call_name(e) in ("ensure_list", "list", "tuple") and len(e.args) == 1:
            return self.productive_expr(e.args[0], locals_)
        if isinstance(e, ast.BoolOp):
            if isinstance(e.op, ast.Or):
                return all(self.productive_expr(v, locals_) for v in e.values)
            return any(self.productive_expr(v, locals_) for v in e.values)
        if isinstance(e, ast.IfExp) and isinstance(e.test, ast.Compare) and len(e.test.ops) == 1 and self._index_cmp(e.test):
            # explicit progress check: `None if self._index == saved else x` / `x if self._index != saved else None`
            if isinstance(e.test.ops[0], ast.Eq):
                return self.productive_expr(e.body, locals_)
            if isinstance(e.test.ops[0], ast.NotEq):
                return self.productive_expr(e.orelse, locals_)
        if isinstance(e, ast.IfExp):
            return (self._test_implies_consumed(e.test, locals_) or self.productive_expr(e.body, locals_)) and self.productive_expr(e.orelse, locals_)
        if isinstance(e, ast.Call):
            cn = call_name(e) or ""
            if not cn and isinstance(e.func, ast.Attribute) and isinstance(e.func.value, ast.Call) and call_name(e.func.value) == "super":
                cn = "super()." + e.func.attr
            if cn.startswith("self."):
                name = cn[5:]
                if name in MATCH_AMOUNT or name == "_match_text_seq":
                    return self.call_amount(e) > 0
                if name == "_advance_any":
                    return True
                if name == "_try_parse" and e.args and isinstance(e.args[0], ast.Attribute) and is_self_attr(e.args[0]):
                    if self.productive_callable(e.args[0], locals_) or (getattr(self, "solved", False) and self.productive_strict(e.args[0].attr)):
                        return True
                if name in COMBINATORS or name.startswith("_parse_wrapped") or name == "_parse_csv":
                    if e.args:
                        return self.productive_callable(e.args[0], locals_)
                    pm = kwarg(e, "parse_method")
                    return pm is not None and self.productive_callable(pm, locals_)
                if name == "expression":
                    return False  # always truthy
                if self.P.get(name, False):
                    return True
                if not e.args and not e.keywords and getattr(self, "P0", {}).get(name, False):
                    return True  # productive when called with its defaults
                if (e.args or e.keywords) and self.productive_with_call(name, e):
                    return True  # productive for the parameters this call leaves at their falsy defaults
                return self._passthrough_call(name, e, locals_)
            if cn.startswith("super()."):
                name = cn[8:]
                return self.P.get(name, False) or self._passthrough_call(name, e, locals_) or ((e.args or e.keywords) and self.productive_with_call(name, e, via_super=True))
            if cn in ("t.cast", "cast") and len(e.args) == 2:
                return self.productive_expr(e.args[1], locals_)
        return False

    def _test_implies_consumed(self, t_: ast.AST, locals_: dict[str, bool]) -> bool:
        """the test being true implies a productive value is non-None"""
        if isinstance(t_, ast.Call) and call_name(t_) == "isinstance" and t_.args:
            return self.productive_expr(t_.args[0], locals_)
        if isinstance(t_, ast.Call) and self.call_amount(t_) > 0:
            return True  # the test itself is a consuming match
        if isinstance(t_, ast.Name):
            return locals_.get(t_.id, False)
        if isinstance(t_, ast.Compare) and len(t_.ops) == 1 and isinstance(t_.ops[0], ast.IsNot) and isinstance(t_.comparators[0], ast.Constant) and t_.comparators[0].value is None:
            return self.productive_expr(t_.left, locals_)
        if isinstance(t_, ast.BoolOp) and isinstance(t_.op, ast.And):
            return any(self._test_implies_consumed(v, locals_) for v in t_.values)
        return False

    def _passthrough_call(self, name: str, e: ast.Call, locals_: dict[str, bool]) -> bool:
        """m(arg, ...) where every truthy result of m is either paid for by consumption or is its first argument"""
        if not getattr(self, "PT", {}).get(name, False):
            return False
        arg = e.args[0] if e.args else None
        if arg is None:
            for nm, lst in self.defs.items():
                if nm == name and lst:
                    params = [a.arg for a in lst[0][1].args.args if a.arg != "self"]
                    if params:
                        arg = kwarg(e, params[0])
        return arg is not None and self.productive_expr(arg, locals_)

    def productive_locals(self, fn: ast.AST) -> dict[str, bool]:
        """kept for API compatibility: flow-sensitive facts are carried in the dataflow state instead"""
        return {}

    # ---- dataflow --------------------------------------------------------------------------------
    # state = (count, pv): count = tokens consumed since the reference point (0/1/2, meet=min);
    # pv = set of locals v with "v truthy => >= 1 token consumed since the reference point" (meet = intersection)
    def transfer(self, n: Node, lab, state: tuple[int, frozenset], falsy: frozenset = frozenset()):
        """returns the state on edge (n, lab), or None when the edge is infeasible because it requires a
        parameter known to be falsy (call with defaults) to be truthy"""
        count, pv, fv, curr, saved = state
        if n.ast is None:
            return state
        if falsy and n.kind == "cond" and isinstance(n.ast, ast.Name) and n.ast.id in falsy and lab is True:
            return None
        if self.strict_errors and n.kind == "stmt" and isinstance(n.ast, ast.Expr) and isinstance(n.ast.value, ast.Call) and call_name(n.ast.value) == "self.raise_error":
            return None  # under ErrorLevel.IMMEDIATE (inside _try_parse) raise_error never returns
        loc = {v: True for v in pv}
        if n.kind == "cond":
            e = n.ast
            gain = 0
            new_pv = set(pv)
            target = None
            inner = e
            if isinstance(e, ast.NamedExpr) and isinstance(e.target, ast.Name):
                target, inner = e.target.id, e.value
                new_pv.discard(target)
                if count >= 1 or self.productive_expr(inner, loc):
                    new_pv.add(target)
            new_fv = set(fv)
            new_curr = curr
            if target is not None:
                new_fv.discard(target)
            # peek facts: self._match(TokenType.T, advance=False) true => current token is T
            peek = self._peek_token(inner)
            if peek is not None:
                if lab is True:
                    new_curr = peek
            elif lab is True and isinstance(inner, ast.Compare) and len(inner.ops) == 1 and isinstance(inner.ops[0], ast.In) and norm(inner.left) == "self._curr.token_type" and is_self_attr(inner.comparators[0]):
                new_curr = "tbl:" + inner.comparators[0].attr  # current token is a member of that class table
            elif lab is True and (is_self_attr(inner, "_curr") or (isinstance(inner, ast.Call) and call_name(inner) == "self._is_connected")):
                if new_curr is None:
                    new_curr = "<some token>"  # the current token exists
            if isinstance(inner, ast.Name) and lab is False:
                new_fv.add(inner.id)
            if isinstance(inner, ast.Name) and lab is True:
                new_fv.discard(inner.id)
            if lab is True:
                if isinstance(inner, ast.Call) and call_name(inner) == "isinstance":
                    if inner.args and self.productive_expr(inner.args[0], loc):
                        gain = 1  # isinstance(x, T) holds only for a non-None (truthy) node
                elif isinstance(inner, ast.Call):
                    gain = self.call_amount(inner) if not isinstance(e, ast.NamedExpr) else (self.call_amount(inner) or (1 if self.productive_expr(inner, loc) else 0))
                elif isinstance(inner, ast.Name) and inner.id in pv:
                    gain = 1
                elif isinstance(inner, ast.Compare) and len(inner.ops) == 1 and isinstance(inner.comparators[0], ast.Constant) and inner.comparators[0].value is None and isinstance(inner.ops[0], ast.IsNot):
                    if self.productive_expr(inner.left, loc):
                        gain = 1
                elif isinstance(inner, ast.Compare) and len(inner.ops) == 1 and isinstance(inner.ops[0], ast.NotEq) and self._index_cmp(inner):
                    gain = 1
                elif isinstance(inner, ast.Call) and call_name(inner) == "isinstance" and inner.args and self.productive_expr(inner.args[0], loc):
                    gain = 1  # isinstance(x, T) is true only for a non-None (truthy) node
                elif isinstance(inner, (ast.BoolOp, ast.IfExp)) and self.productive_expr(inner, loc):
                    gain = 1
                elif isinstance(inner, ast.Call) is False and isinstance(inner, ast.Attribute) is False and self.productive_expr(inner, loc) and not isinstance(inner, ast.Constant):
                    gain = 1
            elif lab is False:
                if isinstance(inner, ast.Compare) and len(inner.ops) == 1 and isinstance(inner.comparators[0], ast.Constant) and inner.comparators[0].value is None and isinstance(inner.ops[0], ast.Is):
                    if self.productive_expr(inner.left, loc):
                        gain = 1
                elif isinstance(inner, ast.Compare) and len(inner.ops) == 1 and isinstance(inner.ops[0], ast.Eq) and self._index_cmp(inner):
                    gain = 1  # explicit progress check: `saved_index == self._index` is false => the cursor moved
            if gain == 0 and isinstance(inner, ast.Call) and curr is not None and lab is True:
                pass
            if gain == 0 and lab is not None and isinstance(inner, ast.Call) and self._first_match_gain(inner, curr):
                gain = 1 if lab is True else 0
            if gain > 0:
                new_curr = None
            elif isinstance(inner, ast.Call) and peek is None and self._moves_cursor(inner):
                new_curr = None
            # deferred debts: `r` bound from a callee that un-reads its caller's match only when it returns a falsy value
            dname = None
            dfalsy = False
            if isinstance(inner, ast.Name):
                dname, dfalsy = inner.id, lab is False
            elif isinstance(inner, ast.Compare) and len(inner.ops) == 1 and isinstance(inner.left, ast.Name) and isinstance(inner.comparators[0], ast.Constant) and inner.comparators[0].value is None:
                if isinstance(inner.ops[0], ast.Is):
                    dname, dfalsy = inner.left.id, lab is True
                elif isinstance(inner.ops[0], ast.IsNot):
                    dname, dfalsy = inner.left.id, lab is False
            if dname is not None and lab is not None:
                sv_ = dict(saved)
                if "!" + dname in sv_:
                    dk_ = sv_.pop("!" + dname)
                    saved = frozenset(sv_.items())
                    if dfalsy:
                        count = max(0, count - dk_)
                        if count < 1:
                            new_pv = set()
            if isinstance(inner, ast.Call):
                dk, dfo = self.call_debt(inner)
                if dk and not (lab is True and dfo):
                    # a callee that un-reads what its caller matched (only when it returns a falsy value if dfo)
                    count = max(0, count - dk)
                    gain = 0
                    new_curr = None
                    new_pv = set() if count < 1 else new_pv
            return (min(2, count + gain), frozenset(new_pv), frozenset(new_fv), new_curr, saved)
        if n.kind in ("stmt", "with", "for"):
            st = n.ast
            if isinstance(st, (ast.FunctionDef, ast.AsyncFunctionDef, ast.ClassDef)):
                return state
            if n.kind == "for":
                new_pv = set(pv)
                new_fv = set(fv)
                for x in ast.walk(st.target):
                    if isinstance(x, ast.Name):
                        new_pv.discard(x.id)
                        new_fv.discard(x.id)
                return (count, frozenset(new_pv), frozenset(new_fv), curr, saved)
            gain, reset = 0, False
            reset_to = 0
            moved = False
            refund: set[tuple[str, int]] = set()
            for c in _top_level_calls(st):
                cn = call_name(c) or ""
                dk, dfo = self.call_debt(c)
                if dk:
                    # the callee may un-read up to dk tokens its caller consumed. If it only does so when it returns a falsy
                    # value and the result is bound to a local, the debt is deferred to the edge on which that local is
                    # found falsy (state component saved["!name"] = dk); otherwise it is charged here.
                    tgs_ = (st.targets if isinstance(st, ast.Assign) else [st.target]) if isinstance(st, (ast.Assign, ast.AnnAssign)) else []
                    if dfo and len(tgs_) == 1 and isinstance(tgs_[0], ast.Name) and st.value is c:
                        refund.add((tgs_[0].id, dk))
                    else:
                        gain -= dk
                    moved = True
                    continue
                if curr is not None and self._first_match_gain(c, curr) and gain == 0:
                    gain += 1  # the callee starts by matching the token we have just peeked
                    continue
                if curr is not None and cn == "self._advance_any" and gain == 0:
                    ig = kwarg(c, "ignore_reserved") or (c.args[0] if c.args else None)
                    if isinstance(ig, ast.Constant) and ig.value is True:
                        gain += 1  # _advance_any(ignore_reserved=True) always advances when a current token exists
                        continue
                if cn.startswith("self.") and self._moves_cursor(c):
                    moved = True
                if cn == "self._advance":
                    k = 1
                    if c.args:
                        a = c.args[0]
                        if isinstance(a, ast.Constant) and isinstance(a.value, int):
                            k = a.value
                        elif isinstance(a, ast.UnaryOp) and isinstance(a.op, ast.USub) and isinstance(a.operand, ast.Constant):
                            k = -a.operand.value
                        else:
                            k = 0
                    gain += k
                elif cn == "self._advance_chunk":
                    gain += 1
                elif cn == "self._retreat":
                    a = c.args[0] if c.args else None
                    if isinstance(a, ast.BinOp) and isinstance(a.op, ast.Sub) and norm(a.left) == "self._index" and isinstance(a.right, ast.Constant):
                        gain -= a.right.value
                    else:
                        reset = True
                        sv = dict(saved)
                        if isinstance(a, ast.Name) and a.id in sv:
                            reset_to = min(count, sv[a.id])  # back to a position at which that much had been consumed
            new_fv = set(fv)
            new_curr = None if (gain != 0 or reset or moved) else curr
            if reset:
                count2 = max(reset_to, max(0, min(2, gain)) if gain > 0 else 0)
                new_pv = set(pv) if count2 >= 1 else set()
            else:
                count2 = max(0, min(2, count + gain))
                new_pv = set(pv) if gain >= 0 else set()
            # assignments
            tv: list[tuple[ast.AST, ast.AST | None]] = []
            if isinstance(st, ast.Assign):
                tv = [(tg, st.value) for tg in st.targets]
            elif isinstance(st, ast.AnnAssign) and st.value is not None:
                tv = [(st.target, st.value)]
            elif isinstance(st, ast.AugAssign):
                tv = [(st.target, None)]
            for tg, val in tv:
                if isinstance(tg, ast.Name):
                    new_fv.discard(tg.id)
                    if isinstance(val, ast.Constant) and not val.value:
                        new_fv.add(tg.id)
                    was = tg.id in new_pv
                    new_pv.discard(tg.id)
                    if val is not None and (count2 >= 1 and not reset or self.productive_expr(val, {v: True for v in new_pv | ({tg.id} if was else set())})):
                        new_pv.add(tg.id)
                    elif val is None and (count2 >= 1 or was):
                        new_pv.add(tg.id)
                else:
                    # tuple unpack from a table-dispatched parser: `key, expression = parser(self)`
                    prod_idx = self._tuple_dispatch_productive(st, val) if isinstance(tg, ast.Tuple) and val is not None else set()
                    if isinstance(tg, ast.Tuple) and isinstance(val, ast.Call) and (call_name(val) or "").startswith("self.") and (call_name(val) or "").count(".") == 1:
                        prod_idx = prod_idx | self.tuple_productive((call_name(val) or "")[5:])
                    for i_, x in enumerate(tg.elts if isinstance(tg, (ast.Tuple, ast.List)) else []):
                        if isinstance(x, ast.Name):
                            new_pv.discard(x.id)
                            new_fv.discard(x.id)
                            if i_ in prod_idx or count2 >= 1:
                                new_pv.add(x.id)
                    if not isinstance(tg, (ast.Tuple, ast.List)):
                        for x in ast.walk(tg):
                            if isinstance(x, ast.Name) and isinstance(x.ctx, ast.Store):
                                new_pv.discard(x.id)
                                new_fv.discard(x.id)
            # growing a collection: `v.append(x)` keeps "v truthy => consumed" only if something was consumed or x is productive
            for c in ast.walk(st):
                if isinstance(c, ast.Call) and isinstance(c.func, ast.Attribute) and isinstance(c.func.value, ast.Name) and c.func.attr in ("append", "extend", "insert", "add", "update"):
                    v_ = c.func.value.id
                    if v_ in new_pv and count2 < 1:
                        arg_ok = bool(c.args) and all(self.productive_expr(a_, {x: True for x in new_pv}) for a_ in c.args)
                        if not arg_ok:
                            new_pv.discard(v_)
            # walrus inside statements
            for x in ast.walk(st):
                if isinstance(x, ast.NamedExpr) and isinstance(x.target, ast.Name):
                    new_pv.discard(x.target.id)
                    new_fv.discard(x.target.id)
                    if count2 >= 1 or self.productive_expr(x.value, {v: True for v in new_pv}):
                        new_pv.add(x.target.id)
            new_saved = saved
            for tg, val in tv:
                if isinstance(tg, ast.Name) and val is not None and norm(val) == "self._index":
                    new_saved = frozenset({(k, v_) for k, v_ in new_saved if k not in (tg.id, "!" + tg.id)} | {(tg.id, count2)})
                elif isinstance(tg, ast.Name):
                    new_saved = frozenset((k, v_) for k, v_ in new_saved if k not in (tg.id, "!" + tg.id))
            if refund:
                new_saved = frozenset(set(new_saved) | {("!" + nm_, dk_) for nm_, dk_ in refund})
            return (count2, frozenset(new_pv), frozenset(new_fv), new_curr, new_saved)
        return state

    # ---- net-negative callees (un-consume the token their caller matched) -------------------------
    def debts(self) -> dict[str, tuple[int, bool]]:
        """name -> (k, falsy_only): some definition of `name` moves the cursor back by k more tokens than it has consumed
        since its own entry (it un-reads the keyword its caller matched before dispatching to it); falsy_only = every
        return reachable after such a move returns None / a falsy constant"""
        d = self.__dict__.get("_debts")
        if d is not None:
            return d
        out: dict[str, tuple[int, bool]] = {}
        for name, defs in self.defs.items():
            for c, md in defs:
                calls = [x for x in ast.walk(md) if isinstance(x, ast.Call) and call_name(x) in ("self._retreat", "self._advance") and x.args]
                rel = []
                for call in calls:
                    a = call.args[0]
                    k = None
                    if call_name(call) == "self._retreat" and isinstance(a, ast.BinOp) and isinstance(a.op, ast.Sub) and norm(a.left) == "self._index" and isinstance(a.right, ast.Constant):
                        k = a.right.value
                    elif call_name(call) == "self._retreat" and isinstance(a, ast.BinOp) and isinstance(a.op, ast.Sub) and isinstance(a.left, ast.Name) and isinstance(a.right, ast.Constant):
                        k = ("saved", a.left.id, a.right.value)  # back to k tokens before a saved position
                    elif call_name(call) == "self._advance" and isinstance(a, ast.UnaryOp) and isinstance(a.op, ast.USub) and isinstance(a.operand, ast.Constant):
                        k = a.operand.value
                    if (isinstance(k, int) and k > 0) or isinstance(k, tuple):
                        rel.append((call, k))
                if not rel:
                    continue
                g = self.cfg(md)
                IN, _ = self.flow(g, g.entry, {})
                for call, k in rel:
                    nodes = g.nodes_for(call)
                    if isinstance(k, tuple):
                        # consumed since entry when the position was saved (0 if unknown)
                        _tag, nm_, kk = k
                        have = min((dict(IN[x][4]).get(nm_, 0) for x in nodes if x in IN), default=0)
                        k = kk
                    else:
                        have = min((IN[x][0] for x in nodes if x in IN), default=0)
                    if have >= k or (f"{c.key}.{name}", norm(call)) in REVIEWED_MOVES:
                        continue  # reviewed: dominated by >= k tokens consumed inside the method
                    # returns reachable after the move: falsy, or reached after re-consuming at least what was un-read
                    falsy_only = True
                    for start in nodes:
                        IN2, _b = self.flow(g, start, {})
                        for n in IN2:
                            if n.kind == "stmt" and isinstance(n.ast, ast.Return) and n not in nodes:
                                v = n.ast.value
                                if v is None or (isinstance(v, ast.Constant) and not v.value):
                                    continue
                                if IN2[n][0] < k - have:
                                    falsy_only = False
                    old = out.get(name, (0, True))
                    out[name] = (max(old[0], k - have), old[1] and falsy_only)
        self._debts = out
        return out

    def table_methods(self, table: str) -> set[str]:
        cache = self.__dict__.setdefault("_tm_cache", {})
        if table not in cache:
            names: set[str] = set()
            for c in self.classes:
                lit = c.body_assigns().get(table)
                if lit is None:
                    continue
                for x in ast.walk(lit):
                    if isinstance(x, ast.Call) and (call_name(x) or "").startswith("self."):
                        names.add((call_name(x) or "")[5:])
                    elif isinstance(x, ast.Attribute) and x.attr.startswith("_parse") and not isinstance(x.value, ast.Name):
                        names.add(x.attr)
                    elif isinstance(x, ast.Attribute) and x.attr.startswith("_parse") and isinstance(x.value, ast.Name) and x.value.id != "self":
                        names.add(x.attr)  # Parser._parse_x method reference
            cache[table] = names
        return cache[table]

    def call_debt(self, c: ast.Call) -> tuple[int, bool]:
        """(k, falsy_only) for a call that may move the cursor back by k tokens beyond its own entry position"""
        if self.__dict__.get("_debts") is None:
            return (0, True)  # while the summaries themselves are being computed
        d = self.debts()
        cn = call_name(c) or ""
        if cn.startswith("self.") and cn.count(".") == 1:
            return d.get(cn[5:], (0, True))
        table = None
        if isinstance(c.func, ast.Subscript) and is_self_attr(c.func.value):
            table = c.func.value.attr
        elif isinstance(c.func, ast.Name):
            table = self.__dict__.get("_call_tables", {}).get(id(c))
        if table is None:
            return (0, True)
        k, fo = 0, True
        for nm in self.table_methods(table):
            if nm in d:
                k = max(k, d[nm][0])
                fo = fo and d[nm][1]
        return (k, fo)

    # ---- helpers for peek / first-match / table dispatch ------------------------------------------
    strict_errors = False

    @staticmethod
    def _peek_token(e: ast.AST) -> str | None:
        """T for `self._match(TokenType.T, advance=False)`"""
        if isinstance(e, ast.Call) and call_name(e) == "self._match" and e.args:
            adv = kwarg(e, "advance")
            if adv is None and len(e.args) >= 2:
                adv = e.args[1]
            if isinstance(adv, ast.Constant) and adv.value is False:
                a = e.args[0]
                if isinstance(a, ast.Attribute) and isinstance(a.value, ast.Name) and a.value.id == "TokenType":
                    return a.attr
        return None

    @staticmethod
    def _moves_cursor(c: ast.Call) -> bool:
        cn = call_name(c) or ""
        if not cn.startswith(("self.", "super().")):
            # `parser(self)` / callables taking self
            return any(isinstance(a, ast.Name) and a.id == "self" for a in c.args)
        name = cn.split(".")[-1]
        if name in ("raise_error", "expression", "validate_expression", "_find_sql", "_is_connected", "_warn_unsupported"):
            return False
        if name.startswith("_match"):
            adv = kwarg(c, "advance")
            return not (isinstance(adv, ast.Constant) and adv.value is False)
        return name.startswith(("_parse", "_advance", "_retreat", "_try_parse"))

    def first_match(self, name: str, call: ast.Call | None = None) -> str | None:
        """token T such that every definition of `name`, called with this call's explicit arguments and
        otherwise defaults, begins by testing self._match(TokenType.T) before any other cursor operation"""
        cache = self.__dict__.setdefault("_fm_cache", {})
        passed = tuple(sorted(f"{kw.arg}={kw.value.value!r}" if isinstance(kw.value, ast.Constant) else kw.arg for kw in call.keywords if kw.arg)) if call is not None else ()
        npos = len(call.args) if call is not None else 0
        key = (name, passed, npos)
        if key in cache:
            return cache[key]
        toks: set[str | None] = set()
        for c, md in self.defs.get(name, []):
            a = md.args
            pos = [x for x in a.args if x.arg != "self"]
            names_defaults = list(zip([x.arg for x in pos][len(pos) - len(a.defaults):], a.defaults)) + list(zip([x.arg for x in a.kwonlyargs], a.kw_defaults))
            given = {kw.arg for kw in (call.keywords if call is not None else []) if kw.arg} | {x.arg for x in pos[:npos]}
            falsy = {nm for nm, d in names_defaults if isinstance(d, ast.Constant) and not d.value and nm not in given}
            truthy = {kw.arg for kw in (call.keywords if call is not None else []) if kw.arg and isinstance(kw.value, ast.Constant) and kw.value.value is True}
            g = self.cfg(md)
            found: set[str | None] = set()
            seen = set()
            stack = [g.entry]
            while stack:
                n = stack.pop()
                if n in seen:
                    continue
                seen.add(n)
                if n is g.exit or n is g.raise_exit:
                    found.add(None)
                    continue
                for succ, lab in n.succ:
                    if n.kind == "cond" and isinstance(n.ast, ast.Name) and n.ast.id in falsy and lab is True:
                        continue
                    if n.kind == "cond" and isinstance(n.ast, ast.Name) and n.ast.id in truthy and lab is False:
                        continue
                    if n.kind == "cond" and isinstance(n.ast, ast.Call):
                        cn = call_name(n.ast) or ""
                        if cn == "self._match_set" and len(n.ast.args) == 1 and not n.ast.keywords and isinstance(n.ast.args[0], (ast.Tuple, ast.Set, ast.List)) and all(
                            isinstance(x, ast.Attribute) and isinstance(x.value, ast.Name) and x.value.id == "TokenType" for x in n.ast.args[0].elts
                        ):
                            found.add("set:" + ",".join(sorted(x.attr for x in n.ast.args[0].elts)))
                            break
                        if cn == "self._match" and n.ast.args and not any(kw.arg == "advance" for kw in n.ast.keywords) and len(n.ast.args) == 1:
                            a0 = n.ast.args[0]
                            if isinstance(a0, ast.IfExp) and isinstance(a0.test, ast.Name) and a0.test.id in falsy:
                                a0 = a0.orelse  # `TokenType.A if <falsy parameter> else TokenType.B`
                            found.add(a0.attr if isinstance(a0, ast.Attribute) and isinstance(a0.value, ast.Name) and a0.value.id == "TokenType" else None)
                            break
                        if self._moves_cursor(n.ast):
                            found.add(None)
                            break
                    if n.kind in ("stmt", "with") and n.ast is not None:
                        tl = _top_level_calls(n.ast)
                        mv = [x for x in tl if self._moves_cursor(x)]
                        if mv:
                            x0 = mv[0]
                            if call_name(x0) == "self._match" and len(x0.args) == 1 and not x0.keywords and isinstance(x0.args[0], ast.Attribute) and isinstance(x0.args[0].value, ast.Name) and x0.args[0].value.id == "TokenType":
                                found.add(x0.args[0].attr)
                            else:
                                found.add(None)
                            break
                    stack.append(succ)
            toks |= found
        res = next(iter(toks)) if len(toks) == 1 and None not in toks else None
        cache[key] = res
        return res

    def _first_match_gain(self, c: ast.Call, curr: str | None) -> bool:
        if curr is None or curr.startswith("<"):
            return False
        if curr.startswith("tbl:") and (call_name(c) or "") == "self._match":
            return False
        cn = call_name(c) or ""
        if not cn.startswith("self."):
            return False
        name = cn[5:]
        if name == "_match" and c.args and not c.keywords and len(c.args) == 1:
            a0 = c.args[0]
            return isinstance(a0, ast.Attribute) and a0.attr == curr
        if name.startswith("_parse"):
            fm = self.first_match(name, c)
            if fm is None:
                return False
            if fm == curr:
                return True
            if fm.startswith("set:"):
                toks = set(fm[4:].split(","))
                if curr.startswith("tbl:"):
                    # the peeked table must be a subset of the callee's first match set in every parser class (S2)
                    from ..facts import facts as _facts

                    fx = _facts(self.ctx.repo)
                    tbl = curr[4:]
                    tables = [set(d["parser_tables"].get(tbl, ["<missing>"])) for d in fx["dialects"].values()]
                    return bool(tables) and all(t_ <= toks for t_ in tables)
                return curr in toks
        return False

    def tuple_productive(self, name: str) -> set[int]:
        """indexes i such that every definition of `name` returns only tuple displays whose i-th element is productive"""
        cache = self.__dict__.setdefault("_tp_cache", {})
        if name in cache:
            return cache[name]
        cache[name] = set()
        out: set[int] | None = None
        for c, md in self.defs.get(name, []):
            g = self.cfg(md)
            IN, _ = self.flow(g, g.entry, {})
            rets = [n for n in g.nodes if n.kind == "stmt" and isinstance(n.ast, ast.Return) and n in IN]
            if not rets:
                return set()
            for n in rets:
                v = n.ast.value
                if not isinstance(v, ast.Tuple):
                    return set()
                loc = {x: True for x in IN[n][1]}
                idxs = {i for i, el in enumerate(v.elts) if IN[n][0] >= 1 or self.productive_expr(el, loc)}
                out = idxs if out is None else out & idxs
        cache[name] = out or set()
        return cache[name]

    def _tuple_dispatch_productive(self, st: ast.stmt, val: ast.AST) -> set[int]:
        """`k, e = parser(self)` where parser = self.TABLE[...] in the same function: indexes i such that in every
        TABLE literal of every parser class each value is a lambda returning a tuple whose i-th element is productive"""
        if not (isinstance(val, ast.Call) and isinstance(val.func, ast.Name) and len(val.args) == 1 and isinstance(val.args[0], ast.Name) and val.args[0].id == "self"):
            return set()
        table = self.__dict__.setdefault("_local_tables", {}).get(id(st))
        if table is None:
            return set()
        out: set[int] | None = None
        for c in self.classes:
            lit = c.body_assigns().get(table)
            if not isinstance(lit, ast.Dict):
                continue
            for k_, v in zip(lit.keys, lit.values):
                if k_ is None:
                    continue  # **Parent.TABLE: the parent's literal is checked on its own class
                if not (isinstance(v, ast.Lambda) and isinstance(v.body, ast.Tuple)):
                    return set()
                key_tok = k_.attr if isinstance(k_, ast.Attribute) and isinstance(k_.value, ast.Name) and k_.value.id == "TokenType" else None
                # the table is indexed with the *current* token, so inside the lambda the current token is the key
                idxs = {
                    i for i, el in enumerate(v.body.elts)
                    if self.productive_expr(el, {}) or (isinstance(el, ast.Call) and self._first_match_gain(el, key_tok))
                }
                out = idxs if out is None else out & idxs
        return out or set()


    @staticmethod
    def _index_cmp(e: ast.Compare) -> bool:
        """`saved == self._index` / `saved == self._curr` (a local compared with the live cursor)"""
        l, r = norm(e.left), norm(e.comparators[0])
        for live in ("self._index", "self._curr"):
            if (l == live) != (r == live) and (isinstance(e.left, ast.Name) or isinstance(e.comparators[0], ast.Name)):
                return True
        return False

    @staticmethod
    def _meet(a: tuple, b: tuple) -> tuple:
        """state invariant: `count tokens consumed, or (if count == 0) the current token is curr`.
        A path that already consumed satisfies any peek fact vacuously, so the fact of the zero-count side survives."""
        if a[0] >= 1 and b[0] >= 1:
            curr = a[3] if a[3] == b[3] else None
        elif a[0] >= 1:
            curr = b[3]
        elif b[0] >= 1:
            curr = a[3]
        else:
            curr = a[3] if a[3] == b[3] else None
        sa, sb = dict(a[4]), dict(b[4])
        saved = frozenset((k, min(sa[k], sb[k])) for k in sa.keys() & sb.keys() if not k.startswith("!"))
        saved |= frozenset((k, max(sa.get(k, 0), sb.get(k, 0))) for k in sa.keys() | sb.keys() if k.startswith("!"))
        # "v truthy => consumed" survives a join with a path on which v is known to be falsy (it holds vacuously there)
        pv = (a[1] & b[1]) | (a[1] & b[2]) | (b[1] & a[2])
        return (min(a[0], b[0]), pv, a[2] & b[2], curr, saved)

    @staticmethod
    def settled(state: tuple, returned: ast.AST | None = None) -> int:
        """consumption count with every still-deferred debt charged (except the one of the local being returned:
        a truthy result of that local means its callee did not un-read anything)"""
        debts = [v for k, v in state[4] if k.startswith("!") and not (isinstance(returned, ast.Name) and k == "!" + returned.id)]
        return max(0, state[0] - max(debts, default=0))

    def edge_gain(self, n: Node, lab, locals_: dict[str, bool]) -> tuple[int, bool]:
        o = self.transfer(n, lab, (0, frozenset(k for k, v in locals_.items() if v), frozenset(), None, frozenset()))
        return (o[0] if o else 0), False

    def flow(self, g: CFG, start: Node, locals_: dict[str, bool], stop_at: Node | None = None, init_pv: frozenset = frozenset(), falsy: frozenset = frozenset(), init_fv: frozenset = frozenset()):
        """forward dataflow from `start` with state (0, init_pv). Edges into `stop_at` are recorded, not propagated.
        Returns (IN, back) where IN maps node -> state and back lists (node, label, state-on-edge)."""
        IN: dict[Node, tuple] = {start: (0, init_pv, init_fv, None, frozenset())}
        back: list[tuple[Node, object, tuple]] = []
        # record which table a local `parser = self.T[...]` comes from, per statement using it
        lt = self.__dict__.setdefault("_local_tables", {})
        fn_node = g.func
        if id(fn_node) not in self.__dict__.setdefault("_lt_done", set()):
            self._lt_done.add(id(fn_node))
            tabs: dict[str, str] = {}
            for st_ in ast.walk(fn_node):
                if isinstance(st_, ast.Assign) and len(st_.targets) == 1 and isinstance(st_.targets[0], ast.Name) and isinstance(st_.value, ast.Subscript) and is_self_attr(st_.value.value):
                    tabs[st_.targets[0].id] = st_.value.value.attr
            for st_ in ast.walk(fn_node):
                if isinstance(st_, ast.Assign) and isinstance(st_.value, ast.Call) and isinstance(st_.value.func, ast.Name) and st_.value.func.id in tabs:
                    lt[id(st_)] = tabs[st_.value.func.id]
            tabs2 = dict(tabs)
            for st_ in ast.walk(fn_node):
                if isinstance(st_, ast.Assign) and len(st_.targets) == 1 and isinstance(st_.targets[0], ast.Name) and isinstance(st_.value, ast.Call) \
                        and isinstance(st_.value.func, ast.Attribute) and st_.value.func.attr == "get" and is_self_attr(st_.value.func.value):
                    tabs2[st_.targets[0].id] = st_.value.func.value.attr
            ct = self.__dict__.setdefault("_call_tables", {})
            for c_ in ast.walk(fn_node):
                if isinstance(c_, ast.Call) and isinstance(c_.func, ast.Name) and c_.func.id in tabs2 and c_.args and isinstance(c_.args[0], ast.Name) and c_.args[0].id == "self":
                    ct[id(c_)] = tabs2[c_.func.id]
        work = [start]
        guard = 0
        while work:
            n = work.pop()
            guard += 1
            if guard > 200000:
                break
            s = IN[n]
            for succ, lab in n.succ:
                out = self.transfer(n, lab, s, falsy)
                if out is None:
                    continue
                if succ is stop_at:
                    back.append((n, lab, out))
                    continue
                old = IN.get(succ)
                new = out if old is None else self._meet(old, out)
                if old is None or new != old:
                    IN[succ] = new
                    work.append(succ)
        return IN, back

    # ---- productive fixpoint -----------------------------------------------------------------------
    def method_productive(self, c: Cls, md: ast.FunctionDef, passthrough: bool = False, defaults_only: bool = False, given: frozenset | None = None) -> tuple[bool, str]:
        g = self.cfg(md)
        init = frozenset()
        falsy: frozenset = frozenset()
        if passthrough:
            params = [a.arg for a in md.args.args if a.arg != "self"]
            if not params:
                return False, "no parameter"
            init = frozenset({params[0]})
        if defaults_only:
            a = md.args
            pos = [x for x in a.args if x.arg != "self"]
            if given is None and (len(a.defaults) < len(pos) or a.vararg or any(d is None for d in a.kw_defaults)):
                return False, "has required parameters"
            names_defaults = list(zip([x.arg for x in pos][len(pos) - len(a.defaults):], a.defaults)) + list(zip([x.arg for x in a.kwonlyargs], a.kw_defaults))
            falsy = frozenset(nm for nm, d in names_defaults if isinstance(d, ast.Constant) and not d.value and nm not in (given or ()))
        saved_falsy, saved_md = self.__dict__.get("_cur_falsy", frozenset()), self.__dict__.get("_cur_md")
        self._cur_falsy, self._cur_md = falsy, md
        try:
            return self._method_productive_body(c, md, g, init, falsy)
        finally:
            self._cur_falsy, self._cur_md = saved_falsy, saved_md

    def _method_productive_body(self, c: Cls, md: ast.FunctionDef, g: CFG, init: frozenset, falsy: frozenset) -> tuple[bool, str]:
        IN, _ = self.flow(g, g.entry, {}, init_pv=init, falsy=falsy, init_fv=falsy)
        for n in g.nodes:
            if n.kind == "stmt" and isinstance(n.ast, ast.Return) and n in IN:
                v = n.ast.value
                if v is None:
                    continue
                if isinstance(v, ast.Constant) and not v.value:
                    continue
                # evaluated per incoming edge (keeps the correlation between "x is falsy" and "the cursor was restored")
                edge_states = []
                for p_, lab_ in n.pred:
                    if p_ in IN:
                        o_ = self.transfer(p_, lab_, IN[p_], falsy)
                        if o_ is not None:
                            edge_states.append(o_)
                if not edge_states:
                    edge_states = [IN[n]]
                all_ok = True
                for st_ in edge_states:
                    count, pv, fv, _curr, _saved = st_
                    count = self.settled(st_, v)
                    # a call in the returned expression that can un-read the caller's match while returning a truthy value
                    for c_ in _top_level_calls(n.ast):
                        dk_, dfo_ = self.call_debt(c_)
                        if dk_ and not dfo_:
                            count = max(0, count - dk_)
                    if count >= 1:
                        continue
                    post = self.transfer(n, None, st_, falsy)
                    if post is not None and self.settled(post, v) >= 1 and count == st_[0]:
                        continue  # the return expression itself consumes (peeked token matched by the callee)
                    if isinstance(v, ast.Name) and v.id in fv:
                        continue  # known falsy on this path
                    if self.productive_expr(v, {x: True for x in pv}):
                        continue
                    all_ok = False
                    break
                if all_ok:
                    continue
                return False, f"{c.name}.{md.name}: `return {norm(v, 50)}` (line {n.lineno}) can be truthy with nothing consumed"
        return True, ""

    def solve(self) -> None:
        names = [n for n in self.defs if n.startswith("_parse") or n in ("_advance_any",)]
        self.PT: dict[str, bool] = {}
        self.P0: dict[str, bool] = {}
        for n in self.defs:
            self.P[n] = n in names or n in AXIOM_PRODUCTIVE
            self.PT[n] = n in names
            self.P0[n] = n in names
        for n in list(MATCH_AMOUNT) + ["_match_text_seq"]:
            self.P[n] = True
        self.P["_advance_any"] = True
        self.P["expression"] = False
        self.PT["expression"] = False
        changed = True
        rounds = 0
        while changed and rounds < 40:
            changed = False
            rounds += 1
            for n in names:
                if n in AXIOM_PRODUCTIVE or n == "_advance_any":
                    continue
                if self.P.get(n):
                    for c, md in self.defs[n]:
                        ok, why = self.method_productive(c, md)
                        if not ok:
                            self.P[n] = False
                            self.why_not[n] = why
                            changed = True
                            break
                if self.PT.get(n):
                    for c, md in self.defs[n]:
                        ok, why = self.method_productive(c, md, passthrough=True)
                        if not ok:
                            self.PT[n] = False
                            changed = True
                            break
                if self.P0.get(n) and not self.P.get(n):
                    for c, md in self.defs[n]:
                        ok, why = self.method_productive(c, md, defaults_only=True)
                        if not ok:
                            self.P0[n] = False
                            self.why_not0 = getattr(self, "why_not0", {})
                            self.why_not0[n] = why
                            changed = True
                            break
        self.rounds = rounds
        self.solved = True


def _model(ctx: Ctx) -> Model:
    m = ctx.__dict__.get("_c05_model")
    if m is None:
        m = Model(ctx)
        m.solve()
        # second pass with the net-negative summaries active (callees that un-read their caller's match)
        m.debts()
        if m._debts:
            m.solve()
        ctx.__dict__["_c05_model"] = m
    return m


def _top_level_calls(st: ast.AST):
    """calls evaluated unconditionally when statement st executes (not under lambda / comprehension / IfExp branch / BoolOp tail)"""
    out = []

    def rec(e: ast.AST, cond: bool) -> None:
        if isinstance(e, (ast.Lambda, ast.ListComp, ast.SetComp, ast.DictComp, ast.GeneratorExp, ast.FunctionDef, ast.ClassDef)):
            return
        if isinstance(e, ast.IfExp):
            rec(e.test, cond)
            return
        if isinstance(e, ast.BoolOp):
            rec(e.values[0], cond)
            return
        if isinstance(e, ast.Call) and not cond:
            out.append(e)
        for ch in ast.iter_child_nodes(e):
            rec(ch, cond)

    if isinstance(st, (ast.If, ast.While, ast.For, ast.Try, ast.With)):
        if isinstance(st, ast.With):
            for it in st.items:
                rec(it.context_expr, False)
        return out
    rec(st, False)
    return out


def _uses_cursor(node: ast.AST) -> bool:
    for x in ast.walk(node):
        if isinstance(x, ast.Attribute) and isinstance(x.value, ast.Name) and x.value.id == "self" and x.attr.startswith(CURSOR_NAMES):
            return True
    return False


def _loop_heads(g: CFG):
    for h in g.loop_heads:
        yield h


def rule_a(ctx: Ctx) -> None:
    ctx.rule(
        "C05.a",
        "loop progress: every while-loop of the parser (all parser classes) and tokenizer reaches each back edge with >= 1 token consumed since "
        "the loop head (consuming-match conditions, unconditional _advance, productive callees), or updates its non-cursor condition variables",
    )
    model = _model(ctx)
    n_prod = sum(1 for k, v in model.P.items() if v and k.startswith("_parse"))
    n_all = sum(1 for k in model.P if k.startswith("_parse"))
    ctx.count("parse_methods", n_all)
    ctx.count("productive_methods", n_prod)
    ctx.count("fixpoint_rounds", model.rounds)
    ctx.notes.append("not productive (sample): " + "; ".join(list(model.why_not.values())[:12]))
    n_loops = 0
    units: list[tuple[Module, str, ast.AST]] = []
    for c in model.classes:
        for name, md in c.methods().items():
            units.append((c.module, f"{c.key}.{name}", md))
            for inner in ast.walk(md):
                if inner is not md and isinstance(inner, (ast.FunctionDef,)):
                    units.append((c.module, f"{c.key}.{name}.<locals>.{inner.name}", inner))
    tc = ctx.repo.cls("sqlglot.tokenizer_core", "TokenizerCore")
    for name, md in tc.methods().items():
        units.append((tc.module, f"{tc.key}.{name}", md))
    for m, where, fn in units:
        loops = [x for x in walk_no_nested(fn) if isinstance(x, ast.While) or (isinstance(x, ast.For) and isinstance(x.iter, ast.Call) and call_name(x.iter) == "iter" and len(x.iter.args) == 2)]
        # iter(f, sentinel) handed to someone else (returned, list(...)): the consumer repeats f until it returns the sentinel
        in_for = {id(x.iter) for x in loops if isinstance(x, ast.For)}
        for c_ in walk_no_nested(fn):
            if isinstance(c_, ast.Call) and call_name(c_) == "iter" and len(c_.args) == 2 and id(c_) not in in_for and not where.startswith("sqlglot.tokenizer_core"):
                n_loops += 1
                f0 = c_.args[0]
                inst = f"{where}|{norm(c_, 80)}"
                if model.productive_callable(f0, {}):
                    ctx.ok(inst, {"loop": norm(c_, 80), "in": where, "witness": "iter(f, sentinel) with productive f"})
                else:
                    ctx.fail(m, c_, where, norm(c_, 80), f"`{norm(c_, 70)}` repeats while the callee returns a non-sentinel value, but the callee is not proven to consume a token "
                             f"whenever it does: such input makes the consumer of this iterator loop forever")
        if not loops:
            continue
        g = model.cfg(fn)
        locs = model.productive_locals(fn)
        is_tok = where.startswith("sqlglot.tokenizer_core")
        for lp in loops:
            n_loops += 1
            head = next((h for h in g.loop_heads if h.ast is lp), None)
            test_txt = norm(lp.test, 90) if isinstance(lp, ast.While) else f"for .. in {norm(lp.iter, 70)}"
            inst = f"{where}|while {test_txt}|L{lp.lineno - fn.lineno}"
            if head is None:
                ctx.fail(m, lp, where, f"while {test_txt}", "internal: loop head not found in CFG")
                continue
            if (where, test_txt) in REVIEWED_LOOPS:
                ctx.ok(inst, {"loop": test_txt, "in": where, "witness": "reviewed: " + REVIEWED_LOOPS[(where, test_txt)]})
                continue
            if is_tok:
                ok, why = _tokenizer_loop_ok(m, fn, lp)
                if ok:
                    ctx.ok(inst, {"loop": test_txt, "in": where, "witness": why})
                else:
                    ctx.fail(m, lp, where, f"while {test_txt}", f"tokenizer loop without progress witness: {why}")
                continue
            # iter(f, sentinel) loops: one call of f per iteration; needs f productive
            if isinstance(lp, ast.For):
                f0 = lp.iter.args[0]
                if model.productive_callable(f0, locs):
                    ctx.ok(inst, {"loop": test_txt, "in": where, "witness": "iter(f, sentinel) with productive f"})
                else:
                    ctx.fail(m, lp, where, test_txt, f"`for .. in iter({norm(f0, 40)}, sentinel)` repeats while the callee returns a non-sentinel value, but the callee is not proven to consume a token when it does")
                continue
            cursor = _uses_cursor(lp)
            if not cursor:
                ok, why = _structural_variant(m, fn, lp, g, head)
                if ok:
                    ctx.ok(inst, {"loop": test_txt, "in": where, "witness": "non-cursor loop: " + why})
                else:
                    ctx.fail(m, lp, where, f"while {test_txt}", f"non-cursor loop without a recognised variant: {why}")
                continue
            IN, back = model.flow(g, head, locs, stop_at=head)
            natural = {id(a) for a, h in g.back_edges if h is head}
            back = [(n, lab, s) for n, lab, s in back if id(n) in natural]
            bad = [(n, lab, s) for n, lab, s in back if Model.settled(s) < 1]
            if not bad:
                ctx.ok(inst, {"loop": test_txt, "in": where, "witness": f"all {len(back)} back edges reached with >= 1 token consumed"})
                continue
            # maybe the loop variable is structural although the body touches the cursor
            ok2, why2 = _structural_variant(m, fn, lp, g, head)
            has_local_cond = not isinstance(lp.test, ast.Constant) and any(isinstance(y, ast.Name) for y in ast.walk(lp.test)) and not _uses_cursor(lp.test)
            if ok2 and has_local_cond:
                ctx.ok(inst, {"loop": test_txt, "in": where, "witness": "condition variable updated on every back-edge path: " + why2})
                continue
            flag = _one_shot_flag(model, g, head, lp, natural)
            if flag:
                ctx.ok(inst, {"loop": test_txt, "in": where, "witness": f"the only non-consuming iteration needs flag `{flag}`, which the loop body clears unconditionally (at most one such iteration)"})
                continue
            n0, lab0, _ = bad[0]
            path = _zero_path(model, g, head, locs)
            ctx.fail(m, lp, where, f"while {test_txt}",
                     f"a path through the loop body returns to the loop head without consuming a token (back edge from line {n0.lineno}: "
                     f"{norm(n0.ast, 60) if n0.ast is not None else ''}; zero-consumption path via lines {path}): on such input the parser never terminates")
    ctx.count("loops", n_loops)
    ctx.min_instances("loops", n_loops, 90)


def _one_shot_flag(model: Model, g: CFG, head: Node, lp: ast.While, natural: set[int]) -> str | None:
    """a local flag v such that (i) the loop body contains the unconditional statement `v = False`, (ii) v is assigned
    nowhere else inside the loop, (iii) with `v` assumed false every back edge is reached after consumption"""
    cands = []
    for i, st in enumerate(lp.body):
        if isinstance(st, ast.Assign) and len(st.targets) == 1 and isinstance(st.targets[0], ast.Name) and isinstance(st.value, ast.Constant) and st.value.value is False:
            if not any(isinstance(x, ast.Continue) for prev in lp.body[:i] for x in ast.walk(prev)):
                cands.append((st.targets[0].id, st))
    for v, st in cands:
        others = [x for x in ast.walk(lp) if isinstance(x, ast.Name) and x.id == v and isinstance(x.ctx, ast.Store) and x is not st.targets[0]]
        if others:
            continue
        IN, back = model.flow(g, head, {}, stop_at=head, falsy=frozenset({v}))
        back = [(n, lab, s) for n, lab, s in back if id(n) in natural]
        if back and all(s[0] >= 1 for _, _, s in back):
            return v
    return None


def _zero_path(model: Model, g: CFG, head: Node, locs: dict[str, bool]) -> list[int]:
    IN, _ = model.flow(g, head, locs, stop_at=head)
    seen = {head}
    stack: list[tuple[Node, list[Node]]] = [(head, [])]
    while stack:
        n, path = stack.pop()
        for s, lab in n.succ:
            st_in = IN.get(n, (0, frozenset(), frozenset(), None, frozenset()))
            o = model.transfer(n, lab, (0, st_in[1], st_in[2], st_in[3], frozenset()))
            if o is None or o[0] > 0:
                continue
            if s is head:
                lines = []
                for x in path + [n]:
                    if x.lineno and (not lines or lines[-1] != x.lineno):
                        lines.append(x.lineno)
                return lines[:14]
            if s in seen or s is g.exit or s is g.raise_exit:
                continue
            seen.add(s)
            stack.append((s, path + [n]))
    return []


def _assigned_names(st: ast.AST) -> set[str]:
    out = set()
    for x in ast.walk(st):
        if isinstance(x, ast.Name) and isinstance(x.ctx, ast.Store):
            out.add(x.id)
        if isinstance(x, ast.AugAssign) and isinstance(x.target, ast.Name):
            out.add(x.target.id)
        if isinstance(x, ast.Call) and isinstance(x.func, ast.Attribute) and isinstance(x.func.value, ast.Name) and x.func.attr in ("pop", "popleft", "append", "extend", "remove", "clear", "popitem", "add", "discard", "update"):
            out.add(x.func.value.id)
        if isinstance(x, ast.Attribute) and isinstance(x.ctx, ast.Store) and isinstance(x.value, ast.Name) and x.value.id == "self":
            out.add("self." + x.attr)
    return out


def _structural_variant(m: Module, fn: ast.AST, lp: ast.While, g: CFG, head: Node, self_calls_count: bool = False) -> tuple[bool, str]:
    """every back-edge path modifies a variable the loop condition reads (necessary for a variant)"""
    if isinstance(lp.test, ast.Constant):
        # while True: needs a break/return/raise reachable and the body must change something it tests before breaking
        exits = [x for x in ast.walk(lp) if isinstance(x, (ast.Break, ast.Return, ast.Raise))]
        if not exits:
            return False, "`while True` without break/return/raise"
        cond_vars: set[str] = set()
        for x in ast.walk(lp):
            if isinstance(x, ast.If):
                for y in ast.walk(x.test):
                    if isinstance(y, ast.Name):
                        cond_vars.add(y.id)
                    if isinstance(y, ast.Attribute) and isinstance(y.value, ast.Name) and y.value.id == "self":
                        cond_vars.add("self." + y.attr)
    else:
        cond_vars = {y.id for y in ast.walk(lp.test) if isinstance(y, ast.Name)} | {
            "self." + y.attr for y in ast.walk(lp.test) if isinstance(y, ast.Attribute) and isinstance(y.value, ast.Name) and y.value.id == "self"
        }
    if not cond_vars:
        return False, "condition reads no variable"
    # forward must-analysis from head: has a condition variable been modified?
    IN: dict[Node, bool] = {head: False}
    work = [head]
    back: list[bool] = []
    while work:
        n = work.pop()
        s = IN[n]
        mod = s
        if n is not head and n.ast is not None and n.kind in ("stmt", "for", "with") and not isinstance(n.ast, (ast.FunctionDef, ast.ClassDef)):
            tgt = n.ast.target if n.kind == "for" else n.ast
            if _assigned_names(tgt) & cond_vars:
                mod = True
            # tokenizer only: calling self._advance() moves _current/_peek/_char/_end
            if self_calls_count and any(v.startswith("self.") for v in cond_vars) and any(isinstance(c, ast.Call) and (call_name(c) or "") == "self._advance" for c in ast.walk(tgt)):
                mod = True
        if n.kind == "cond" and n.ast is not None and any(isinstance(x, ast.NamedExpr) and x.target.id in cond_vars for x in ast.walk(n.ast)):
            mod = True
        for succ, lab in n.succ:
            if succ is head:
                back.append(mod)
                continue
            old = IN.get(succ)
            new = mod if old is None else (old and mod)
            if old is None or new != old:
                IN[succ] = new
                work.append(succ)
    if back and all(back):
        return True, f"every back-edge path updates one of {sorted(cond_vars)[:6]}"
    if not back:
        return True, "loop body always leaves the loop (no back edge)"
    return False, f"some back-edge path leaves the condition variables {sorted(cond_vars)[:6]} untouched"


def _bounded_counter(fn: ast.AST, lp: ast.While, g: CFG, head: Node) -> str | None:
    """every back-edge path increments a local by a positive constant, and the loop leaves (break) when an
    expression derived from that local reaches a bound"""
    incs = [x for x in lp.body if isinstance(x, ast.AugAssign) and isinstance(x.op, ast.Add) and isinstance(x.target, ast.Name) and isinstance(x.value, ast.Constant) and isinstance(x.value.value, int) and x.value.value > 0]
    for inc in incs:
        v = inc.target.id
        i = lp.body.index(inc)
        if any(isinstance(x, ast.Continue) for prev in lp.body[:i] for x in ast.walk(prev)):
            continue
        derived = {v}
        for st in lp.body:
            if isinstance(st, ast.Assign) and len(st.targets) == 1 and isinstance(st.targets[0], ast.Name) and any(isinstance(x, ast.Name) and x.id in derived for x in ast.walk(st.value)):
                derived.add(st.targets[0].id)
        for st in ast.walk(lp):
            if isinstance(st, ast.If) and isinstance(st.test, ast.Compare) and len(st.test.ops) == 1 and isinstance(st.test.ops[0], (ast.Lt, ast.LtE, ast.Gt, ast.GtE)):
                names = {x.id for x in ast.walk(st.test) if isinstance(x, ast.Name)}
                if names & derived and (any(isinstance(x, ast.Break) for b in st.orelse for x in ast.walk(b)) or any(isinstance(x, ast.Break) for b in st.body for x in ast.walk(b))):
                    return f"counter `{v}` grows by {inc.value.value} on every iteration and the loop breaks on the bound test `{norm(st.test)}`"
    return None


def _tokenizer_loop_ok(m: Module, fn: ast.AST, lp: ast.While) -> tuple[bool, str]:
    g = CFG(fn)
    head = next((h for h in g.loop_heads if h.ast is lp), None)
    if head is None:
        return False, "loop head not found"
    # progress events: self._advance(...), writes to self._current, increments of a local cursor alias, calls to scanners that advance
    IN: dict[Node, bool] = {head: False}
    work = [head]
    back: list[tuple[Node, bool]] = []
    aliases = {st.targets[0].id for st in walk_no_nested(fn) if isinstance(st, ast.Assign) and len(st.targets) == 1 and isinstance(st.targets[0], ast.Name) and is_self_attr(st.value, "_current")}
    aliases |= {"i", "pos", "current", "_current"}
    # local cursors derived from the offset (e.g. `end = self._current + 1`, advanced by `end += 1`)
    aliases |= {
        st.targets[0].id for st in walk_no_nested(fn)
        if isinstance(st, ast.Assign) and len(st.targets) == 1 and isinstance(st.targets[0], ast.Name) and any(is_self_attr(x, "_current") for x in ast.walk(st.value))
    }

    def progresses(n: Node, lab) -> bool:
        if n.ast is None or n.kind not in ("stmt", "cond", "with"):
            return False
        for x in ast.walk(n.ast):
            if isinstance(x, ast.Call):
                cn = call_name(x) or ""
                if cn in ("self._advance",) and not (x.args and isinstance(x.args[0], ast.Constant) and x.args[0].value == 0):
                    return True
                if cn.startswith("self._scan") or cn.startswith("self._extract") or cn in ("self._add",) and False:
                    return True
            if isinstance(x, ast.AugAssign) and isinstance(x.op, ast.Add) and (is_self_attr(x.target, "_current") or (isinstance(x.target, ast.Name) and x.target.id in aliases)):
                return True
            if isinstance(x, ast.Assign) and any(is_self_attr(t, "_current") for t in x.targets):
                return True
        return False

    while work:
        n = work.pop()
        s = IN[n]
        for succ, lab in n.succ:
            out = s or progresses(n, lab)
            if succ is head:
                back.append((n, out))
                continue
            old = IN.get(succ)
            new = out if old is None else (old and out)
            if old is None or new != old:
                IN[succ] = new
                work.append(succ)
    if not back:
        return True, "no back edge"
    if all(b for _, b in back):
        return True, "every back-edge path advances the scanner (self._advance / _current += k / nested scanner)"
    cursor_attrs = ("_end", "_peek", "_char", "_current")
    tainted = {
        st.targets[0].id for st in walk_no_nested(fn)
        if isinstance(st, ast.Assign) and len(st.targets) == 1 and isinstance(st.targets[0], ast.Name) and any(is_self_attr(x) and x.attr in cursor_attrs for x in ast.walk(st.value))
    }
    cond_reads_scanner = not isinstance(lp.test, ast.Constant) and any(
        (is_self_attr(x) and x.attr in cursor_attrs) or (isinstance(x, ast.Name) and x.id in tainted) for x in ast.walk(lp.test)
    )
    if not cond_reads_scanner:
        ok, why = _structural_variant(m, fn, lp, g, head, self_calls_count=True)
        if ok:
            return True, why
    bc = _bounded_counter(fn, lp, g, head)
    if bc:
        return True, bc
    n0 = next(n for n, b in back if not b)
    return False, f"back edge from line {n0.lineno} without advancing"


# ------------------------------------------------------------------------------------------ C05.b


def rule_b(ctx: Ctx) -> None:
    ctx.rule(
        "C05.b",
        "cursor discipline: _retreat(v) targets are locals saved from self._index; relative backward moves by k are dominated by >= k consumed tokens "
        "(or credited by table dispatch after a match); _try_parse restores the index in finally",
    )
    model = _model(ctx)
    n_abs = n_rel = 0
    # which methods are only referenced from parser tables (lambdas / values in class-level dict displays)?
    direct_calls: dict[str, int] = {}
    table_refs: dict[str, int] = {}
    direct_sites: dict[str, list[tuple[Module, ast.Call]]] = {}
    for c in model.classes:
        m = c.module
        for call in m.of_type(ast.Call):
            cn = call_name(call) or ""
            if not cn and isinstance(call.func, ast.Attribute) and isinstance(call.func.value, ast.Call) and call_name(call.func.value) == "super":
                cn = "super()." + call.func.attr
            if cn.startswith("self.") or cn.startswith("super()."):
                name = cn.split(".")[-1]
                f = m.enclosing_func(call)
                # inside a lambda that is a value of a class-level table?
                p = m.parent(call)
                in_table = False
                while p is not None and not isinstance(p, (ast.FunctionDef, ast.ClassDef)):
                    if isinstance(p, ast.Lambda):
                        pp = m.parent(p)
                        if isinstance(pp, ast.Dict) and f is None:
                            in_table = True
                    p = m.parent(p)
                if in_table:
                    table_refs[name] = table_refs.get(name, 0) + 1
                elif cn.startswith("super().") and f is not None and f.name == name:
                    pass  # an override delegating to its parent runs in the caller's (dispatch) context
                else:
                    direct_calls[name] = direct_calls.get(name, 0) + 1
                    direct_sites.setdefault(name, []).append((m, call))

    _credit_cache: dict[str, int] = {}

    def dispatch_credit(name: str) -> int:
        """1 if every way of reaching method `name` has consumed a token just before: a parser-table lambda (invoked after a
        successful match on that table) or a direct call site reached with >= 1 token consumed in its caller"""
        if name in _credit_cache:
            return _credit_cache[name]
        _credit_cache[name] = 0
        if table_refs.get(name, 0) == 0 and not direct_sites.get(name):
            return 0
        for mm, call in direct_sites.get(name, []):
            f = mm.enclosing_func(call)
            if f is None:
                return 0
            gg = model.cfg(f.node)
            INN, _ = model.flow(gg, gg.entry, {})
            nodes = gg.nodes_for(call)
            if not nodes or min((INN[x][0] for x in nodes if x in INN), default=0) < 1:
                return 0
        _credit_cache[name] = 1
        return 1

    for c in model.classes:
        m = c.module
        for name, md in c.methods().items():
            where = f"{c.key}.{name}"
            calls = [x for x in ast.walk(md) if isinstance(x, ast.Call) and call_name(x) in ("self._retreat", "self._advance")]
            if not calls:
                continue
            g = None
            for call in calls:
                a = call.args[0] if call.args else None
                cn = call_name(call)
                rel_k = None
                if cn == "self._retreat":
                    if isinstance(a, ast.BinOp) and isinstance(a.op, ast.Sub) and norm(a.left) == "self._index" and isinstance(a.right, ast.Constant):
                        rel_k = a.right.value
                    elif isinstance(a, ast.BinOp) and isinstance(a.op, ast.Add) and norm(a.left) == "self._index":
                        ctx.fail(m, call, where, call, "_retreat to a position ahead of the cursor")
                        continue
                elif cn == "self._advance":
                    if isinstance(a, ast.UnaryOp) and isinstance(a.op, ast.USub) and isinstance(a.operand, ast.Constant):
                        rel_k = a.operand.value
                    else:
                        continue
                inst = f"{where}|{norm(call)}|L{call.lineno - md.lineno}"
                if rel_k is None:
                    n_abs += 1
                    # absolute: argument must be a local (possibly +/- const) saved from self._index in this or an enclosing function
                    base = a
                    if isinstance(a, ast.BinOp) and isinstance(a.op, (ast.Sub,)) and isinstance(a.right, ast.Constant):
                        base = a.left
                    if isinstance(a, ast.BinOp) and isinstance(a.op, ast.Add):
                        ctx.fail(m, call, where, call, f"_retreat({norm(a)}) moves to a computed *forward* position")
                        continue
                    if isinstance(base, ast.Name):
                        saved = [
                            st for st in ast.walk(md)
                            if isinstance(st, (ast.Assign, ast.AnnAssign, ast.NamedExpr))
                            and any(isinstance(t_, ast.Name) and t_.id == base.id for t_ in (st.targets if isinstance(st, ast.Assign) else [st.target]))
                        ]
                        okv = bool(saved) and all(
                            norm(st.value) == "self._index"
                            or (isinstance(st.value, ast.BinOp) and isinstance(st.value.op, ast.Sub) and norm(st.value.left) == "self._index" and isinstance(st.value.right, ast.Constant))
                            for st in saved
                        )
                        # parameter of the method (e.g. helper taking the saved index)
                        is_param = base.id in [x.arg for x in md.args.args]
                        back_k = a.right.value if isinstance(a, ast.BinOp) and isinstance(a.op, ast.Sub) and isinstance(a.right, ast.Constant) and isinstance(a.right.value, int) else 0
                        if okv and back_k > 0:
                            if g is None:
                                g = model.cfg(md)
                                locs = model.productive_locals(md)
                                IN, _ = model.flow(g, g.entry, locs)
                            saved_at = min((dict(IN[x][4]).get(base.id, 0) for x in g.nodes_for(call) if x in IN), default=0)
                            credit = dispatch_credit(name)
                            if saved_at + credit >= back_k:
                                ctx.ok(inst, {"retreat": norm(call), "in": where, "target": f"{base.id} := self._index, then {back_k} back", "consumed_before_save": saved_at, "dispatch_credit": credit})
                            else:
                                ctx.fail(m, call, where, call,
                                         f"retreats to {back_k} token(s) before the saved position `{base.id}`, but only {saved_at} token(s) (+{credit} dispatch credit) had been consumed "
                                         f"when it was saved: the cursor lands before the construct this method was asked to parse (a caller that also restores its own match "
                                         f"then retreats twice)")
                        elif okv:
                            ctx.ok(inst, {"retreat": norm(call), "in": where, "target": f"{base.id} := self._index"})
                        elif is_param and not saved:
                            ctx.ok(inst, {"retreat": norm(call), "in": where, "target": f"parameter {base.id} (saved by the caller)"})
                        elif (where, base.id) in REVIEWED_TARGETS:
                            ctx.ok(inst, {"retreat": norm(call), "in": where, "reviewed": REVIEWED_TARGETS[(where, base.id)]})
                        else:
                            ctx.fail(m, call, where, call, f"_retreat target `{base.id}` is not (only) a position saved from self._index: {[norm(s.value, 40) for s in saved][:3]}")
                    elif isinstance(base, ast.Attribute) and norm(base) == "self._index":
                        ctx.ok(inst, {"retreat": norm(call), "in": where, "target": "no-op"})
                    else:
                        ctx.fail(m, call, where, call, f"_retreat target {norm(a) if a is not None else '<none>'} is not a saved index")
                    continue
                n_rel += 1
                if g is None:
                    g = model.cfg(md)
                    locs = model.productive_locals(md)
                    IN, _ = model.flow(g, g.entry, locs)
                nodes = g.nodes_for(call)
                have = min((IN[x][0] for x in nodes if x in IN), default=0)
                # consumption inside the same statement before the call is not counted; dispatch credit:
                credit = dispatch_credit(name)
                prev_guard = False
                if rel_k == 1:
                    p_ = m.parent(call)
                    while p_ is not None and p_ is not md:
                        if isinstance(p_, ast.If) and any(
                            isinstance(x, ast.Compare) and isinstance(x.left, (ast.Attribute, ast.Call)) and norm(x.left).startswith("self._prev.") and isinstance(x.comparators[0], (ast.Constant, ast.Attribute))
                            for x in ast.walk(p_.test)
                        ):
                            prev_guard = True
                        p_ = m.parent(p_)
                if have + credit >= rel_k:
                    ctx.ok(inst, {"move": norm(call), "in": where, "needs": rel_k, "consumed_on_all_paths": have, "dispatch_credit": credit})
                elif prev_guard:
                    ctx.ok(inst, {"move": norm(call), "in": where, "needs": 1, "witness": "guarded by a test on self._prev (a real previous token exists, so index >= 1)"})
                elif (where, norm(call)) in REVIEWED_MOVES or (where, f"{norm(call)}@{call.lineno - md.lineno}") in REVIEWED_MOVES:
                    ctx.ok(inst, {"move": norm(call), "in": where, "reviewed": REVIEWED_MOVES.get((where, norm(call)))})
                else:
                    ctx.fail(m, call, where, call,
                             f"moves the cursor back by {rel_k} but only {have} consumed token(s) (+{credit} dispatch credit) are guaranteed on every path "
                             f"from the method entry: on other paths the cursor lands before the construct (or before token 0)")
    ctx.count("absolute_retreats", n_abs)
    ctx.count("relative_moves", n_rel)
    ctx.min_instances("absolute_retreats", n_abs, 60)
    ctx.min_instances("relative_moves", n_rel, 20)
    # _try_parse restores in finally when the result is falsy
    tp = ctx.repo.func("sqlglot.parser", "Parser._try_parse")
    tries = [t for t in walk_no_nested(tp.node) if isinstance(t, ast.Try)]
    ok = False
    saved_names = {st.targets[0].id for st in tp.node.body[:3] if isinstance(st, ast.Assign) and len(st.targets) == 1 and isinstance(st.targets[0], ast.Name) and norm(st.value) == "self._index"}
    for t in tries:
        for st in t.finalbody:
            if isinstance(st, ast.If) and "not this" in norm(st.test) and any(isinstance(x, ast.Call) and call_name(x) == "self._retreat" and x.args and norm(x.args[0]) in saved_names for x in ast.walk(st)):
                ok = True
    idx_saved = bool(saved_names)
    if ok and idx_saved:
        ctx.ok(f"{tp.key}|restores index in finally when the result is falsy")
    else:
        ctx.fail(tp.module, tp.node, tp.key, "finally: if not this or retreat: self._retreat(index)", "_try_parse no longer restores the saved index in `finally` for a failed speculative parse")


# (where, call) -> reason
REVIEWED_MOVES: dict[tuple[str, str], str] = {
    ("sqlglot.parsers.teradata:TeradataParser._parse_index_params", "self._retreat(self._index - 2)"):
        "guarded by this.args.get('on'), which the base _parse_index_params only sets after matching ON and parsing a table name (>= 2 tokens)",
}
# (where, retreat target) -> reason an absolute target that is not a plain saved index is still a past position
REVIEWED_TARGETS = {
    ("sqlglot.parsers.bigquery:BigQueryParser._parse_column_ops", "func_index"):
        "func_index = entry index + 1; the retreat is only executed when super()._parse_column_ops turned `this` into Dot(<x>, <Func>), "
        "which requires the DOT and the function tokens (>= 2) to have been consumed after entry, so func_index <= current index",
}
