"""placeholder, replaced below"""
def rule_a(ctx): pass
def rule_b(ctx): pass
