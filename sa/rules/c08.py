"""C08 – Syntax trees stay structurally consistent under any sequence of edits.

The invariant (parent / arg_key / index agree with storage, single residence, cached hash
correct) is maintained by a handful of primitives in expressions/core.py (+ serde.load).
It holds for all histories iff nothing else writes the representation:

  C08.a  who-may-write: outside the primitives nobody assigns X.args[k] / X.parent /
         X.arg_key / X.index / X._hash or raw-mutates a child list (alias-tracked).
  C08.b  the primitives invalidate cached hashes up the parent chain before they write.
  C08.c  single residence of shared nodes: a module-/class-level Expr instance is never
         embedded into a tree without .copy().
  C08.d  __deepcopy__ copies _hash only next to a structurally identical copy of args.
  C08.e  the same argument nodes are never embedded twice on one path without a copy.
  C08.f  leaf classes (is_primitive) are never constructed with a child node.
  C08.g  nodes looked up in a local dict are copied before they are embedded (typed lint).
  C08.h  list arguments of nodes are flat (no list of lists; typed lint).
Does not decide: index arithmetic inside set(index=...), hash collisions.
"""

from __future__ import annotations

import ast

from ..core import AnalysisError, Ctx, Func, Module, call_name, dotted, is_self_attr, norm, walk_no_nested
from ..facts import facts

CORE = "sqlglot.expressions.core"
PRIMITIVES = {
    f"{CORE}:Expr.__init__", f"{CORE}:Expression.__init__", f"{CORE}:Expression._set_parent",
    f"{CORE}:Expression.set", f"{CORE}:Expression.append", f"{CORE}:Expression.replace",
    f"{CORE}:Expression.pop", f"{CORE}:Expression.__deepcopy__", f"{CORE}:Expression.__hash__",
    "sqlglot.serde:load", "sqlglot.serde:_load",
}
# modules whose tree edits act on the generator's private copy (C09 proves the copy): informational
PRIVATE_COPY_SCOPE = ("sqlglot.generator", "sqlglot.generators.", "sqlglot.transforms", "sqlglot.executor")

LIST_MUTATORS = {"append", "extend", "insert", "remove", "pop", "sort", "reverse", "clear"}

# reviewed exceptions: (module:qualname, normalised statement) -> reason
REVIEWED = {
    ("sqlglot.optimizer.simplify:Simplifier._simplify", "original.args.pop(k)"):
        "pointer repair documented in place: only keys whose value is None are dropped; None never contributes to __hash__, so cached hashes stay correct",
    ("sqlglot.optimizer.simplify:Simplifier._simplify", "node.parent = parent"):
        "re-links the post-order result to the parent recorded when the node was visited; values unchanged, actual replacement goes through replace()",
    ("sqlglot.parser:Parser._parse_table_parts", "table.args['this'] += '*'"):
        "string leaf of an Identifier returned fresh by _parse_table_part in the same function: no parent pointer involved and the parser never hashes nodes, so no cached hash can exist",
    ("sqlglot.parser:Parser._parse_unnest", "offset = columns.pop()"):
        "pops the *last* element (sibling indexes unaffected) and re-embeds it through the exp.Unnest(...) constructor, which re-links it; the parser never hashes nodes",
}


def _in_private_scope(m: Module) -> bool:
    return m.name == "sqlglot.generator" or m.name.startswith(PRIVATE_COPY_SCOPE)


def _expr_class_names(ctx: Ctx) -> set[str]:
    return set(facts(ctx.repo)["expr_classes"]) | {"Expr", "Expression"}


def _enclosing_is_expr_class(ctx: Ctx, m: Module, node: ast.AST, names: set[str]) -> bool:
    c = m.enclosing_class(node)
    if c is None:
        return False
    return any(x.name in names for x in ctx.repo.mro(c))


def _fresh_locals(f: Func | None) -> set[str]:
    """Locals bound (only) from constructor calls `exp.X(...)` / `X(...)` with CamelCase callee."""
    out: set[str] = set()
    if f is None:
        return out
    for st in walk_no_nested(f.node):
        if isinstance(st, ast.Assign) and len(st.targets) == 1 and isinstance(st.targets[0], ast.Name) and isinstance(st.value, ast.Call):
            cn = (call_name(st.value) or "").split(".")[-1]
            if cn[:1].isupper():
                out.add(st.targets[0].id)
    return out


def _resets_only_previously_unhashed(m: Module, f: Func | None, st: ast.stmt, target: ast.Attribute) -> bool:
    """`for node in <coll>: node._hash = None` where <coll> is a local built by filtering on `._hash is None`"""
    p = m.parent(st)
    if not isinstance(p, ast.For) or f is None:
        return False
    if not (isinstance(target.value, ast.Name) and norm(p.target) == target.value.id and isinstance(p.iter, ast.Name)):
        return False
    coll = p.iter.id
    defs = [x.value for x in walk_no_nested(f.node) if isinstance(x, ast.Assign) and len(x.targets) == 1 and norm(x.targets[0]) == coll]
    if not defs:
        return False

    def filtered(e: ast.AST) -> bool:
        if isinstance(e, ast.IfExp):
            return all(filtered(b) or (isinstance(b, (ast.List, ast.Tuple)) and not b.elts) for b in (e.body, e.orelse))
        if isinstance(e, (ast.ListComp, ast.GeneratorExp)):
            return any("._hash is None" in norm(c) for g in e.generators for c in g.ifs)
        if isinstance(e, ast.Call) and e.args:
            return filtered(e.args[0])
        return False

    return all(filtered(d) for d in defs)


def rule_e(ctx: Ctx) -> None:
    ctx.rule(
        "C08.e",
        "single residence of arguments: within one function the same variable is not embedded twice (constructor argument, set/append, "
        "or a builder called with copy=False) on a common path without a copy",
    )
    from ..cfg import CFG

    names = _expr_class_names(ctx)
    n = 0
    for f in ctx.repo.all_funcs():
        m = f.module
        if m.name.startswith(("sqlglot.executor", "sqlglot.planner")):
            continue
        uses: dict[str, list[tuple[ast.AST, str]]] = {}
        for c in walk_no_nested(f.node):
            if not isinstance(c, ast.Call):
                continue
            cn = (call_name(c) or "").split(".")[-1]
            kw = next((k.value for k in c.keywords if k.arg == "copy"), None)
            copy_false = isinstance(kw, ast.Constant) and kw.value is False
            is_ctor = cn in names and cn[:1].isupper()
            is_set = isinstance(c.func, ast.Attribute) and ((c.func.attr == "set" and len(c.args) >= 2) or (c.func.attr == "append" and len(c.args) == 2))
            if not (copy_false or is_ctor or is_set):
                continue
            args = list(c.args[1:] if is_set else c.args) + [k.value for k in c.keywords if k.arg not in ("copy", "dialect", "append", "into", "prefix")]
            for a in args:
                v = a.value if isinstance(a, ast.Starred) else a
                # *[f(p) for p in xs] where f(p) can evaluate to p itself (bare p, `d.get(k, p)`, `p if .. else ..`): the elements of xs again
                if isinstance(a, ast.Starred) and isinstance(v, (ast.ListComp, ast.GeneratorExp)) and len(v.generators) == 1 and isinstance(v.generators[0].iter, ast.Name) \
                        and isinstance(v.generators[0].target, ast.Name):
                    el, pv = v.elt, v.generators[0].target.id
                    def may_be(e_: ast.AST) -> bool:
                        if isinstance(e_, ast.Name):
                            return e_.id == pv
                        if isinstance(e_, ast.IfExp):
                            # `p.copy() if isinstance(p, Expr) else p`: the un-copied arm only carries non-nodes
                            if isinstance(e_.test, ast.Call) and call_name(e_.test) == "isinstance" and e_.test.args and norm(e_.test.args[0]) == pv:
                                return may_be(e_.body)
                            return may_be(e_.body) or may_be(e_.orelse)
                        if isinstance(e_, ast.BoolOp):
                            return any(may_be(x_) for x_ in e_.values)
                        if isinstance(e_, ast.Call) and isinstance(e_.func, ast.Attribute) and e_.func.attr == "get" and len(e_.args) == 2:
                            return may_be(e_.args[1])
                        return False
                    if may_be(el):
                        how = f"{cn}(..., copy=False)" if copy_false else (f"new {cn}(...)" if is_ctor else f".{c.func.attr}(...)")
                        uses.setdefault(v.generators[0].iter.id, []).append((c, how + " [*unpacked]"))
                    continue
                if isinstance(v, ast.Name) and v.id not in ("self", "cls"):
                    how = f"{cn}(..., copy=False)" if copy_false else (f"new {cn}(...)" if is_ctor else f".{c.func.attr}(...)")
                    # a starred parameter tuple (`*expressions`) or a plain variable holding nodes
                    uses.setdefault(v.id, []).append((c, how + (" [*unpacked]" if isinstance(a, ast.Starred) else "")))
        # one embedding call inside a loop that does not rebind the variable runs once per iteration: the same nodes again
        for v, u in uses.items():
            for c, how in u:
                if "[*unpacked]" not in how:
                    continue
                p_ = m.parent(c)
                loop = None
                while p_ is not None and p_ is not f.node:
                    if isinstance(p_, (ast.For, ast.While)):
                        loop = p_
                        break
                    if isinstance(p_, (ast.FunctionDef, ast.Lambda, ast.ListComp, ast.GeneratorExp)):
                        break
                    p_ = m.parent(p_)
                if loop is None:
                    continue
                rebound = any(isinstance(x, ast.Name) and x.id == v and isinstance(x.ctx, ast.Store) for x in ast.walk(loop))
                n += 1
                if rebound:
                    ctx.ok(f"{f.key}|{v}|loop", {"function": f.key, "variable": v, "rebound_in_loop": True})
                else:
                    ctx.fail(m, c, f.key, f"*{v} embedded by {norm(c, 60)} on every iteration of the enclosing loop",
                             f"the nodes in `{v}` are embedded once per loop iteration without a copy ({how} at line {c.lineno}): one node ends up stored "
                             f"in several trees and its parent/arg_key/index describe only the last one")
        cands = {v: u for v, u in uses.items() if len(u) >= 2}
        if not cands:
            continue
        g = None
        for v, u in cands.items():
            # only variables that hold trees for certain: starred varargs of builders, or names bound from node-producing calls
            starred = [x for x in u if "[*unpacked]" in x[1]]
            if len(starred) < 2:
                continue
            n += 1
            if g is None:
                g = CFG(f.node)
            nodes = [(g.nodes_for(c), c, how) for c, how in starred]
            shared = None
            for i in range(len(nodes)):
                for j in range(len(nodes)):
                    if i == j or not nodes[i][0] or not nodes[j][0]:
                        continue
                    reach = g.reachable(nodes[i][0][0])
                    if nodes[j][0][0] is nodes[i][0][0]:
                        # two distinct calls evaluated by one statement (a chained builder): both run
                        if i < j and not any(isinstance(p_, ast.IfExp) for p_ in (m.parent(nodes[i][1]), m.parent(nodes[j][1]))):
                            shared = (nodes[i], nodes[j])
                    elif nodes[j][0][0] in reach:
                        shared = (nodes[i], nodes[j])
            # reassignment of v between the two uses is not tracked: such code is reported and triaged
            if shared:
                (_, c1, h1), (_, c2, h2) = shared
                ctx.fail(m, c2, f.key, f"*{v} embedded by {norm(c1, 60)} and again by {norm(c2, 60)}",
                         f"the nodes in `{v}` are embedded twice without a copy ({h1} at line {c1.lineno}, {h2} at line {c2.lineno}): one node ends up stored "
                         f"in two trees and its parent/arg_key/index describe only the last one")
            else:
                ctx.ok(f"{f.key}|{v}", {"function": f.key, "variable": v, "embedding_uses": len(starred), "on_common_path": False})
    ctx.count("multiply_embedded_candidates", n)


def rule_a(ctx: Ctx) -> None:
    ctx.rule(
        "C08.a",
        "who-may-write the tree representation: outside the primitives no assignment to X.args[k]/X.parent/X.arg_key/"
        "X.index/X._hash and no raw mutation of a child list (X.expressions, X.args[k], X.args.get(k) or a local alias)",
    )
    repo = ctx.repo
    names = _expr_class_names(ctx)
    n_sites = 0
    n_info = 0

    def report(m: Module, node: ast.AST, what: str) -> None:
        nonlocal n_sites, n_info
        f = m.enclosing_func(node)
        where = f.key if f else f"{m.name}:<module>"
        st = m.enclosing_stmt(node) or node
        n_sites += 1
        if where in PRIMITIVES:
            ctx.ok(f"{where}|{norm(st)}", None)
            return
        if (where, norm(st)) in REVIEWED:
            ctx.ok(f"{where}|{norm(st)}", {"site": where, "stmt": norm(st), "reviewed": REVIEWED[(where, norm(st))]})
            return
        if _in_private_scope(m):
            n_info += 1
            ctx.ok(f"{where}|{norm(st)}", None)
            return
        ctx.fail(m, node, where, st, what)

    for m in repo.modules.values():
        # (ii) pointer / hash attribute stores
        for n in m.of_type(ast.Attribute):
            if not isinstance(n.ctx, (ast.Store, ast.Del)) or n.attr not in ("parent", "arg_key", "index", "_hash", "args"):
                continue
            # non-Expr objects (Scope.parent, TableIter.index, ...): `self.<attr>` inside a class that is not an Expr
            if is_self_attr(n) and not _enclosing_is_expr_class(ctx, m, n, names):
                continue
            f = m.enclosing_func(n)
            st = m.enclosing_stmt(n) or n
            if n.attr == "_hash" and isinstance(st, ast.Assign):
                v = st.value
                recv = norm(n.value)
                if isinstance(v, ast.Call) and call_name(v) == "hash" and len(v.args) == 1 and norm(v.args[0]) == recv:
                    # sound: hash(x) is exactly the value __hash__ itself would cache (and it caches all descendants)
                    n_sites += 1
                    ctx.ok(f"{f.key if f else m.name}|{norm(st)}", {"stmt": norm(st), "why": "_hash := hash(same node)"})
                    continue
                if isinstance(v, ast.Constant) and v.value is None and (f is None or f.key not in PRIMITIVES):
                    # `_hash = None` is NOT unconditionally sound: Expression.set stops its upward invalidation walk at the
                    # first unhashed node, so an unhashed node must never sit below a hashed ancestor. Outside the primitives a
                    # reset is accepted only for nodes recorded as unhashed *before* hashes were cached on them.
                    n_sites += 1
                    where_ = f.key if f else m.name
                    if _resets_only_previously_unhashed(m, f, st, n):
                        ctx.ok(f"{where_}|{norm(st)}", {"stmt": norm(st), "why": "resets only nodes collected as `_hash is None` before caching"})
                    else:
                        ctx.fail(m, n, where_, st,
                                 "resets a cached hash to None outside set/append: if the node has a hashed ancestor, a later edit below it no longer "
                                 "invalidates that ancestor (set() stops its upward walk at the first unhashed node), so cached hashes go stale")
                    continue
            if n.attr == "parent" and isinstance(n.value, ast.Name) and n.value.id in _fresh_locals(f) and isinstance(st, ast.Assign):
                n_sites += 1
                ctx.ok(f"{f.key if f else m.name}|{norm(st)}", {"stmt": norm(st), "why": "node constructed in this function (fresh, not yet stored)"})
                continue
            report(m, n, f"direct store to .{n.attr} bypasses set/append/replace: links or cached hashes can go stale")
        # (i) args item stores / args mutators
        for n in m.of_type(ast.Subscript):
            if isinstance(n.ctx, (ast.Store, ast.Del)) and isinstance(n.value, ast.Attribute) and n.value.attr == "args":
                f = m.enclosing_func(n)
                st = m.enclosing_stmt(n) or n
                # Expr-subclass constructor idiom: self.args[k] = v; self._set_parent(k, v)
                if f is not None and f.name == "__init__" and is_self_attr(n.value) and _enclosing_is_expr_class(ctx, m, n, names):
                    k = norm(n.slice)
                    relinked = any(
                        isinstance(c, ast.Call) and call_name(c) == "self._set_parent" and c.args and norm(c.args[0]) == k
                        for c in walk_no_nested(f.node)
                    )
                    if relinked:
                        n_sites += 1
                        ctx.ok(f"{f.key}|{norm(st)}", {"stmt": norm(st), "why": "constructor of a fresh node, followed by _set_parent for the same key"})
                        continue
                report(m, n, "item store into X.args bypasses set(): no parent link, no hash invalidation")
        for n in m.of_type(ast.Call):
            if isinstance(n.func, ast.Attribute) and n.func.attr in ("pop", "update", "setdefault", "clear", "popitem") and isinstance(n.func.value, ast.Attribute) and n.func.value.attr == "args":
                report(m, n, f"X.args.{n.func.attr}() bypasses set(): no hash invalidation")

    # (iii) raw child-list mutation with alias tracking
    def childlist(e: ast.AST) -> str | None:
        """'sure' if e certainly denotes a child list, 'maybe' if it may denote a list or a node."""
        if isinstance(e, ast.Attribute) and e.attr == "expressions":
            return "sure"
        if isinstance(e, ast.Subscript) and isinstance(e.value, ast.Attribute) and e.value.attr == "args" and isinstance(e.ctx, ast.Load):
            return "maybe"
        if isinstance(e, ast.Call) and isinstance(e.func, ast.Attribute) and e.func.attr == "get" and isinstance(e.func.value, ast.Attribute) and e.func.value.attr == "args":
            if len(e.args) == 2 and isinstance(e.args[1], ast.List):
                return "sure"
            return "maybe"
        if isinstance(e, ast.BoolOp) and isinstance(e.op, ast.Or) and childlist(e.values[0]) and isinstance(e.values[-1], ast.List):
            return "sure"
        if isinstance(e, ast.NamedExpr):
            return childlist(e.value)
        return None

    for f in repo.all_funcs():
        m = f.module
        aliases: dict[str, str] = {}
        for st in walk_no_nested(f.node):
            tv = None
            if isinstance(st, ast.Assign) and len(st.targets) == 1 and isinstance(st.targets[0], ast.Name):
                tv = (st.targets[0].id, st.value)
            elif isinstance(st, ast.NamedExpr) and isinstance(st.target, ast.Name):
                tv = (st.target.id, st.value)
            elif isinstance(st, ast.AnnAssign) and isinstance(st.target, ast.Name) and st.value is not None:
                tv = (st.target.id, st.value)
            if tv:
                k = childlist(tv[1])
                if k:
                    aliases[tv[0]] = k if aliases.get(tv[0], k) == k else "maybe"
        relinks = [
            c for c in walk_no_nested(f.node)
            if isinstance(c, ast.Call) and isinstance(c.func, ast.Attribute) and c.func.attr == "set" and len(c.args) >= 2
        ]

        def relinked(name: str) -> bool:
            return any(isinstance(c.args[1], ast.Name) and c.args[1].id == name for c in relinks)

        for n in walk_no_nested(f.node):
            recv = None
            how = None
            if isinstance(n, ast.Call) and isinstance(n.func, ast.Attribute) and n.func.attr in LIST_MUTATORS:
                recv, how = n.func.value, n.func.attr
                if how == "append" and len(n.args) == 2:
                    continue  # Expression.append(key, value)
            elif isinstance(n, ast.Subscript) and isinstance(n.ctx, (ast.Store, ast.Del)):
                recv, how = n.value, "item/slice store"
            elif isinstance(n, ast.AugAssign):
                recv, how = n.target, "augmented assignment"
            if recv is None:
                continue
            kind = childlist(recv)
            alias_name = None
            if kind is None and isinstance(recv, ast.Name) and recv.id in aliases:
                kind = aliases[recv.id]
                alias_name = recv.id
            if kind is None:
                continue
            # `.pop()` without arguments on a 'maybe' receiver is Expression.pop() (a primitive) unless the alias is surely a list
            if how == "pop" and isinstance(n, ast.Call) and not n.args and kind == "maybe":
                continue
            if how in ("item/slice store",) and kind == "maybe" and alias_name is None and isinstance(recv, ast.Subscript):
                continue  # X.args[k][i] = ... is not used; X.args[k] = v handled above
            if how == "augmented assignment" and kind == "maybe":
                st = m.enclosing_stmt(n) or n
                if (f.key, norm(st)) not in REVIEWED and not isinstance(n.target, ast.Name):
                    pass
                if isinstance(n.target, ast.Name):
                    continue  # rebinding a local (sec += ...) is not a list mutation
            if alias_name and relinked(alias_name):
                n_sites += 1
                ctx.ok(f"{f.key}|{norm(m.enclosing_stmt(n) or n)}", {"stmt": norm(m.enclosing_stmt(n) or n), "why": f"list re-linked afterwards via .set(key, {alias_name})"})
                continue
            if isinstance(n, ast.Subscript) and isinstance(n.value, ast.Attribute) and n.value.attr == "args":
                continue  # handled in (i)
            report(m, n, f"raw list {how} on a child list ({norm(recv)}): moved/inserted nodes get no parent/arg_key/index and siblings keep stale indexes")

    ctx.count("representation_write_sites", n_sites)
    ctx.count("private_copy_scope_sites_informational", n_info)
    ctx.min_instances("representation_write_sites", n_sites, 40)


def rule_b(ctx: Ctx) -> None:
    ctx.rule("C08.b", "Expression.set / Expression.append run the upward `_hash = None` walk before their first write to the representation")
    for name in ("set", "append"):
        f = ctx.repo.func(CORE, f"Expression.{name}")
        body = f.node.body
        loop_idx = None
        for i, st in enumerate(body):
            if isinstance(st, ast.While):
                has_reset = any(isinstance(x, ast.Assign) and isinstance(x.targets[0], ast.Attribute) and x.targets[0].attr == "_hash" and isinstance(x.value, ast.Constant) and x.value.value is None for x in st.body)
                climbs = any(isinstance(x, ast.Assign) and isinstance(x.value, ast.Attribute) and x.value.attr == "parent" for x in st.body)
                tests_hash = any(isinstance(x, ast.Attribute) and x.attr == "_hash" for x in ast.walk(st.test))
                if has_reset and climbs and tests_hash:
                    # the walking variable must start at self
                    var = st.body[0].targets[0].value.id if isinstance(st.body[0].targets[0].value, ast.Name) else None
                    init = any(
                        isinstance(p, (ast.Assign, ast.AnnAssign)) and norm(p.value) == "self" and norm(p.target if isinstance(p, ast.AnnAssign) else p.targets[0]) == var
                        for p in body[:i]
                    )
                    if init:
                        loop_idx = i
                        break
        if loop_idx is None:
            ctx.fail(f.module, f.node, f.key, f"{name}: upward invalidation loop",
                     f"Expression.{name} no longer starts with `node = self; while node and node._hash is not None: node._hash = None; node = node.parent`")
            continue
        first_write = None
        for i, st in enumerate(body):
            writes = any(
                (isinstance(x, ast.Subscript) and isinstance(x.ctx, (ast.Store, ast.Del)))
                or (isinstance(x, ast.Call) and isinstance(x.func, ast.Attribute) and x.func.attr in LIST_MUTATORS | {"_set_parent"} and not (x.func.attr == "get"))
                or (isinstance(x, ast.Attribute) and isinstance(x.ctx, ast.Store) and x.attr != "_hash")
                for x in ast.walk(st)
            )
            if writes and not (i == loop_idx):
                first_write = i
                break
        # the climb must not be cut short: loop condition must not test anything but node/_hash
        if first_write is not None and first_write < loop_idx:
            ctx.fail(f.module, body[first_write], f.key, body[first_write], f"Expression.{name} writes the representation before invalidating cached hashes")
        else:
            ctx.ok(f"{f.key}|invalidate-before-write", {"function": f.key, "loop_at_stmt": loop_idx, "first_write_stmt": first_write})
        # no early return between function entry and the loop
        early = [st for st in body[:loop_idx] if any(isinstance(x, ast.Return) for x in ast.walk(st))]
        if early:
            ctx.fail(f.module, early[0], f.key, early[0], "a return precedes the invalidation loop")
    # replace(): pointer resets happen only after the parent.set(...) call, guarded by `expression is not self`
    f = ctx.repo.func(CORE, "Expression.replace")
    sets = [c for c in walk_no_nested(f.node) if isinstance(c, ast.Call) and call_name(c) == "parent.set"]
    if sets and all(len(c.args) >= 3 or any(kw.arg == "index" for kw in c.keywords) for c in sets):
        ctx.ok(f"{f.key}|delegates to parent.set(key, expression, self.index)")
    else:
        ctx.fail(f.module, f.node, f.key, "replace -> parent.set(key, expression, index)", "Expression.replace must re-link through parent.set with the node's index")
    # ... and the reset of self's own links afterwards must spare a node that is an element of its own replacement list
    resets = [st for st in walk_no_nested(f.node) if isinstance(st, ast.If) and any(norm(x) == "self.parent = None" for x in st.body)]
    ctx.require(len(resets) == 1, "anchor vanished: Expression.replace no longer clears self.parent under one guard")
    guard = resets[0].test
    mentions_identity = "expression is not self" in norm(guard, 400)
    handles_list = any(isinstance(x, ast.Compare) and isinstance(x.ops[0], ast.Is) and norm(x.comparators[0]) == "self" for x in ast.walk(guard)) or " in expression" in norm(guard, 400)
    if mentions_identity and handles_list:
        ctx.ok(f"{f.key}|links cleared unless the node is (in) its own replacement", {"guard": norm(guard, 120)})
    elif mentions_identity:
        ctx.fail(f.module, resets[0], f.key, f"if {norm(guard, 80)}: self.parent = None",
                 "replace() clears the node's links whenever the replacement is not the node itself — also when the replacement is a list that contains the node "
                 "(node.replace([node, other])): the node stays stored in the parent but records parent=None")
    else:
        ctx.ok(f"{f.key}|guard form not recognised", {"decided": False})
    p = ctx.repo.func(CORE, "Expression.pop")
    if any(isinstance(c, ast.Call) and call_name(c) == "self.replace" for c in walk_no_nested(p.node)):
        ctx.ok(f"{p.key}|delegates to replace(None)")
    else:
        ctx.fail(p.module, p.node, p.key, "pop -> replace", "Expression.pop must delegate to replace(None)")


def rule_c(ctx: Ctx) -> None:
    ctx.rule(
        "C08.c",
        "single residence: every reference to a module-/class-level Expr instance (S2 inventory) is a read, a comparison, a .copy(), "
        "or an argument of a copying consumer — never an embedding (constructor argument, set/append, list element, return value)",
    )
    repo = ctx.repo
    fx = facts(repo)
    inv = fx["shared_exprs"]
    ctx.count("shared_expr_objects", len(inv))
    ctx.min_instances("shared_expr_objects", len(inv), 20)
    attr_names: dict[str, str] = {}
    global_names: dict[tuple[str, str], str] = {}
    skipped = 0
    for s in inv:
        mod, _, rest = s["path"].partition(":")
        if "[" in rest:
            skipped += 1  # element of a table (dynamic lookup); see notes
            continue
        if "." in rest:
            attr_names[rest.rsplit(".", 1)[1]] = s["path"]
        else:
            global_names[(mod, rest)] = s["path"]
    ctx.count("table_elements_not_tracked", skipped)

    COPYING_CONSUMERS = {"replace_placeholders"}  # -> Expression.transform(copy=True)

    def safe_param(fn: Func, pname: str, depth: int = 2) -> bool:
        for n in walk_no_nested(fn.node):
            if isinstance(n, ast.Name) and n.id == pname and isinstance(n.ctx, ast.Load):
                if not classify(fn.module, n, depth - 1)[0]:
                    return False
        return True

    def classify(m: Module, ref: ast.AST, depth: int = 2) -> tuple[bool, str]:
        p = m.parent(ref)
        # X.copy()
        if isinstance(p, ast.Attribute) and p.value is ref:
            pp = m.parent(p)
            if p.attr == "copy" and isinstance(pp, ast.Call):
                return True, "copied"
            if isinstance(pp, ast.Call) and pp.func is p and p.attr in ("set", "append", "replace", "pop", "set_kwargs", "add_comments", "transform"):
                if p.attr == "transform" and not any(kw.arg == "copy" and isinstance(kw.value, ast.Constant) and kw.value.value is False for kw in pp.keywords):
                    return True, "transform(copy=True)"
                return False, f"mutating method .{p.attr}() on the shared node"
            return True, f"attribute read .{p.attr}"
        if isinstance(p, ast.Compare):
            return True, "comparison"
        if isinstance(p, (ast.Tuple, ast.List, ast.Set)):
            pp = m.parent(p)
            if isinstance(pp, ast.Compare):
                return True, "membership test"
            return False, "element of a list/tuple (embedded)"
        if isinstance(p, ast.keyword):
            call = m.parent(p)
            cn = (call_name(call) or "").split(".")[-1] if isinstance(call, ast.Call) else ""
            if cn in COPYING_CONSUMERS:
                return True, f"argument of {cn}"
            if cn[:1].isupper():
                return False, f"constructor keyword {p.arg}= of {cn}(...) embeds the shared node"
            return False, f"keyword argument {p.arg}= of {cn or '?'}(...)"
        if isinstance(p, ast.Call) and ref in p.args:
            cn_full = call_name(p) or ""
            cn = cn_full.split(".")[-1]
            if cn in COPYING_CONSUMERS and p.args[0] is ref:
                return True, f"argument of {cn} (transform copy=True)"
            if cn in ("isinstance", "id", "hash", "str", "repr", "bool"):
                return True, f"{cn}()"
            if cn == "sql":
                return True, "generated (Generator.sql does not embed)"
            if cn[:1].isupper():
                return False, f"positional constructor argument of {cn}(...)"
            # resolve callee summary
            if depth > 0:
                target = None
                if cn_full.startswith("self."):
                    c = m.enclosing_class(ref)
                    if c is not None:
                        r = repo.lookup_method(c, cn)
                        if r:
                            target = r[0].module.funcs.get(f"{r[0].qualname}.{cn}")
                            off = 1
                else:
                    rr = repo.resolve_name(m, cn_full)
                    if rr and rr[1] in rr[0].funcs:
                        target = rr[0].funcs[rr[1]]
                        off = 0
                if target is not None:
                    idx = p.args.index(ref) + off
                    params = target.params
                    if idx < len(params) and safe_param(target, params[idx], depth):
                        return True, f"argument of {target.key} whose parameter {params[idx]} is only read/copied"
            return False, f"argument of {cn_full or '?'}(...) (callee may embed or mutate it)"
        if isinstance(p, ast.Return):
            return False, "returned (caller embeds it)"
        if isinstance(p, (ast.Assign, ast.AnnAssign)):
            # alias at class/module level (e.g. SEQ_UNSIGNED = _SEQ_UNSIGNED) or local alias: follow the local
            tg = p.targets[0] if isinstance(p, ast.Assign) else p.target
            f = m.enclosing_func(ref)
            if isinstance(tg, ast.Name) and f is not None:
                for n in walk_no_nested(f.node):
                    if isinstance(n, ast.Name) and n.id == tg.id and isinstance(n.ctx, ast.Load):
                        ok, why = classify(m, n, depth)
                        if not ok:
                            return False, f"via local {tg.id}: {why}"
                return True, f"bound to local {tg.id} (all uses safe)"
            return True, "class/module-level alias"
        if isinstance(p, ast.BinOp):
            return True, "operator (Expr._binop copies both operands)"
        if isinstance(p, (ast.If, ast.While, ast.BoolOp, ast.UnaryOp, ast.IfExp)) and getattr(p, "test", None) is ref:
            return True, "truth test"
        if isinstance(p, ast.IfExp) or isinstance(p, ast.BoolOp):
            return classify(m, p, depth)
        if isinstance(p, ast.Starred):
            return False, "unpacked into a call"
        if isinstance(p, ast.FormattedValue) or isinstance(p, ast.JoinedStr):
            return True, "formatted"
        return False, f"unrecognised context {type(p).__name__}"

    n_refs = 0
    for m in repo.modules.values():
        refs: list[tuple[ast.AST, str]] = []
        for n in m.of_type(ast.Attribute):
            if n.attr in attr_names and isinstance(n.ctx, ast.Load) and n.attr.isupper():
                refs.append((n, attr_names[n.attr]))
        for n in m.of_type(ast.Name):
            if not isinstance(n.ctx, ast.Load):
                continue
            key = (m.name, n.id)
            if key in global_names:
                refs.append((n, global_names[key]))
            else:
                imp = m.imports.get(n.id, "")
                if imp and (imp.rsplit(".", 1)[0], imp.rsplit(".", 1)[-1]) in global_names:
                    refs.append((n, global_names[(imp.rsplit(".", 1)[0], imp.rsplit(".", 1)[-1])]))
        for ref, path in refs:
            n_refs += 1
            ok, why = classify(m, ref)
            f = m.enclosing_func(ref)
            where = f.key if f else f"{m.name}:<module/class body>"
            st = m.enclosing_stmt(ref) or ref
            inst = f"{where}|{path}|{norm(st, 100)}"
            if ok:
                ctx.ok(inst, {"shared": path, "use": why, "at": where})
            elif _in_private_scope(m):
                ctx.ok(inst, None)
                ctx.info.append(f"C08.c informational (generator-private tree): {m.rel}:{ref.lineno} {path}: {why}")
            else:
                ctx.fail(m, ref, where, f"{path} in {norm(st, 100)}",
                         f"shared Expr instance {path} is embedded without .copy() ({why}): every tree built here shares one node, so a later "
                         f"call re-parents (and any edit changes) nodes of earlier results")
    ctx.count("references_classified", n_refs)
    ctx.min_instances("references_classified", n_refs, 40)


def rule_d(ctx: Ctx) -> None:
    ctx.rule("C08.d", "__deepcopy__ copies _hash only together with an unfiltered structural copy of args (every branch mirrors node.args)")
    f = ctx.repo.func(CORE, "Expression.__deepcopy__")
    loops = [n for n in walk_no_nested(f.node) if isinstance(n, ast.For) and norm(n.iter) in ("node.args.items()",)]
    if len(loops) != 1:
        ctx.fail(f.module, f.node, f.key, "for k, vs in node.args.items()", "__deepcopy__ no longer iterates node.args.items() exactly once")
        return
    loop = loops[0]
    # every path through the loop body must store under key k: copy.set(k, ..) / copy.args[k] = .. / copy.append(k, ..)
    def stores(stmts: list[ast.stmt]) -> bool:
        for st in stmts:
            if isinstance(st, ast.If):
                if st.orelse and stores(st.body) and stores(st.orelse):
                    return True
                continue
            for x in ast.walk(st):
                if isinstance(x, ast.Call) and call_name(x) in ("copy.set", "copy.append") and x.args and norm(x.args[0]) == "k":
                    return True
                if isinstance(x, ast.Subscript) and isinstance(x.ctx, ast.Store) and norm(x.value) == "copy.args" and norm(x.slice) == "k":
                    return True
        return False

    # the cached hash is carried over before the children are attached: attaching them through set / append resets it again on every inner node, which keeps
    # "a hashed node has only hashed descendants" (the invariant the upward invalidation walk of set() relies on to stop early)
    m = f.module
    blk = m.parent(loop)
    seq = next((getattr(blk, fld) for fld in ("body", "orelse") if isinstance(getattr(blk, fld, None), list) and loop in getattr(blk, fld)), [])
    before = seq[: seq.index(loop)] if loop in seq else []
    for x in walk_no_nested(f.node):
        if isinstance(x, ast.Attribute) and isinstance(x.ctx, ast.Store) and x.attr == "_hash":
            st = m.enclosing_stmt(x)
            top = st
            while top is not None and top not in seq and top is not f.node:
                top = m.parent(top)
            if top in before and isinstance(st, ast.Assign) and norm(st.targets[0]) == "copy._hash" and norm(st.value) == "node._hash":
                ctx.ok(f"{f.key}|{norm(st)} before the children are attached")
            else:
                ctx.fail(m, x, f.key, st, f"`{norm(st)}` stores a cached hash in __deepcopy__ outside the per-node carry-over that precedes attaching the children: a node whose children were "
                                          f"attached through set / append has unhashed descendants, and a hash on it is never invalidated by later edits below it (set() stops climbing at the first unhashed ancestor)")
    if stores(loop.body):
        ctx.ok(f"{f.key}|every branch stores args[k]")
    else:
        ctx.fail(f.module, loop, f.key, loop.body[0], "__deepcopy__ has a path that drops an argument while still copying the cached _hash")
    skips = [n for n in ast.walk(loop) if isinstance(n, ast.Continue)]
    if skips:
        ctx.fail(f.module, skips[0], f.key, skips[0], "__deepcopy__ skips arguments (continue) while copying the cached _hash")
    else:
        ctx.ok(f"{f.key}|no filtering of args")
    # inner list loop: every element appended
    for inner in [n for n in ast.walk(loop) if isinstance(n, ast.For) and n is not loop]:
        if stores(inner.body):
            ctx.ok(f"{f.key}|list elements all appended")
        else:
            ctx.fail(f.module, inner, f.key, inner.body[0], "__deepcopy__ drops list elements while copying the cached _hash")


def _value_leaves(node: ast.AST) -> list[ast.AST]:
    """Sub-expressions whose value the expression may evaluate to (through and/or, ternaries, walrus)."""
    if isinstance(node, ast.BoolOp):
        return [x for v in node.values for x in _value_leaves(v)]
    if isinstance(node, ast.IfExp):
        return _value_leaves(node.body) + _value_leaves(node.orelse)
    if isinstance(node, ast.NamedExpr):
        return _value_leaves(node.value)
    return [node]


def rule_f(ctx: Ctx) -> None:
    ctx.rule("C08.f", "leaf classes (is_primitive = True: Expr.__init__ skips _set_parent, the parser skips validation) are never constructed with a child node: every keyword value at every construction site is a non-node value")
    repo = ctx.repo
    names = _expr_class_names(ctx)
    prim: dict[str, str] = {}
    for c in repo.all_classes():
        if not c.module.name.startswith("sqlglot.expressions"):
            continue
        for a in repo.mro(c):
            v = [st.value for st in a.node.body if isinstance(st, (ast.Assign, ast.AnnAssign)) and st.value is not None
                 and any(isinstance(t_, ast.Name) and t_.id == "is_primitive" for t_ in (st.targets if isinstance(st, ast.Assign) else [st.target]))]
            if v:
                if isinstance(v[0], ast.Constant) and v[0].value is True:
                    prim[c.name] = c.key
                break
    ctx.count("primitive_classes", len(prim))
    ctx.min_instances("primitive_classes", len(prim), 8)

    def returns_node(m: Module, call: ast.Call) -> str | None:
        cn = call_name(call) or ""
        last = cn.split(".")[-1]
        if last in names:
            return f"constructs {last}"
        md = None
        if cn.startswith("self.") and cn.count(".") == 1:
            k = m.enclosing_class(call)
            r = repo.lookup_method(k, last) if k is not None else None
            md = r[1] if r else None
        elif cn:
            r2 = repo.resolve_name(m, cn)
            if r2 and r2[1] in r2[0].funcs:
                md = r2[0].funcs[r2[1]].node
        if md is None or md.returns is None:
            return None
        ann = ast.unparse(md.returns)
        for tok in ast.walk(md.returns):
            nm = tok.attr if isinstance(tok, ast.Attribute) else tok.id if isinstance(tok, ast.Name) else tok.value if isinstance(tok, ast.Constant) and isinstance(tok.value, str) else None
            if isinstance(nm, str) and any(part in names or part in ("E", "ExpOrStr") for part in nm.replace("|", " ").replace("[", " ").replace("]", " ").replace(".", " ").split()):
                return f"{cn}() returns {ann}"
        return None

    sites = 0
    for m in repo.modules.values():
        for call in m.of_type(ast.Call):
            cn = (call_name(call) or "").split(".")[-1]
            if cn not in prim or not call.keywords:
                continue
            r = repo.resolve_name(m, call_name(call) or "")
            if r is not None and f"{r[0].name}:{r[1]}" != prim[cn]:
                continue
            f = m.enclosing_func(call)
            where = f.key if f else f"{m.name}:<module>"
            for kw in call.keywords:
                if kw.arg is None:
                    continue
                sites += 1
                bad = None
                for leaf in _value_leaves(kw.value):
                    if isinstance(leaf, ast.Call):
                        bad = returns_node(m, leaf)
                    elif isinstance(leaf, (ast.List, ast.Tuple)) and any(isinstance(e, ast.Call) and returns_node(m, e) for e in leaf.elts):
                        bad = "list of nodes"
                    if bad:
                        break
                inst = f"{where}|{cn}({kw.arg}={norm(kw.value, 80)})"
                if bad:
                    ctx.fail(m, call, where, f"{cn}({kw.arg}={norm(kw.value, 80)})",
                             f"{cn} is a leaf class (is_primitive = True), so its constructor does not link children, yet argument '{kw.arg}' can hold a node ({bad}): "
                             f"that child is stored with parent=None/arg_key=None and replace()/pop()/root() on it misbehave")
                else:
                    ctx.ok(inst)
    ctx.count("constructor_keyword_sites", sites)
    ctx.min_instances("constructor_keyword_sites", sites, 40)


def rule_g(ctx: Ctx) -> None:
    ctx.rule("C08.g", "nodes taken out of a local lookup table are copied before they are embedded: a local bound only from `<dict>.get(..)` / `<dict>[..]` of a "
                      "dict-typed local and passed un-copied to set/append or to an expression constructor is the *same* node on every lookup of that key, so it ends "
                      "up stored under several parents")
    from ..typed import types

    T = types(ctx.repo)
    names = _expr_class_names(ctx)

    def maybe_node(ty: str | None) -> bool:
        if not ty:
            return True
        parts = [p.strip() for p in ty.replace("builtins.", "").split(" | ")]
        keep = [p for p in parts if p not in ("None", "bool", "Literal[False]", "Literal[True]")]
        return bool(keep) and all(p == "Any" or p.split(".")[-1].split("[")[0] in names for p in keep)

    n = 0
    for f in ctx.repo.all_funcs():
        m = f.module
        if m.name.startswith(("sqlglot.executor", "sqlglot.planner")) or _in_private_scope(m):
            continue
        defs: dict[str, list[ast.AST]] = {}
        for st in walk_no_nested(f.node):
            if isinstance(st, ast.Assign) and len(st.targets) == 1 and isinstance(st.targets[0], ast.Name):
                defs.setdefault(st.targets[0].id, []).append(st.value)
            elif isinstance(st, ast.NamedExpr) and isinstance(st.target, ast.Name):
                defs.setdefault(st.target.id, []).append(st.value)
        def lookup_source(d: ast.AST) -> str | None:
            src = d.func.value if isinstance(d, ast.Call) and isinstance(d.func, ast.Attribute) and d.func.attr == "get" else d.value if isinstance(d, ast.Subscript) else None
            if isinstance(src, ast.Name) and (T.of(m, src) or "").replace("builtins.", "").startswith(("dict[", "Dict[", "defaultdict[", "collections.defaultdict[")):
                return src.id
            return None

        def lookup_in(d: ast.AST) -> str | None:
            # the looked-up node may be one of several values of the binding: `tbl.get(k) or fresh(...)`, `tbl[k] if .. else ..`
            return next((s_ for s_ in (lookup_source(leaf) for leaf in _value_leaves(d)) if s_), None)

        if not any(lookup_in(d) for ds in defs.values() for d in ds):
            continue
        # local lists that become a child list of a node in this function: appending to them embeds
        embedded_lists: set[str] = set()
        for c in walk_no_nested(f.node):
            if isinstance(c, ast.Call):
                is_set_ = isinstance(c.func, ast.Attribute) and c.func.attr == "set" and len(c.args) >= 2
                cn_ = (call_name(c) or "").split(".")[-1]
                if is_set_ or (cn_ in names and cn_[:1].isupper()):
                    for a_ in ([c.args[1]] if is_set_ else list(c.args) + [k.value for k in c.keywords]):
                        if isinstance(a_, ast.Name) and (T.of(m, a_) or "").replace("builtins.", "").startswith("list["):
                            embedded_lists.add(a_.id)
        for c in walk_no_nested(f.node):
            if not isinstance(c, ast.Call):
                continue
            is_set = isinstance(c.func, ast.Attribute) and c.func.attr in ("set", "append") and len(c.args) >= 2
            is_list_add = isinstance(c.func, ast.Attribute) and c.func.attr == "append" and len(c.args) == 1 and isinstance(c.func.value, ast.Name) and c.func.value.id in embedded_lists
            cn = (call_name(c) or "").split(".")[-1]
            is_ctor = cn in names and cn[:1].isupper()
            cf_ = next((k.value for k in c.keywords if k.arg == "copy"), None)
            is_nocopy_builder = isinstance(cf_, ast.Constant) and cf_.value is False and not is_set
            vals = [c.args[1]] if is_set else [c.args[0]] if is_list_add else (list(c.args) + [k.value for k in c.keywords if k.arg != "copy"]) if (is_ctor or is_nocopy_builder) else []
            vals = [leaf for v_ in vals for leaf in _value_leaves(v_)]
            for v in vals:
                if not (isinstance(v, ast.Name) and v.id in defs):
                    continue
                # the binding that textually precedes the use most closely
                before = [d for d in defs[v.id] if d.lineno <= c.lineno]
                if not before:
                    continue
                last = max(before, key=lambda d: (d.lineno, d.col_offset))
                src_tbl = lookup_in(last)
                if src_tbl and maybe_node(T.of(m, v)):
                    looked_up = {v.id: src_tbl}
                    n += 1
                    ctx.fail(m, c, f.key, f"{norm(c, 70)} with {v.id} = {looked_up[v.id]}[...]",
                             f"`{v.id}` is looked up in the local table `{looked_up[v.id]}` and embedded without .copy(): every lookup of the same key embeds the same node "
                             f"again, so one node is stored under several parents and records only the last one")
    ctx.ok("package|nodes looked up in local tables are copied before embedding", {"uncopied_embeddings": n})
    ctx.count("functions_scanned", sum(1 for _ in ctx.repo.all_funcs()))
    ctx.min_instances("functions_scanned", sum(1 for _ in ctx.repo.all_funcs()), 2000)


def rule_h(ctx: Ctx) -> None:
    ctx.rule("C08.h", "arguments of expression nodes are flat: no constructor / set / append site passes a list whose static element type is itself a list or tuple — "
                      "Expr.__init__ / set only link the direct elements of a list, so nodes inside a nested list get no parent, and __hash__ raises TypeError on the inner list")
    from ..typed import types

    T = types(ctx.repo)
    names = _expr_class_names(ctx)
    n = 0
    for m in ctx.repo.modules.values():
        if m.name.startswith(("sqlglot.executor", "sqlglot.planner")):
            continue
        for c in m.of_type(ast.Call):
            cn = (call_name(c) or "").split(".")[-1]
            is_ctor = cn in names and cn[:1].isupper()
            is_set = isinstance(c.func, ast.Attribute) and c.func.attr in ("set", "append") and len(c.args) >= 2
            if not (is_ctor or is_set):
                continue
            vals = [(k.arg, k.value) for k in c.keywords if k.arg] if is_ctor else [(norm(c.args[0], 20), c.args[1])]
            for key, v in vals:
                ty = (T.of(m, v) or "").replace("builtins.", "")
                if not ty.startswith("list["):
                    continue
                n += 1
                inner = ty[5:]
                f = m.enclosing_func(c)
                where = f.key if f else m.name
                if inner.startswith(("list[", "tuple[", "List[", "Tuple[")):
                    ctx.fail(m, c, where, f"{cn}({key}=<{ty[:50]}>)",
                             f"argument `{key}` is a nested list ({ty[:60]}): the nodes inside the inner lists are not linked to the tree (parent/arg_key stay None) and hashing / "
                             f"comparing the node raises TypeError — wrap each inner list in a node (Tuple)")
    ctx.ok("package|every list-typed argument is flat", {"list_typed_arguments": n})
    ctx.count("list_typed_arguments", n)
    ctx.min_instances("list_typed_arguments", n, 300)


def rule_i(ctx: Ctx) -> None:
    ctx.rule("C08.i", "index maintenance in Expression.set: after an operation that shifts positions in a child list (pop / insert / slice assignment) every path to a return "
                      "re-indexes the list (_set_parent called with the list itself, or a loop over its tail assigning .index) — linking only the written element leaves "
                      "the following siblings with stale indexes")
    from ..cfg import CFG, forward

    f = ctx.repo.func(CORE, "Expression.set")
    g = CFG(f.node)
    LIST = "expressions"

    def shifts(a: ast.AST) -> bool:
        for x in walk_no_nested(a):
            if isinstance(x, ast.Call) and isinstance(x.func, ast.Attribute) and norm(x.func.value) == LIST and x.func.attr in ("pop", "insert", "remove"):
                return True
            if isinstance(x, ast.Subscript) and isinstance(x.ctx, ast.Store) and norm(x.value) == LIST and isinstance(x.slice, ast.Slice):
                return True
        return False

    def tr(nd, lab, s):
        dirty, alias = s
        a = nd.ast
        if a is None:
            return s
        if nd.kind == "for":
            # for v in expressions[index:]: v.index = ...
            if LIST in norm(a.iter) and any(isinstance(x, ast.Attribute) and x.attr == "index" and isinstance(x.ctx, ast.Store) for b_ in a.body for x in ast.walk(b_)):
                return (False, alias)
            return s
        if nd.kind in ("stmt", "with"):
            if shifts(a):
                dirty = True
            if isinstance(a, ast.Assign) and len(a.targets) == 1 and isinstance(a.targets[0], ast.Name):
                alias = alias | {a.targets[0].id} if norm(a.value) == LIST else alias - {a.targets[0].id}
            for x in walk_no_nested(a):
                if isinstance(x, ast.Call) and call_name(x) == "self._set_parent" and len(x.args) >= 2 and isinstance(x.args[1], ast.Name) and (x.args[1].id == LIST or x.args[1].id in alias):
                    dirty = False
        return (dirty, alias)

    # path-sensitive over the (tiny) product of the two facts: a set of (dirty, aliases) pairs, joined by union
    def tr_set(nd, lab, S):
        return frozenset(tr(nd, lab, s1) for s1 in S)

    IN_S = forward(g, frozenset({(False, frozenset())}), tr_set, lambda p, q: p | q)
    IN = {k: ((any(d for d, _ in v), frozenset()) if v is not None else None) for k, v in IN_S.items()}
    n = 0
    shifting = [nd for nd in g.nodes if nd.kind in ("stmt", "with") and nd.ast is not None and shifts(nd.ast)]
    ctx.require(bool(shifting), "anchor vanished: Expression.set no longer shifts child lists through `expressions`")
    exits = [nd for nd in g.nodes if nd.kind == "stmt" and isinstance(nd.ast, ast.Return)] + [g.exit]
    bad = None
    for nd in exits:
        # state on the edges into the exit / at the return
        states = []
        if nd is g.exit:
            for p_, lab_ in nd.pred:
                if IN_S.get(p_) is not None and not (p_.kind == "stmt" and isinstance(p_.ast, ast.Return)):
                    states.extend(tr_set(p_, lab_, IN_S[p_]))
        elif IN_S.get(nd) is not None:
            states.extend(IN_S[nd])
        for st_ in states:
            n += 1
            if st_[0]:
                bad = nd
    if bad is None:
        ctx.ok(f"{f.key}|lists re-indexed on every path after a shift", {"shifting_statements": len(shifting), "exits_checked": n})
    else:
        node = bad.ast if bad.ast is not None else f.node
        ctx.fail(f.module, node, f.key, node if bad.ast is not None else "fall-through exit",
                 "a path shifts positions in the child list and reaches this exit without re-indexing the list: the siblings after the edited position keep their old "
                 ".index, so a later pop()/replace() on one of them edits the wrong slot")


REVIEWED_PARAM_EMBED = {
    ("sqlglot.optimizer.simplify:_parenthesize_nested_connector", "exp.paren(expression, copy=False)"):
        "returns the Paren wrapped around its parameter and every caller stores that result in place of the node: the node moves, it is not stored twice",
}


def rule_j(ctx: Ctx) -> None:
    ctx.rule("C08.j", "optimizer helpers do not adopt their parameters blindly: a builder called with copy=False embeds its node arguments as they are, so inside an optimizer "
                      "function it must not receive a bare parameter of that function (the function cannot know whether the caller's node is still stored elsewhere, "
                      "e.g. a type annotation shared between nodes) unless the site is a reviewed move")
    n = 0
    for f in ctx.repo.all_funcs():
        m = f.module
        if not m.name.startswith("sqlglot.optimizer"):
            continue
        params = set(f.params) - {"self", "copy", "dialect", "cls"}
        if not params:
            continue
        stored = {x.id for x in walk_no_nested(f.node) if isinstance(x, ast.Name) and isinstance(x.ctx, ast.Store)}
        for c in walk_no_nested(f.node):
            if not isinstance(c, ast.Call):
                continue
            cf = next((k.value for k in c.keywords if k.arg == "copy"), None)
            if not (isinstance(cf, ast.Constant) and cf.value is False):
                continue
            n += 1
            vals = list(c.args) + [k.value for k in c.keywords if k.arg != "copy"]
            hit = next((v for v in vals if isinstance(v, ast.Name) and v.id in params and v.id not in stored), None)
            inst = f"{f.key}|{norm(c, 90)}"
            if hit is None:
                ctx.ok(inst, None)
            elif (f.key, norm(c, 90)) in REVIEWED_PARAM_EMBED:
                ctx.ok(inst, {"call": norm(c, 90), "reviewed": REVIEWED_PARAM_EMBED[(f.key, norm(c, 90))]})
            else:
                ctx.fail(m, c, f.key, c, f"`{hit.id}` is a parameter of {f.name} and is embedded as is by a copy=False builder: if the caller's node is still stored elsewhere "
                                         f"(type annotations are shared between nodes) it now lives in two places and records only one parent")
    ctx.count("copy_false_calls_in_optimizer", n)
    ctx.min_instances("copy_false_calls_in_optimizer", n, 40)


REVIEWED_REEMBED: dict[tuple[str, str], str] = {}


def _raw_embeds(c: ast.Call, names: set[str]) -> list[tuple[ast.Name, bool]]:
    """Names handed un-copied to a call that stores its argument in a tree; the flag is True when the name sits in the else-arm of an `a if <test> else name`."""
    is_set = isinstance(c.func, ast.Attribute) and ((c.func.attr == "set" and len(c.args) >= 2) or (c.func.attr == "append" and len(c.args) == 2))
    is_replace = isinstance(c.func, ast.Attribute) and c.func.attr == "replace" and len(c.args) == 1 and not c.keywords
    cn = (call_name(c) or "").split(".")[-1]
    is_ctor = cn in names and cn[:1].isupper()
    cf_ = next((k.value for k in c.keywords if k.arg == "copy"), None)
    nocopy = isinstance(cf_, ast.Constant) and cf_.value is False and not is_set
    if is_set:
        vals = [c.args[1]]
    elif is_replace:
        vals = [c.args[0]]
    elif is_ctor or nocopy:
        vals = list(c.args) + [k.value for k in c.keywords if k.arg not in ("copy", "dialect", "append", "into", "prefix", "quoted", "table", "alias")]
    else:
        return []
    out: list[tuple[ast.Name, bool]] = []
    for v in vals:
        if isinstance(v, ast.Name):
            out.append((v, False))
        elif isinstance(v, ast.IfExp):
            if isinstance(v.body, ast.Name):
                out.append((v.body, False))
            if isinstance(v.orelse, ast.Name):
                out.append((v.orelse, True))
    return out


def rule_k(ctx: Ctx) -> None:
    ctx.rule("C08.k", "a node that was moved into a tree is not embedded again: in optimizer code, after a local node variable has been handed un-copied to replace / set / append / "
                      "a constructor / a copy=False builder, no path (in particular none around a loop's back edge) reaches another such hand-over of the same variable without the "
                      "variable being rebound first — the second embedding re-parents a node that the first tree still holds")
    from ..cfg import CFG
    from ..typed import types

    T = types(ctx.repo)
    names = _expr_class_names(ctx)

    def surely_node(ty: str | None) -> bool:
        if not ty:
            return False
        parts = [p.strip() for p in ty.replace("builtins.", "").split(" | ")]
        keep = [p for p in parts if p != "None"]
        return bool(keep) and all(p.split(".")[-1].split("[")[0] in names for p in keep)

    n = 0
    for f in ctx.repo.all_funcs():
        m = f.module
        if not m.name.startswith("sqlglot.optimizer"):
            continue
        sinks: list[tuple[ast.Call, ast.Name, bool]] = []
        for c in walk_no_nested(f.node):
            if isinstance(c, ast.Call):
                for v, in_else in _raw_embeds(c, names):
                    if v.id not in ("self", "cls") and surely_node(T.of(m, v)):
                        sinks.append((c, v, in_else))
        by_var: dict[str, list[tuple[ast.Call, ast.Name, bool]]] = {}
        for c, v, e in sinks:
            by_var.setdefault(v.id, []).append((c, v, e))
        if not by_var:
            continue
        g = CFG(f.node)

        def rebinds(node, var: str) -> bool:
            a = node.ast
            if a is None:
                return False
            if node.kind == "for":
                return any(isinstance(x, ast.Name) and x.id == var for x in ast.walk(a.target))  # type: ignore[attr-defined]
            if node.kind == "with":
                return any(it.optional_vars is not None and any(isinstance(x, ast.Name) and x.id == var for x in ast.walk(it.optional_vars)) for it in a.items)  # type: ignore[attr-defined]
            if isinstance(a, (ast.FunctionDef, ast.AsyncFunctionDef, ast.ClassDef)):
                return False
            return any(isinstance(x, ast.Name) and x.id == var and isinstance(x.ctx, ast.Store) for x in ast.walk(a))

        def last_iteration_only(c: ast.Call, v: ast.Name) -> ast.AST | None:
            """The hand-over runs in the final iteration only: it sits in the arm of an `if` / conditional expression that compares the index of
            `for i, _ in enumerate(xs)` with `last` where `last = len(xs) - 1` (else-arm of `i < last` / `i != last`, then-arm of `i == last` / `i >= last`); returns that loop."""
            loop = m.parent(c)
            while loop is not None and not isinstance(loop, ast.For):
                if isinstance(loop, (ast.FunctionDef, ast.AsyncFunctionDef, ast.Lambda, ast.While)):
                    return None
                loop = m.parent(loop)
            if loop is None or not (isinstance(loop.iter, ast.Call) and call_name(loop.iter) == "enumerate" and loop.iter.args and isinstance(loop.target, ast.Tuple)
                                    and isinstance(loop.target.elts[0], ast.Name)):
                return None
            idx = loop.target.elts[0].id
            coll = norm(loop.iter.args[0])
            lasts = {norm(st.targets[0]) for st in walk_no_nested(f.node)
                     if isinstance(st, ast.Assign) and len(st.targets) == 1 and norm(st.value) == f"len({coll}) - 1"}
            child: ast.AST = v
            par = m.parent(child)
            while par is not None and par is not loop:
                if isinstance(par, (ast.If, ast.IfExp)) and isinstance(par.test, ast.Compare) and len(par.test.ops) == 1 and isinstance(par.test.left, ast.Name) \
                        and par.test.left.id == idx and norm(par.test.comparators[0]) in lasts:
                    op = par.test.ops[0]
                    in_body = child is par.body if isinstance(par, ast.IfExp) else child in par.body
                    in_else = child is par.orelse if isinstance(par, ast.IfExp) else child in par.orelse
                    if (in_body and isinstance(op, (ast.Eq, ast.GtE))) or (in_else and isinstance(op, (ast.Lt, ast.NotEq))):
                        return loop
                child, par = par, m.parent(par)
            return None

        def first_iteration_only(c: ast.Call, v: ast.Name) -> bool:
            """`x.copy() if moved else x` with `moved = False` before the loop and `moved = True` inside it: the raw arm runs once, for the first element that gets here."""
            loop = m.parent(c)
            while loop is not None and not isinstance(loop, (ast.For, ast.While)):
                if isinstance(loop, (ast.FunctionDef, ast.AsyncFunctionDef, ast.Lambda)):
                    return False
                loop = m.parent(loop)
            if loop is None:
                return False
            child: ast.AST = v
            par = m.parent(child)
            while par is not None and par is not loop:
                if isinstance(par, (ast.If, ast.IfExp)):
                    test = par.test
                    neg = isinstance(test, ast.UnaryOp) and isinstance(test.op, ast.Not)
                    flag = test.operand if neg else test
                    in_body = child is par.body if isinstance(par, ast.IfExp) else child in par.body
                    in_else = child is par.orelse if isinstance(par, ast.IfExp) else child in par.orelse
                    if isinstance(flag, ast.Name) and ((in_else and not neg) or (in_body and neg)):
                        inside = [st for st in ast.walk(loop) if isinstance(st, ast.Assign) and len(st.targets) == 1 and norm(st.targets[0]) == flag.id]
                        outside = [st for st in walk_no_nested(f.node) if isinstance(st, ast.Assign) and len(st.targets) == 1 and norm(st.targets[0]) == flag.id and st not in inside]
                        if inside and outside and all(isinstance(st.value, ast.Constant) and st.value.value is True for st in inside) \
                                and all(isinstance(st.value, ast.Constant) and st.value.value is False and st.lineno < loop.lineno for st in outside) \
                                and any(st.lineno >= c.lineno for st in inside):
                            return True
                child, par = par, m.parent(par)
            return False

        for var, uses in by_var.items():
            n += 1
            finding = None
            for c1, v1, e1 in uses:
                starts = g.nodes_for(c1)
                if not starts:
                    continue
                s1 = starts[0]
                final_loop = last_iteration_only(c1, v1)
                once = first_iteration_only(c1, v1)
                blocked_heads = set()
                if final_loop is not None:
                    blocked_heads = {h for h in g.loop_heads if h.ast is final_loop}
                # the statement of the first embedding may rebind the variable itself (x = paren(x, copy=False)): the old node is then out of reach
                if rebinds(s1, var):
                    continue
                seen = {s1}
                work = [s1]
                hit = None
                while work and hit is None:
                    cur = work.pop()
                    for succ, _lab in cur.succ:
                        if succ in blocked_heads and (cur, succ) in g.back_edges:
                            continue
                        # a second embedding evaluated by the successor (before any rebinding that statement performs)
                        for c2, v2, e2 in uses:
                            if succ in g.nodes_for(c2) and (succ is not s1 or c2 is c1):
                                if succ is s1 and c2 is c1 and (final_loop is not None or once):
                                    continue
                                hit = (c2, succ)
                                break
                        if hit:
                            break
                        if succ in seen or rebinds(succ, var):
                            continue
                        seen.add(succ)
                        work.append(succ)
                if hit:
                    finding = (c1, hit[0])
                    break
            inst = f"{f.key}|{var}"
            if finding is None:
                ctx.ok(inst, None)
                continue
            c1, c2 = finding
            key = (f.key, f"{var}: {norm(c1, 60)} -> {norm(c2, 60)}")
            if key in REVIEWED_REEMBED:
                ctx.ok(inst, {"reviewed": REVIEWED_REEMBED[key]})
                continue
            ctx.fail(m, c2, f.key, f"{var}: {norm(c1, 60)} -> {norm(c2, 60)}",
                     f"`{var}` is handed un-copied to `{norm(c1, 60)}` (line {c1.lineno}) and, without being rebound, again to `{norm(c2, 60)}` (line {c2.lineno})"
                     + (" on a later iteration of the enclosing loop" if c1 is c2 or c2.lineno <= c1.lineno else "") +
                     ": the node is stored in two places (or re-parented while the first tree still holds it), so parent / arg_key / index describe only one of them")
    ctx.count("moved_node_variables", n)
    ctx.min_instances("moved_node_variables", n, 20)


RULES = [rule_a, rule_b, rule_c, rule_d, rule_e, rule_f, rule_g, rule_h, rule_i, rule_j, rule_k]
EXPLANATION = (
    "Who-may-write analysis over the whole package: every store to the tree representation (args items, parent/arg_key/"
    "index/_hash, raw mutation of alias-tracked child lists) is enumerated and must lie in the primitives, be a provably "
    "sound form (_hash := None / hash(same node); .parent on a node constructed in the same function; constructor idiom; "
    "mutate-then-set re-link) or a reviewed exception; the primitives' invalidate-before-write order and __deepcopy__'s "
    "unfiltered mirroring are shape-checked; the import-introspected inventory of shared Expr instances is cross-referenced "
    "with every syntactic reference, each classified as read/copy/compare vs embedding. Generator-private scope is "
    "reported as informational. Decides mutation discipline, not the primitives' index arithmetic."
)
ASSUMPTIONS = [
    "receivers are recognised syntactically (X.expressions, X.args[k], X.args.get(k) and local aliases); zero-argument .pop() on an X.args[...] receiver is Expression.pop() unless the alias is surely a list",
    "generator.py / generators/* / transforms.py / executor/* operate on the generator's private copy (C09) — informational only",
    "reviewed exception table REVIEWED (4 entries, one statement + reason each)",
]
