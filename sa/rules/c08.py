"""C08 – Syntax trees stay structurally consistent under any sequence of edits.

The invariant (parent / arg_key / index agree with storage, single residence, cached hash
correct) is maintained by a handful of primitives in expressions/core.py (+ serde.load).
It holds for all histories iff nothing else writes the representation:

  C08.a  who-may-write: outside the primitives nobody assigns X.args[k] / X.parent /
         X.arg_key / X.index / X._hash or raw-mutates a child list (alias-tracked).
  C08.b  the primitives invalidate cached hashes up the parent chain before they write.
  C08.c  single residence of shared nodes: a module-/class-level Expr instance is never
         embedded into a tree without .copy().
  C08.d  __deepcopy__ copies _hash only next to a structurally identical copy of args.
Does not decide: index arithmetic inside set(index=...), hash collisions.
"""

from __future__ import annotations

import ast

from ..core import AnalysisError, Ctx, Func, Module, call_name, dotted, is_self_attr, norm, walk_no_nested
from ..facts import facts

CORE = "sqlglot.expressions.core"
PRIMITIVES = {
    f"{CORE}:Expr.__init__", f"{CORE}:Expression.__init__", f"{CORE}:Expression._set_parent",
    f"{CORE}:Expression.set", f"{CORE}:Expression.append", f"{CORE}:Expression.replace",
    f"{CORE}:Expression.pop", f"{CORE}:Expression.__deepcopy__", f"{CORE}:Expression.__hash__",
    "sqlglot.serde:load", "sqlglot.serde:_load",
}
# modules whose tree edits act on the generator's private copy (C09 proves the copy): informational
PRIVATE_COPY_SCOPE = ("sqlglot.generator", "sqlglot.generators.", "sqlglot.transforms", "sqlglot.executor")

LIST_MUTATORS = {"append", "extend", "insert", "remove", "pop", "sort", "reverse", "clear"}

# reviewed exceptions: (module:qualname, normalised statement) -> reason
REVIEWED = {
    ("sqlglot.optimizer.simplify:Simplifier._simplify", "original.args.pop(k)"):
        "pointer repair documented in place: only keys whose value is None are dropped; None never contributes to __hash__, so cached hashes stay correct",
    ("sqlglot.optimizer.simplify:Simplifier._simplify", "node.parent = parent"):
        "re-links the post-order result to the parent recorded when the node was visited; values unchanged, actual replacement goes through replace()",
    ("sqlglot.parser:Parser._parse_table_parts", "table.args['this'] += '*'"):
        "string leaf of an Identifier returned fresh by _parse_table_part in the same function: no parent pointer involved and the parser never hashes nodes, so no cached hash can exist",
    ("sqlglot.parser:Parser._parse_unnest", "offset = columns.pop()"):
        "pops the *last* element (sibling indexes unaffected) and re-embeds it through the exp.Unnest(...) constructor, which re-links it; the parser never hashes nodes",
}


def _in_private_scope(m: Module) -> bool:
    return m.name == "sqlglot.generator" or m.name.startswith(PRIVATE_COPY_SCOPE)


def _expr_class_names(ctx: Ctx) -> set[str]:
    return set(facts(ctx.repo)["expr_classes"]) | {"Expr", "Expression"}


def _enclosing_is_expr_class(ctx: Ctx, m: Module, node: ast.AST, names: set[str]) -> bool:
    c = m.enclosing_class(node)
    if c is None:
        return False
    return any(x.name in names for x in ctx.repo.mro(c))


def _fresh_locals(f: Func | None) -> set[str]:
    """Locals bound (only) from constructor calls `exp.X(...)` / `X(...)` with CamelCase callee."""
    out: set[str] = set()
    if f is None:
        return out
    for st in walk_no_nested(f.node):
        if isinstance(st, ast.Assign) and len(st.targets) == 1 and isinstance(st.targets[0], ast.Name) and isinstance(st.value, ast.Call):
            cn = (call_name(st.value) or "").split(".")[-1]
            if cn[:1].isupper():
                out.add(st.targets[0].id)
    return out


def rule_a(ctx: Ctx) -> None:
    ctx.rule(
        "C08.a",
        "who-may-write the tree representation: outside the primitives no assignment to X.args[k]/X.parent/X.arg_key/"
        "X.index/X._hash and no raw mutation of a child list (X.expressions, X.args[k], X.args.get(k) or a local alias)",
    )
    repo = ctx.repo
    names = _expr_class_names(ctx)
    n_sites = 0
    n_info = 0

    def report(m: Module, node: ast.AST, what: str) -> None:
        nonlocal n_sites, n_info
        f = m.enclosing_func(node)
        where = f.key if f else f"{m.name}:<module>"
        st = m.enclosing_stmt(node) or node
        n_sites += 1
        if where in PRIMITIVES:
            ctx.ok(f"{where}|{norm(st)}", None)
            return
        if (where, norm(st)) in REVIEWED:
            ctx.ok(f"{where}|{norm(st)}", {"site": where, "stmt": norm(st), "reviewed": REVIEWED[(where, norm(st))]})
            return
        if _in_private_scope(m):
            n_info += 1
            ctx.ok(f"{where}|{norm(st)}", None)
            return
        ctx.fail(m, node, where, st, what)

    for m in repo.modules.values():
        # (ii) pointer / hash attribute stores
        for n in m.of_type(ast.Attribute):
            if not isinstance(n.ctx, (ast.Store, ast.Del)) or n.attr not in ("parent", "arg_key", "index", "_hash", "args"):
                continue
            # non-Expr objects (Scope.parent, TableIter.index, ...): `self.<attr>` inside a class that is not an Expr
            if is_self_attr(n) and not _enclosing_is_expr_class(ctx, m, n, names):
                continue
            f = m.enclosing_func(n)
            st = m.enclosing_stmt(n) or n
            if n.attr == "_hash" and isinstance(st, ast.Assign):
                v = st.value
                recv = norm(n.value)
                if (isinstance(v, ast.Constant) and v.value is None) or (
                    isinstance(v, ast.Call) and call_name(v) == "hash" and len(v.args) == 1 and norm(v.args[0]) == recv
                ):
                    # always sound: None is always valid; hash(x) is the value __hash__ itself would cache
                    n_sites += 1
                    ctx.ok(f"{f.key if f else m.name}|{norm(st)}", {"stmt": norm(st), "why": "_hash := None or hash(same node)"})
                    continue
            if n.attr == "parent" and isinstance(n.value, ast.Name) and n.value.id in _fresh_locals(f) and isinstance(st, ast.Assign):
                n_sites += 1
                ctx.ok(f"{f.key if f else m.name}|{norm(st)}", {"stmt": norm(st), "why": "node constructed in this function (fresh, not yet stored)"})
                continue
            report(m, n, f"direct store to .{n.attr} bypasses set/append/replace: links or cached hashes can go stale")
        # (i) args item stores / args mutators
        for n in m.of_type(ast.Subscript):
            if isinstance(n.ctx, (ast.Store, ast.Del)) and isinstance(n.value, ast.Attribute) and n.value.attr == "args":
                f = m.enclosing_func(n)
                st = m.enclosing_stmt(n) or n
                # Expr-subclass constructor idiom: self.args[k] = v; self._set_parent(k, v)
                if f is not None and f.name == "__init__" and is_self_attr(n.value) and _enclosing_is_expr_class(ctx, m, n, names):
                    k = norm(n.slice)
                    relinked = any(
                        isinstance(c, ast.Call) and call_name(c) == "self._set_parent" and c.args and norm(c.args[0]) == k
                        for c in walk_no_nested(f.node)
                    )
                    if relinked:
                        n_sites += 1
                        ctx.ok(f"{f.key}|{norm(st)}", {"stmt": norm(st), "why": "constructor of a fresh node, followed by _set_parent for the same key"})
                        continue
                report(m, n, "item store into X.args bypasses set(): no parent link, no hash invalidation")
        for n in m.of_type(ast.Call):
            if isinstance(n.func, ast.Attribute) and n.func.attr in ("pop", "update", "setdefault", "clear", "popitem") and isinstance(n.func.value, ast.Attribute) and n.func.value.attr == "args":
                report(m, n, f"X.args.{n.func.attr}() bypasses set(): no hash invalidation")

    # (iii) raw child-list mutation with alias tracking
    def childlist(e: ast.AST) -> str | None:
        """'sure' if e certainly denotes a child list, 'maybe' if it may denote a list or a node."""
        if isinstance(e, ast.Attribute) and e.attr == "expressions":
            return "sure"
        if isinstance(e, ast.Subscript) and isinstance(e.value, ast.Attribute) and e.value.attr == "args" and isinstance(e.ctx, ast.Load):
            return "maybe"
        if isinstance(e, ast.Call) and isinstance(e.func, ast.Attribute) and e.func.attr == "get" and isinstance(e.func.value, ast.Attribute) and e.func.value.attr == "args":
            if len(e.args) == 2 and isinstance(e.args[1], ast.List):
                return "sure"
            return "maybe"
        if isinstance(e, ast.BoolOp) and isinstance(e.op, ast.Or) and childlist(e.values[0]) and isinstance(e.values[-1], ast.List):
            return "sure"
        if isinstance(e, ast.NamedExpr):
            return childlist(e.value)
        return None

    for f in repo.all_funcs():
        m = f.module
        aliases: dict[str, str] = {}
        for st in walk_no_nested(f.node):
            tv = None
            if isinstance(st, ast.Assign) and len(st.targets) == 1 and isinstance(st.targets[0], ast.Name):
                tv = (st.targets[0].id, st.value)
            elif isinstance(st, ast.NamedExpr) and isinstance(st.target, ast.Name):
                tv = (st.target.id, st.value)
            if tv:
                k = childlist(tv[1])
                if k:
                    aliases[tv[0]] = k if aliases.get(tv[0], k) == k else "maybe"
        relinks = [
            c for c in walk_no_nested(f.node)
            if isinstance(c, ast.Call) and isinstance(c.func, ast.Attribute) and c.func.attr == "set" and len(c.args) >= 2
        ]

        def relinked(name: str) -> bool:
            return any(isinstance(c.args[1], ast.Name) and c.args[1].id == name for c in relinks)

        for n in walk_no_nested(f.node):
            recv = None
            how = None
            if isinstance(n, ast.Call) and isinstance(n.func, ast.Attribute) and n.func.attr in LIST_MUTATORS:
                recv, how = n.func.value, n.func.attr
                if how == "append" and len(n.args) == 2:
                    continue  # Expression.append(key, value)
            elif isinstance(n, ast.Subscript) and isinstance(n.ctx, (ast.Store, ast.Del)):
                recv, how = n.value, "item/slice store"
            elif isinstance(n, ast.AugAssign):
                recv, how = n.target, "augmented assignment"
            if recv is None:
                continue
            kind = childlist(recv)
            alias_name = None
            if kind is None and isinstance(recv, ast.Name) and recv.id in aliases:
                kind = aliases[recv.id]
                alias_name = recv.id
            if kind is None:
                continue
            # `.pop()` without arguments on a 'maybe' receiver is Expression.pop() (a primitive) unless the alias is surely a list
            if how == "pop" and isinstance(n, ast.Call) and not n.args and kind == "maybe":
                continue
            if how in ("item/slice store",) and kind == "maybe" and alias_name is None and isinstance(recv, ast.Subscript):
                continue  # X.args[k][i] = ... is not used; X.args[k] = v handled above
            if how == "augmented assignment" and kind == "maybe":
                st = m.enclosing_stmt(n) or n
                if (f.key, norm(st)) not in REVIEWED and not isinstance(n.target, ast.Name):
                    pass
                if isinstance(n.target, ast.Name):
                    continue  # rebinding a local (sec += ...) is not a list mutation
            if alias_name and relinked(alias_name):
                n_sites += 1
                ctx.ok(f"{f.key}|{norm(m.enclosing_stmt(n) or n)}", {"stmt": norm(m.enclosing_stmt(n) or n), "why": f"list re-linked afterwards via .set(key, {alias_name})"})
                continue
            if isinstance(n, ast.Subscript) and isinstance(n.value, ast.Attribute) and n.value.attr == "args":
                continue  # handled in (i)
            report(m, n, f"raw list {how} on a child list ({norm(recv)}): moved/inserted nodes get no parent/arg_key/index and siblings keep stale indexes")

    ctx.count("representation_write_sites", n_sites)
    ctx.count("private_copy_scope_sites_informational", n_info)
    ctx.min_instances("representation_write_sites", n_sites, 40)


def rule_b(ctx: Ctx) -> None:
    ctx.rule("C08.b", "Expression.set / Expression.append run the upward `_hash = None` walk before their first write to the representation")
    for name in ("set", "append"):
        f = ctx.repo.func(CORE, f"Expression.{name}")
        body = f.node.body
        loop_idx = None
        for i, st in enumerate(body):
            if isinstance(st, ast.While):
                has_reset = any(isinstance(x, ast.Assign) and isinstance(x.targets[0], ast.Attribute) and x.targets[0].attr == "_hash" and isinstance(x.value, ast.Constant) and x.value.value is None for x in st.body)
                climbs = any(isinstance(x, ast.Assign) and isinstance(x.value, ast.Attribute) and x.value.attr == "parent" for x in st.body)
                tests_hash = any(isinstance(x, ast.Attribute) and x.attr == "_hash" for x in ast.walk(st.test))
                if has_reset and climbs and tests_hash:
                    # the walking variable must start at self
                    var = st.body[0].targets[0].value.id if isinstance(st.body[0].targets[0].value, ast.Name) else None
                    init = any(
                        isinstance(p, (ast.Assign, ast.AnnAssign)) and norm(p.value) == "self" and norm(p.target if isinstance(p, ast.AnnAssign) else p.targets[0]) == var
                        for p in body[:i]
                    )
                    if init:
                        loop_idx = i
                        break
        if loop_idx is None:
            ctx.fail(f.module, f.node, f.key, f"{name}: upward invalidation loop",
                     f"Expression.{name} no longer starts with `node = self; while node and node._hash is not None: node._hash = None; node = node.parent`")
            continue
        first_write = None
        for i, st in enumerate(body):
            writes = any(
                (isinstance(x, ast.Subscript) and isinstance(x.ctx, (ast.Store, ast.Del)))
                or (isinstance(x, ast.Call) and isinstance(x.func, ast.Attribute) and x.func.attr in LIST_MUTATORS | {"_set_parent"} and not (x.func.attr == "get"))
                or (isinstance(x, ast.Attribute) and isinstance(x.ctx, ast.Store) and x.attr != "_hash")
                for x in ast.walk(st)
            )
            if writes and not (i == loop_idx):
                first_write = i
                break
        # the climb must not be cut short: loop condition must not test anything but node/_hash
        if first_write is not None and first_write < loop_idx:
            ctx.fail(f.module, body[first_write], f.key, body[first_write], f"Expression.{name} writes the representation before invalidating cached hashes")
        else:
            ctx.ok(f"{f.key}|invalidate-before-write", {"function": f.key, "loop_at_stmt": loop_idx, "first_write_stmt": first_write})
        # no early return between function entry and the loop
        early = [st for st in body[:loop_idx] if any(isinstance(x, ast.Return) for x in ast.walk(st))]
        if early:
            ctx.fail(f.module, early[0], f.key, early[0], "a return precedes the invalidation loop")
    # replace(): pointer resets happen only after the parent.set(...) call, guarded by `expression is not self`
    f = ctx.repo.func(CORE, "Expression.replace")
    sets = [c for c in walk_no_nested(f.node) if isinstance(c, ast.Call) and call_name(c) == "parent.set"]
    if sets and all(len(c.args) >= 3 or any(kw.arg == "index" for kw in c.keywords) for c in sets):
        ctx.ok(f"{f.key}|delegates to parent.set(key, expression, self.index)")
    else:
        ctx.fail(f.module, f.node, f.key, "replace -> parent.set(key, expression, index)", "Expression.replace must re-link through parent.set with the node's index")
    p = ctx.repo.func(CORE, "Expression.pop")
    if any(isinstance(c, ast.Call) and call_name(c) == "self.replace" for c in walk_no_nested(p.node)):
        ctx.ok(f"{p.key}|delegates to replace(None)")
    else:
        ctx.fail(p.module, p.node, p.key, "pop -> replace", "Expression.pop must delegate to replace(None)")


def rule_c(ctx: Ctx) -> None:
    ctx.rule(
        "C08.c",
        "single residence: every reference to a module-/class-level Expr instance (S2 inventory) is a read, a comparison, a .copy(), "
        "or an argument of a copying consumer — never an embedding (constructor argument, set/append, list element, return value)",
    )
    repo = ctx.repo
    fx = facts(repo)
    inv = fx["shared_exprs"]
    ctx.count("shared_expr_objects", len(inv))
    ctx.min_instances("shared_expr_objects", len(inv), 20)
    attr_names: dict[str, str] = {}
    global_names: dict[tuple[str, str], str] = {}
    skipped = 0
    for s in inv:
        mod, _, rest = s["path"].partition(":")
        if "[" in rest:
            skipped += 1  # element of a table (dynamic lookup); see notes
            continue
        if "." in rest:
            attr_names[rest.rsplit(".", 1)[1]] = s["path"]
        else:
            global_names[(mod, rest)] = s["path"]
    ctx.count("table_elements_not_tracked", skipped)

    COPYING_CONSUMERS = {"replace_placeholders"}  # -> Expression.transform(copy=True)

    def safe_param(fn: Func, pname: str, depth: int = 2) -> bool:
        for n in walk_no_nested(fn.node):
            if isinstance(n, ast.Name) and n.id == pname and isinstance(n.ctx, ast.Load):
                if not classify(fn.module, n, depth - 1)[0]:
                    return False
        return True

    def classify(m: Module, ref: ast.AST, depth: int = 2) -> tuple[bool, str]:
        p = m.parent(ref)
        # X.copy()
        if isinstance(p, ast.Attribute) and p.value is ref:
            pp = m.parent(p)
            if p.attr == "copy" and isinstance(pp, ast.Call):
                return True, "copied"
            if isinstance(pp, ast.Call) and pp.func is p and p.attr in ("set", "append", "replace", "pop", "set_kwargs", "add_comments", "transform"):
                if p.attr == "transform" and not any(kw.arg == "copy" and isinstance(kw.value, ast.Constant) and kw.value.value is False for kw in pp.keywords):
                    return True, "transform(copy=True)"
                return False, f"mutating method .{p.attr}() on the shared node"
            return True, f"attribute read .{p.attr}"
        if isinstance(p, ast.Compare):
            return True, "comparison"
        if isinstance(p, (ast.Tuple, ast.List, ast.Set)):
            pp = m.parent(p)
            if isinstance(pp, ast.Compare):
                return True, "membership test"
            return False, "element of a list/tuple (embedded)"
        if isinstance(p, ast.keyword):
            call = m.parent(p)
            cn = (call_name(call) or "").split(".")[-1] if isinstance(call, ast.Call) else ""
            if cn in COPYING_CONSUMERS:
                return True, f"argument of {cn}"
            if cn[:1].isupper():
                return False, f"constructor keyword {p.arg}= of {cn}(...) embeds the shared node"
            return False, f"keyword argument {p.arg}= of {cn or '?'}(...)"
        if isinstance(p, ast.Call) and ref in p.args:
            cn_full = call_name(p) or ""
            cn = cn_full.split(".")[-1]
            if cn in COPYING_CONSUMERS and p.args[0] is ref:
                return True, f"argument of {cn} (transform copy=True)"
            if cn in ("isinstance", "id", "hash", "str", "repr", "bool"):
                return True, f"{cn}()"
            if cn == "sql":
                return True, "generated (Generator.sql does not embed)"
            if cn[:1].isupper():
                return False, f"positional constructor argument of {cn}(...)"
            # resolve callee summary
            if depth > 0:
                target = None
                if cn_full.startswith("self."):
                    c = m.enclosing_class(ref)
                    if c is not None:
                        r = repo.lookup_method(c, cn)
                        if r:
                            target = r[0].module.funcs.get(f"{r[0].qualname}.{cn}")
                            off = 1
                else:
                    rr = repo.resolve_name(m, cn_full)
                    if rr and rr[1] in rr[0].funcs:
                        target = rr[0].funcs[rr[1]]
                        off = 0
                if target is not None:
                    idx = p.args.index(ref) + off
                    params = target.params
                    if idx < len(params) and safe_param(target, params[idx], depth):
                        return True, f"argument of {target.key} whose parameter {params[idx]} is only read/copied"
            return False, f"argument of {cn_full or '?'}(...) (callee may embed or mutate it)"
        if isinstance(p, ast.Return):
            return False, "returned (caller embeds it)"
        if isinstance(p, (ast.Assign, ast.AnnAssign)):
            # alias at class/module level (e.g. SEQ_UNSIGNED = _SEQ_UNSIGNED) or local alias: follow the local
            tg = p.targets[0] if isinstance(p, ast.Assign) else p.target
            f = m.enclosing_func(ref)
            if isinstance(tg, ast.Name) and f is not None:
                for n in walk_no_nested(f.node):
                    if isinstance(n, ast.Name) and n.id == tg.id and isinstance(n.ctx, ast.Load):
                        ok, why = classify(m, n, depth)
                        if not ok:
                            return False, f"via local {tg.id}: {why}"
                return True, f"bound to local {tg.id} (all uses safe)"
            return True, "class/module-level alias"
        if isinstance(p, ast.BinOp):
            return True, "operator (Expr._binop copies both operands)"
        if isinstance(p, (ast.If, ast.While, ast.BoolOp, ast.UnaryOp, ast.IfExp)) and getattr(p, "test", None) is ref:
            return True, "truth test"
        if isinstance(p, ast.IfExp) or isinstance(p, ast.BoolOp):
            return classify(m, p, depth)
        if isinstance(p, ast.Starred):
            return False, "unpacked into a call"
        if isinstance(p, ast.FormattedValue) or isinstance(p, ast.JoinedStr):
            return True, "formatted"
        return False, f"unrecognised context {type(p).__name__}"

    n_refs = 0
    for m in repo.modules.values():
        refs: list[tuple[ast.AST, str]] = []
        for n in m.of_type(ast.Attribute):
            if n.attr in attr_names and isinstance(n.ctx, ast.Load) and n.attr.isupper():
                refs.append((n, attr_names[n.attr]))
        for n in m.of_type(ast.Name):
            if not isinstance(n.ctx, ast.Load):
                continue
            key = (m.name, n.id)
            if key in global_names:
                refs.append((n, global_names[key]))
            else:
                imp = m.imports.get(n.id, "")
                if imp and (imp.rsplit(".", 1)[0], imp.rsplit(".", 1)[-1]) in global_names:
                    refs.append((n, global_names[(imp.rsplit(".", 1)[0], imp.rsplit(".", 1)[-1])]))
        for ref, path in refs:
            n_refs += 1
            ok, why = classify(m, ref)
            f = m.enclosing_func(ref)
            where = f.key if f else f"{m.name}:<module/class body>"
            st = m.enclosing_stmt(ref) or ref
            inst = f"{where}|{path}|{norm(st, 100)}"
            if ok:
                ctx.ok(inst, {"shared": path, "use": why, "at": where})
            elif _in_private_scope(m):
                ctx.ok(inst, None)
                ctx.info.append(f"C08.c informational (generator-private tree): {m.rel}:{ref.lineno} {path}: {why}")
            else:
                ctx.fail(m, ref, where, f"{path} in {norm(st, 100)}",
                         f"shared Expr instance {path} is embedded without .copy() ({why}): every tree built here shares one node, so a later "
                         f"call re-parents (and any edit changes) nodes of earlier results")
    ctx.count("references_classified", n_refs)
    ctx.min_instances("references_classified", n_refs, 40)


def rule_d(ctx: Ctx) -> None:
    ctx.rule("C08.d", "__deepcopy__ copies _hash only together with an unfiltered structural copy of args (every branch mirrors node.args)")
    f = ctx.repo.func(CORE, "Expression.__deepcopy__")
    loops = [n for n in walk_no_nested(f.node) if isinstance(n, ast.For) and norm(n.iter) in ("node.args.items()",)]
    if len(loops) != 1:
        ctx.fail(f.module, f.node, f.key, "for k, vs in node.args.items()", "__deepcopy__ no longer iterates node.args.items() exactly once")
        return
    loop = loops[0]
    # every path through the loop body must store under key k: copy.set(k, ..) / copy.args[k] = .. / copy.append(k, ..)
    def stores(stmts: list[ast.stmt]) -> bool:
        for st in stmts:
            if isinstance(st, ast.If):
                if st.orelse and stores(st.body) and stores(st.orelse):
                    return True
                continue
            for x in ast.walk(st):
                if isinstance(x, ast.Call) and call_name(x) in ("copy.set", "copy.append") and x.args and norm(x.args[0]) == "k":
                    return True
                if isinstance(x, ast.Subscript) and isinstance(x.ctx, ast.Store) and norm(x.value) == "copy.args" and norm(x.slice) == "k":
                    return True
        return False

    if stores(loop.body):
        ctx.ok(f"{f.key}|every branch stores args[k]")
    else:
        ctx.fail(f.module, loop, f.key, loop.body[0], "__deepcopy__ has a path that drops an argument while still copying the cached _hash")
    skips = [n for n in ast.walk(loop) if isinstance(n, ast.Continue)]
    if skips:
        ctx.fail(f.module, skips[0], f.key, skips[0], "__deepcopy__ skips arguments (continue) while copying the cached _hash")
    else:
        ctx.ok(f"{f.key}|no filtering of args")
    # inner list loop: every element appended
    for inner in [n for n in ast.walk(loop) if isinstance(n, ast.For) and n is not loop]:
        if stores(inner.body):
            ctx.ok(f"{f.key}|list elements all appended")
        else:
            ctx.fail(f.module, inner, f.key, inner.body[0], "__deepcopy__ drops list elements while copying the cached _hash")


RULES = [rule_a, rule_b, rule_c, rule_d]
EXPLANATION = (
    "Who-may-write analysis over the whole package: every store to the tree representation (args items, parent/arg_key/"
    "index/_hash, raw mutation of alias-tracked child lists) is enumerated and must lie in the primitives, be a provably "
    "sound form (_hash := None / hash(same node); .parent on a node constructed in the same function; constructor idiom; "
    "mutate-then-set re-link) or a reviewed exception; the primitives' invalidate-before-write order and __deepcopy__'s "
    "unfiltered mirroring are shape-checked; the import-introspected inventory of shared Expr instances is cross-referenced "
    "with every syntactic reference, each classified as read/copy/compare vs embedding. Generator-private scope is "
    "reported as informational. Decides mutation discipline, not the primitives' index arithmetic."
)
ASSUMPTIONS = [
    "receivers are recognised syntactically (X.expressions, X.args[k], X.args.get(k) and local aliases); zero-argument .pop() on an X.args[...] receiver is Expression.pop() unless the alias is surely a list",
    "generator.py / generators/* / transforms.py / executor/* operate on the generator's private copy (C09) — informational only",
    "reviewed exception table REVIEWED (4 entries, one statement + reason each)",
]
