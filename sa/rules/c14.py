"""C14 – Error levels change how problems are reported, never what is produced.

Decides (structural necessary conditions, all call sites / all paths):
  C14.a  who-may-read: the parser's error level / error list and the generator's
         unsupported level / message list are read only inside the reporting funnel, and
         level-dependent branches there only report (append / log / raise), never compute.
  C14.b  every temporary change of Parser.error_level is restored in a `finally`.
  C14.c  UnsupportedError is raised only inside the generator funnel
         (Generator.unsupported / Generator.generate) or in transform functions that are
         only ever run under transforms.preprocess (which converts the exception into
         Generator.unsupported).
  C14.d  every statement parsed by the top-level loop is followed by check_errors() on
         every path; check_errors hands *all* errors to merge_errors and uses max_errors
         only for the rendered message.
Does not decide: that WARN and RAISE agree on which messages at run time.
"""

from __future__ import annotations

import ast

from ..cfg import CFG, must_pass
from ..core import Ctx, Func, call_name, dotted, is_self_attr, norm, walk_no_nested

PARSER_LEVEL_READERS = {"raise_error", "validate_expression", "_try_parse", "check_errors", "__init__"}
PARSER_ERRORS_USERS = {"reset", "raise_error", "check_errors", "__init__"}
GEN_LEVEL_READERS = {"unsupported", "generate", "__init__"}


def _parser_classes(ctx: Ctx):
    base = ctx.repo.cls("sqlglot.parser", "Parser")
    return [base] + ctx.repo.subclasses(base)


def _generator_classes(ctx: Ctx):
    base = ctx.repo.cls("sqlglot.generator", "Generator")
    return [base] + ctx.repo.subclasses(base)


def _report_only(stmts: list[ast.stmt], ret_texts: set[str]) -> ast.stmt | None:
    """Return the first statement that is not a pure reporting action."""
    for st in stmts:
        if isinstance(st, ast.Raise):
            continue
        if isinstance(st, ast.Pass):
            continue
        if isinstance(st, ast.Return):
            if st.value is None or norm(st.value) in ret_texts:
                continue
            return st
        if isinstance(st, ast.Expr) and isinstance(st.value, ast.Call):
            cn = call_name(st.value) or ""
            if cn in ("self.raise_error", "self.errors.append") or cn.startswith("logger."):
                continue
            return st
        if isinstance(st, ast.For):
            bad = _report_only(st.body + st.orelse, ret_texts)
            if bad is not None:
                return bad
            continue
        if isinstance(st, ast.If):
            bad = _report_only(st.body + st.orelse, ret_texts)
            if bad is not None:
                return bad
            continue
        return st
    return None


def rule_a(ctx: Ctx) -> None:
    ctx.rule(
        "C14.a",
        "error_level / errors / unsupported_level / unsupported_messages are read only inside the reporting "
        "funnel; level-guarded branches there only append / log / raise / return the common result",
    )
    repo = ctx.repo
    pcls = {c.key for c in _parser_classes(ctx)}
    gcls = {c.key for c in _generator_classes(ctx)}
    n_sites = 0
    for m in repo.modules.values():
        for node in m.of_type(ast.Attribute):
            attr = node.attr
            if attr not in ("error_level", "errors", "unsupported_level", "unsupported_messages"):
                continue
            f = m.enclosing_func(node)
            c = m.enclosing_class(node)
            in_parser = c is not None and c.key in pcls
            in_gen = c is not None and c.key in gcls
            fname = f.name if f else "<module>"
            # walk to the method of the class (nested lambdas / closures count as that method)
            ff = f
            while ff is not None and ff.parent_func is not None:
                ff = ff.parent_func
            mname = ff.name if ff else "<module>"
            where = f.key if f else f"{m.name}:<module>"
            if attr == "error_level":
                # any object's .error_level: a Parser attribute only
                if not (in_parser or isinstance(node.value, ast.Name) and node.value.id in ("parser", "self")):
                    continue
                n_sites += 1
                if in_parser and mname in PARSER_LEVEL_READERS:
                    ctx.ok(f"{where}|{norm(node)}|{m.enclosing_stmt(node).lineno if False else ''}", None)
                    continue
                ctx.fail(m, node, where, m.enclosing_stmt(node) or node,
                         f"Parser.error_level is accessed in {fname}, outside the reporting funnel "
                         f"({sorted(PARSER_LEVEL_READERS)}): parse decisions may depend on the error level")
            elif attr == "errors":
                if not (in_parser and is_self_attr(node)):
                    continue
                n_sites += 1
                if mname in PARSER_ERRORS_USERS:
                    ctx.ok(f"{where}|{norm(m.enclosing_stmt(node) or node)}")
                    continue
                ctx.fail(m, node, where, m.enclosing_stmt(node) or node,
                         f"Parser.errors is accessed in {fname}, outside {sorted(PARSER_ERRORS_USERS)}")
            else:
                if not (in_gen or is_self_attr(node) or (isinstance(node.value, ast.Name) and node.value.id in ("generator", "gen"))):
                    continue
                if not in_gen and not m.name.startswith(("sqlglot.generator", "sqlglot.dialects", "sqlglot.transforms")):
                    continue
                n_sites += 1
                if in_gen and mname in GEN_LEVEL_READERS:
                    ctx.ok(f"{where}|{norm(m.enclosing_stmt(node) or node)}")
                    continue
                ctx.fail(m, node, where, m.enclosing_stmt(node) or node,
                         f"Generator.{attr} is accessed in {fname}, outside {sorted(GEN_LEVEL_READERS)}: "
                         f"generated text may depend on the unsupported level")
    ctx.count("attribute_sites", n_sites)
    ctx.min_instances("attribute_sites", n_sites, 18)

    # level-guarded branches only report
    targets = [
        ("sqlglot.parser", "Parser.raise_error", "error_level"),
        ("sqlglot.parser", "Parser.validate_expression", "error_level"),
        ("sqlglot.parser", "Parser.check_errors", "error_level"),
        ("sqlglot.generator", "Generator.generate", "unsupported_level"),
        ("sqlglot.generator", "Generator.unsupported", "unsupported_level"),
    ]
    n_br = 0
    for mod, qn, attr in targets:
        f = repo.func(mod, qn)
        rets = {norm(r.value) for r in walk_no_nested(f.node) if isinstance(r, ast.Return) and r.value is not None}
        # the common result: the value returned by the final statement
        last = f.node.body[-1]
        common = {norm(last.value)} if isinstance(last, ast.Return) and last.value is not None else set()
        for node in walk_no_nested(f.node):
            if isinstance(node, ast.If) and any(
                isinstance(x, ast.Attribute) and x.attr == attr for x in ast.walk(node.test)
            ):
                n_br += 1
                bad = _report_only(node.body, common)
                # the orelse of a level test may be another level test (elif) or reporting
                if bad is None:
                    bad = _report_only(node.orelse, common)
                if bad is None:
                    ctx.ok(f"{f.key}|{norm(node.test)}", {"branch": norm(node.test), "actions": "report-only"})
                else:
                    ctx.fail(f.module, bad, f.key, bad,
                             f"branch guarded by {attr} ({norm(node.test)}) does more than report: the value "
                             f"produced differs between levels")
        # every return in these functions returns the same expression
        if len(rets) > 1:
            ctx.fail(f.module, f.node, f.key, " / ".join(sorted(rets)),
                     f"{qn} returns different expressions on different paths in a level-dependent function")
        else:
            ctx.ok(f"{f.key}|single-result")
    ctx.count("level_branches", n_br)
    ctx.min_instances("level_branches", n_br, 6)


def rule_b(ctx: Ctx) -> None:
    ctx.rule("C14.b", "every assignment to self.error_level outside __init__ is restored by a `finally` from a value saved before")
    n = 0
    for c in _parser_classes(ctx):
        for name, md in c.methods().items():
            if name == "__init__":
                continue
            f = c.module.funcs.get(f"{c.qualname}.{name}")
            assigns = [
                (st, tg)
                for st in walk_no_nested(md)
                if isinstance(st, ast.Assign)
                for tg in st.targets
                if is_self_attr(tg, "error_level")
            ]
            if not assigns:
                continue
            # saved locals: name = self.error_level
            saved = {
                st.targets[0].id
                for st in walk_no_nested(md)
                if isinstance(st, ast.Assign)
                and len(st.targets) == 1
                and isinstance(st.targets[0], ast.Name)
                and is_self_attr(st.value, "error_level")
            }
            m = c.module
            for st, tg in assigns:
                n += 1
                where = f"{m.name}:{c.qualname}.{name}"
                is_restore = isinstance(st.value, ast.Name) and st.value.id in saved
                parent = m.parent(st)
                if is_restore:
                    if isinstance(parent, ast.Try) and st in parent.finalbody:
                        ctx.ok(f"{where}|restore|{norm(st)}", {"restore": norm(st), "in": "finally"})
                    else:
                        ctx.fail(m, st, where, st, "restore of error_level is not an unconditional statement of a `finally` block")
                    continue
                # a temporary change: must be directly followed by a try whose finally restores
                ok = False
                body = None
                for fld in ("body", "orelse", "finalbody"):
                    lst = getattr(parent, fld, None)
                    if isinstance(lst, list) and st in lst:
                        body = lst
                if body is not None:
                    i = body.index(st)
                    nxt = body[i + 1] if i + 1 < len(body) else None
                    cand = nxt if isinstance(nxt, ast.Try) else None
                    # or the assignment is itself the first statements inside the try body
                    if cand is None and isinstance(parent, ast.Try) and st in parent.body:
                        cand = parent
                    if cand is not None:
                        for fs in cand.finalbody:
                            if (
                                isinstance(fs, ast.Assign)
                                and any(is_self_attr(x, "error_level") for x in fs.targets)
                                and isinstance(fs.value, ast.Name)
                                and fs.value.id in saved
                            ):
                                # the saved local must be bound before the change
                                ok = True
                if ok:
                    ctx.ok(f"{where}|change|{norm(st)}", {"change": norm(st), "restored_by": "finally"})
                else:
                    ctx.fail(m, st, where, st,
                             "error_level is changed without a directly following try/finally that restores the saved value: "
                             "a ParseError inside the speculative branch leaks the temporary level")
    ctx.count("assignments", n)
    ctx.min_instances("assignments", n, 2)


def _refs_only_under_preprocess(ctx: Ctx, fn: Func) -> tuple[bool, list[str]]:
    """All references to function `fn` across the package are elements of a list passed to
    transforms.preprocess (directly or through functools.partial)."""
    name = fn.qualname.split(".")[0]
    refs: list[str] = []
    ok = True
    nrefs = 0
    for m in ctx.repo.modules.values():
        for node in m.of_type(ast.Name, ast.Attribute):
            hit = (isinstance(node, ast.Name) and node.id == name and isinstance(node.ctx, ast.Load)) or (
                isinstance(node, ast.Attribute) and node.attr == name and dotted(node) in (f"transforms.{name}", f"sqlglot.transforms.{name}")
            )
            if not hit:
                continue
            if isinstance(node, ast.Name) and m is not fn.module and m.imports.get(name, "").rsplit(".", 1)[-1] != name:
                continue
            if isinstance(node, ast.Name) and m is not fn.module and not m.imports.get(name, "").startswith(fn.module.name):
                continue
            nrefs += 1
            # climb: optional partial(...) call, then List/Tuple, then preprocess(...) call
            p = m.parent(node)
            cur: ast.AST = node
            if isinstance(p, ast.Call) and (call_name(p) or "").endswith("partial") and p.args and p.args[0] is cur:
                cur = p
                p = m.parent(p)
            if isinstance(p, (ast.List, ast.Tuple)):
                cur = p
                p = m.parent(p)
                if isinstance(p, ast.Call) and (call_name(p) or "").split(".")[-1] == "preprocess" and p.args and p.args[0] is cur:
                    refs.append(f"{m.rel}:{node.lineno}")
                    continue
            # direct call lexically inside `try: ... except UnsupportedError: self.unsupported(...)`
            p = m.parent(node)
            if isinstance(p, ast.Call) and p.func is node:
                q: ast.AST | None = p
                conv = False
                while q is not None and not isinstance(q, (ast.FunctionDef, ast.AsyncFunctionDef)):
                    par = m.parent(q)
                    if isinstance(par, ast.Try) and q in par.body:
                        for h in par.handlers:
                            if h.type is not None and "UnsupportedError" in norm(h.type) and any(
                                call_name(x) == "self.unsupported" for x in ast.walk(h)
                            ):
                                conv = True
                    q = par
                if conv:
                    refs.append(f"{m.rel}:{node.lineno} (call inside try/except UnsupportedError -> self.unsupported)")
                    continue
            ok = False
            refs.append(f"{m.rel}:{node.lineno} (NOT under preprocess)")
    return ok and nrefs > 0, refs


def rule_c(ctx: Ctx) -> None:
    ctx.rule(
        "C14.c",
        "UnsupportedError is raised only by Generator.unsupported / Generator.generate, or inside transform "
        "functions referenced exclusively from transforms.preprocess([...]) lists (preprocess converts it to unsupported())",
    )
    repo = ctx.repo
    # the preprocess idiom itself must still convert the exception
    pre = repo.func("sqlglot.transforms", "preprocess.<locals>._to_sql")
    conv = False
    for node in walk_no_nested(pre.node):
        if isinstance(node, ast.ExceptHandler) and node.type is not None and "UnsupportedError" in norm(node.type):
            if any(call_name(x) == "self.unsupported" for x in ast.walk(node)):
                conv = True
    if not conv:
        ctx.fail(pre.module, pre.node, pre.key, "except UnsupportedError -> self.unsupported",
                 "transforms.preprocess no longer converts UnsupportedError raised by a transform into Generator.unsupported()")
    else:
        ctx.ok(f"{pre.key}|converts UnsupportedError")
    # ... and every application of a transform of the chain runs inside that try body (not before it, in its else/finally or after it)
    def applies_transform(c: ast.AST) -> bool:
        if not (isinstance(c, ast.Call) and len(c.args) == 1 and norm(c.args[0]) == "expression"):
            return False
        fn = c.func
        return (isinstance(fn, ast.Name) and fn.id in ("transform", "t", "fn", "func")) or (isinstance(fn, ast.Subscript) and norm(fn.value) == "transforms")

    apps = [c for c in walk_no_nested(pre.node) if applies_transform(c)]
    ctx.require(bool(apps), "anchor vanished: preprocess._to_sql no longer applies its transforms as transform(expression)")
    for c in apps:
        covered = False
        cur: ast.AST = c
        p_ = pre.module.parent(cur)
        while p_ is not None and p_ is not pre.node:
            if isinstance(p_, ast.Try) and any(cur is st_ for st_ in p_.body) and any(
                h.type is not None and "UnsupportedError" in norm(h.type) and any(call_name(x) == "self.unsupported" for x in ast.walk(h)) for h in p_.handlers
            ):
                covered = True
            cur, p_ = p_, pre.module.parent(p_)
        inst = f"{pre.key}|{norm(c)}|L{c.lineno - pre.node.lineno}"
        if covered:
            ctx.ok(inst, {"application": norm(c), "inside": "try body with except UnsupportedError -> self.unsupported"})
        else:
            ctx.fail(pre.module, c, pre.key, c, "this transform of the preprocess chain runs outside the try whose handler converts UnsupportedError into Generator.unsupported(): "
                                                "an UnsupportedError it raises escapes at every unsupported_level instead of being recorded / logged / raised by policy")
    n = 0
    for m in repo.modules.values():
        for node in m.of_type(ast.Raise):
            if node.exc is None:
                continue
            exc = node.exc
            cname = call_name(exc) if isinstance(exc, ast.Call) else dotted(exc)
            if not cname or cname.split(".")[-1] != "UnsupportedError":
                continue
            n += 1
            f = m.enclosing_func(node)
            where = f.key if f else f"{m.name}:<module>"
            if f and f.key in ("sqlglot.generator:Generator.unsupported", "sqlglot.generator:Generator.generate"):
                ctx.ok(f"{where}|{norm(node)}", {"site": where, "why": "generator funnel"})
                continue
            # inside a try that converts?
            top = f
            while top is not None and top.parent_func is not None:
                top = top.parent_func
            if top is not None and top.cls is None:
                ok, refs = _refs_only_under_preprocess(ctx, top)
                if ok:
                    ctx.ok(f"{where}|{norm(node)}", {"site": where, "why": "only run under transforms.preprocess", "refs": refs})
                    continue
                ctx.fail(m, node, where, node,
                         f"UnsupportedError raised directly; {top.qualname} is referenced outside a preprocess([...]) list "
                         f"({', '.join(r for r in refs if 'NOT' in r) or 'no reference found'}): under unsupported_level=IGNORE/WARN this raises "
                         f"instead of being logged")
                continue
            ctx.fail(m, node, where, node,
                     "UnsupportedError raised directly outside Generator.unsupported/generate: under "
                     "unsupported_level=IGNORE/WARN this raises instead of being logged")
    ctx.count("raise_sites", n)
    ctx.min_instances("raise_sites", n, 2)


def rule_d(ctx: Ctx) -> None:
    ctx.rule(
        "C14.d",
        "top-level parse loop: every path from a parse_method(self) call to the next iteration / return passes "
        "check_errors(); check_errors gives all errors to merge_errors and max_errors only to concat_messages",
    )
    repo = ctx.repo
    f = repo.func("sqlglot.parser", "Parser._parse_batch_statements")
    g = CFG(f.node)
    # _parse must call it with sep_first_statement=False (so the pre-loop call is dead for top-level parsing)
    p = repo.func("sqlglot.parser", "Parser._parse")
    calls = [c for c in walk_no_nested(p.node) if isinstance(c, ast.Call) and call_name(c) == "self._parse_batch_statements"]
    ctx.require(bool(calls), "anchor vanished: Parser._parse no longer calls _parse_batch_statements")
    for c in calls:
        v = next((kw.value for kw in c.keywords if kw.arg == "sep_first_statement"), None)
        if isinstance(v, ast.Constant) and v.value is False:
            ctx.ok(f"{p.key}|{norm(c)}")
        else:
            ctx.fail(p.module, c, p.key, c, "top-level _parse must call _parse_batch_statements(sep_first_statement=False)")
    reset_first = p.node.body[0]
    if isinstance(reset_first, ast.Expr) and call_name(reset_first.value) == "self.reset":
        ctx.ok(f"{p.key}|reset first")
    else:
        ctx.fail(p.module, reset_first, p.key, reset_first, "Parser._parse must call self.reset() before anything else")

    def is_parse_call(n):
        return n.ast is not None and n.kind in ("stmt", "cond") and any(
            isinstance(x, ast.Call) and isinstance(x.func, ast.Name) and x.func.id == "parse_method" for x in ast.walk(n.ast)
        )

    def is_check(n):
        return n.ast is not None and n.kind == "stmt" and any(
            isinstance(x, ast.Call) and call_name(x) == "self.check_errors" for x in ast.walk(n.ast)
        )

    # forward must-analysis: state = "pending unchecked parse" (True/False); meet = OR (may)
    from ..cfg import forward

    def tr(n, lab, s):
        # edges on which sep_first_statement is True are infeasible for top-level parsing
        if n.kind == "cond" and isinstance(n.ast, ast.Name) and n.ast.id == "sep_first_statement" and lab is True:
            return None
        if is_check(n):
            return False
        if is_parse_call(n):
            return True
        return s

    def meet(a, b):
        if a is None:
            return b
        if b is None:
            return a
        return a or b

    IN = forward(g, False, tr, meet)
    n_calls = sum(1 for n in g.nodes if is_parse_call(n))
    ctx.count("parse_calls", n_calls)
    ctx.min_instances("parse_calls", n_calls, 1)
    bad = []
    for h in g.loop_heads:
        for a, lab in h.pred:
            if (a, h) in g.back_edges and IN[a] is not None and tr(a, lab, IN[a]):
                bad.append(a)
    if IN.get(g.exit):
        for a, lab in g.exit.pred:
            if IN[a] is not None and tr(a, lab, IN[a]):
                bad.append(a)
    if bad:
        for a in bad:
            ctx.fail(f.module, a.ast, f.key, a.ast if a.ast is not None else "exit",
                     "a statement parsed by parse_method(self) can reach the next iteration / the return without check_errors()")
    else:
        ctx.ok(f"{f.key}|all paths check_errors", {"paths": "loop back edges + exits", "parse_calls": n_calls})

    ce = repo.func("sqlglot.parser", "Parser.check_errors")
    merged = [c for c in walk_no_nested(ce.node) if isinstance(c, ast.Call) and call_name(c) == "merge_errors"]
    concat = [c for c in walk_no_nested(ce.node) if isinstance(c, ast.Call) and call_name(c) == "concat_messages"]
    ctx.require(bool(merged) and bool(concat), "anchor vanished: check_errors no longer calls merge_errors/concat_messages")
    for c in merged:
        if len(c.args) == 1 and is_self_attr(c.args[0], "errors"):
            ctx.ok(f"{ce.key}|{norm(c)}")
        else:
            ctx.fail(ce.module, c, ce.key, c, "merge_errors must receive the complete self.errors list")
    for node in walk_no_nested(ce.node):
        if is_self_attr(node, "max_errors"):
            par = ce.module.parent(node)
            if isinstance(par, ast.Call) and call_name(par) == "concat_messages":
                ctx.ok(f"{ce.key}|max_errors->concat_messages")
            else:
                ctx.fail(ce.module, node, ce.key, ce.module.enclosing_stmt(node) or node,
                         "max_errors used outside concat_messages: it may limit which errors are reported")


def rule_e(ctx: Ctx) -> None:
    ctx.rule(
        "C14.e",
        "delegating generators: a Generator subclass whose generate() delegates to sub-generators constructs each of them with every "
        "generator option it received itself (unsupported_level, max_unsupported, comments, pretty, ...), explicitly or through a kwargs helper",
    )
    repo = ctx.repo
    g = repo.cls("sqlglot.generator", "Generator")
    base_init = g.methods()["__init__"]
    options = [a.arg for a in base_init.args.args if a.arg not in ("self", "dialect")]
    n = 0
    for c in repo.subclasses(g):
        gen = c.methods().get("generate")
        if gen is None:
            continue
        delegates = sorted({
            x.func.value.attr for x in walk_no_nested(gen)
            if isinstance(x, ast.Call) and isinstance(x.func, ast.Attribute) and x.func.attr == "generate" and is_self_attr(x.func.value)
        })
        if not delegates:
            continue
        init = c.methods().get("__init__")
        where = f"{c.key}.__init__"
        if init is None:
            ctx.fail(c.module, gen, f"{c.key}.generate", gen.name, "generate() delegates to sub-generators but the class has no __init__ constructing them")
            continue
        own_params = {a.arg for a in init.args.args + init.args.kwonlyargs}
        # kwargs helpers: local = helper(p1, p2, ...) ; which option names does the returned dict carry?
        carried: dict[str, set[str]] = {}
        for st in walk_no_nested(init):
            if isinstance(st, ast.Assign) and len(st.targets) == 1 and isinstance(st.targets[0], ast.Name) and isinstance(st.value, ast.Call):
                cn = call_name(st.value)
                r = repo.resolve_name(c.module, cn) if cn else None
                if r and r[1] in r[0].funcs:
                    helper = r[0].funcs[r[1]].node
                    hparams = [a.arg for a in helper.args.args]
                    passed = {}
                    for i, a in enumerate(st.value.args):
                        if i < len(hparams) and isinstance(a, ast.Name):
                            passed[hparams[i]] = a.id
                    for kw in st.value.keywords:
                        if kw.arg and isinstance(kw.value, ast.Name):
                            passed[kw.arg] = kw.value.id
                    keys: set[str] = set()
                    for x in ast.walk(helper):
                        if isinstance(x, ast.Dict):
                            for k, v in zip(x.keys, x.values):
                                if isinstance(k, ast.Constant) and isinstance(v, ast.Name) and v.id in passed and passed[v.id] == k.value:
                                    keys.add(k.value)
                        if isinstance(x, ast.Assign) and isinstance(x.targets[0], ast.Subscript) and isinstance(x.targets[0].slice, ast.Constant) and isinstance(x.value, ast.Name):
                            if x.value.id in passed and passed[x.value.id] == x.targets[0].slice.value:
                                keys.add(x.targets[0].slice.value)
                    carried[st.targets[0].id] = keys
        for attr in delegates:
            ctors = [
                st.value for st in walk_no_nested(init)
                if isinstance(st, (ast.Assign, ast.AnnAssign)) and is_self_attr(st.targets[0] if isinstance(st, ast.Assign) else st.target, attr) and isinstance(st.value, ast.Call)
            ]
            if not ctors:
                ctx.fail(c.module, init, where, f"self.{attr}", f"delegate self.{attr} used by generate() is not constructed in __init__")
                continue
            call = ctors[-1]
            got = {kw.arg for kw in call.keywords if kw.arg and isinstance(kw.value, ast.Name) and kw.value.id == kw.arg}
            for kw in call.keywords:
                if kw.arg is None and isinstance(kw.value, ast.Name):
                    got |= carried.get(kw.value.id, set())
            for opt in options:
                if opt not in own_params:
                    continue
                n += 1
                if opt in got:
                    ctx.ok(f"{where}|self.{attr} receives {opt}", {"delegate": attr, "option": opt})
                else:
                    ctx.fail(c.module, call, where, f"self.{attr} = {norm(call.func)}(...) without {opt}",
                             f"generate() delegates to self.{attr}, but that generator is constructed without the caller's `{opt}`: the option "
                             f"(e.g. unsupported_level=RAISE/IGNORE) is silently replaced by the default for everything this dialect generates")
    ctx.count("delegate_option_obligations", n)
    ctx.min_instances("delegate_option_obligations", n, 10)


def _partial_error_reads(fn: ast.AST) -> list[ast.AST]:
    """subscripts / slices of `<x>.errors` and early exits from loops over it: reads that take part of an exception's error list."""
    out: list[ast.AST] = []
    for x in ast.walk(fn):
        if isinstance(x, ast.Subscript) and isinstance(x.value, ast.Attribute) and x.value.attr == "errors":
            out.append(x)
        if isinstance(x, ast.Call) and call_name(x) in ("next", "seq_get", "first") and x.args and any(isinstance(a, ast.Attribute) and a.attr == "errors" for a in ast.walk(x.args[0])):
            out.append(x)
    return out


def rule_f(ctx: Ctx) -> None:
    ctx.rule("C14.f", "the aggregated exception carries every collected error: merge_errors() (which builds ParseError.errors for check_errors at the RAISE level and for parse_into's "
                      "combined failure) iterates each exception's `.errors` list whole — no subscript, slice or first-element read of it: an exception re-raised from a nested "
                      "parse carries several entries, which WARN logs one by one, so RAISE would report fewer errors than the other levels see")
    ctx.require(len(_partial_error_reads(ast.parse("def m(errors):\n    return [e.errors[0] for e in errors if e.errors]\n"))) == 1,
                "internal: C14.f matcher no longer recognises its positive control")
    f = ctx.repo.func("sqlglot.errors", "merge_errors")
    whole = [g for x in ast.walk(f.node) if isinstance(x, (ast.ListComp, ast.GeneratorExp)) for g in x.generators if isinstance(g.iter, ast.Attribute) and g.iter.attr == "errors"]
    whole += [x for x in ast.walk(f.node) if isinstance(x, ast.For) and isinstance(x.iter, ast.Attribute) and x.iter.attr == "errors"]
    whole += [x for x in ast.walk(f.node) if isinstance(x, ast.Call) and call_name(x) in ("extend", "chain.from_iterable", "itertools.chain.from_iterable") or (isinstance(x, ast.Starred) and isinstance(x.value, ast.Attribute) and x.value.attr == "errors")]
    partial = _partial_error_reads(f.node)
    ctx.count("whole_iterations", len(whole))
    for x in partial:
        ctx.fail(f.module, x, f.key, x, f"`{norm(x, 60)}` takes part of an exception's error list: the entries behind it are dropped from the aggregated ParseError.errors, so the RAISE "
                                        f"level (and parse_into's combined failure) reports fewer errors than were collected and than WARN logs")
    if not partial:
        ctx.require(bool(whole), "anchor vanished: merge_errors() no longer iterates `<exception>.errors`")
        ctx.ok(f"{f.key}|every entry of every exception is kept", {"iterations": len(whole)})


RULES = [rule_a, rule_b, rule_c, rule_d, rule_e, rule_f]
EXPLANATION = (
    "Exhaustive static discharge of structural obligations that are necessary for C14: who-may-read confinement of "
    "the level/error state over every attribute access in the package, report-only shape of level-guarded branches, "
    "save/restore pairing in finally, who-may-raise UnsupportedError over every raise site, and a must-pass-through "
    "dataflow (hand-built CFG) for check_errors() in the statement loop. It decides the structure, not the run-time "
    "relation between four runs."
)
ASSUMPTIONS = [
    "CPython ast reflects the executed code (no monkey-patching of Parser/Generator at run time)",
    "attribute names error_level/errors/unsupported_level/unsupported_messages are not accessed via getattr strings",
    "exceptions raised by logger calls are out of scope",
]
