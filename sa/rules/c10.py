"""C10 – Qualification is complete, idempotent and faithful to dialect identifier rules.

Only the pipeline shape and the error family are structural (thin necessary conditions):
  C10.a  qualify() threads one expression through the stages in the order
         normalize_identifiers < qualify_tables < [isolate_table_selects] < qualify_columns
         < quote_identifiers < validate_qualify_columns; optional stages are guarded only by
         their own flag; defaults keep qualify/quote/validate/expand_stars on; the same dialect
         object reaches every dialect-sensitive stage.
  C10.b  every explicit raise in the qualification modules is a SqlglotError subclass.
  C10.c  shadowing precedence of CTE sources in Scope.branch (inner definitions win).
Does not decide: completeness, idempotence, star order, case rules (run-time valued).
"""

from __future__ import annotations

import ast

from ..core import Ctx, call_name, kwarg, norm, walk_no_nested

Q = "sqlglot.optimizer.qualify"
STAGES = [
    # (callee name, flag guarding it or None, assigns back, dialect kw required)
    ("normalize_identifiers", None, True, True),
    ("qualify_tables", None, True, True),
    ("isolate_table_selects", "isolate_tables", True, False),
    ("qualify_columns_func", "qualify_columns", True, False),
    ("quote_identifiers_func", "quote_identifiers", True, True),
    ("validate_qualify_columns_func", "validate_qualify_columns", False, False),
]
DEFAULTS = {"qualify_columns": True, "quote_identifiers": True, "validate_qualify_columns": True, "expand_stars": True, "expand_alias_refs": True, "isolate_tables": False}

# reviewed non-family raises: (module:qualname, normalised statement prefix) -> reason
REVIEWED_RAISES = {
    ("sqlglot.schema:ensure_column_mapping", "raise ValueError(f'Invalid mapping provided:"): "caller passed a Python object of the wrong type as a column mapping (API misuse, not a property input)",
    ("sqlglot.schema:nested_get", "raise ValueError(f'Unknown {name}: {key}')"): "only reachable with raise_on_missing when trie and mapping disagree; C18 keeps them coherent",
}


def rule_a(ctx: Ctx) -> None:
    ctx.rule("C10.a", "qualify(): stage order, single threaded variable, own-flag guards, defaults, dialect threading")
    f = ctx.repo.func(Q, "qualify")
    m = f.module
    # top-level statement index of each stage call
    pos: dict[str, tuple[int, ast.Call, ast.stmt]] = {}
    for i, st in enumerate(f.node.body):
        for c in ast.walk(st):
            if isinstance(c, ast.Call):
                cn = call_name(c)
                if cn in {s[0] for s in STAGES} and cn not in pos:
                    pos[cn] = (i, c, st)
    last = -1
    for name, flag, assigns, needs_dialect in STAGES:
        if name not in pos:
            ctx.fail(m, f.node, f.key, name, f"stage {name} is no longer called by qualify()")
            continue
        i, call, st = pos[name]
        if i <= last:
            ctx.fail(m, call, f.key, call, f"stage {name} runs before its predecessor: columns cannot be resolved before tables are qualified / validation before qualification rejects valid queries")
        else:
            ctx.ok(f"{f.key}|order {name}", {"stage": name, "statement_index": i})
        last = max(last, i)
        # first positional argument is the threaded variable
        if call.args and norm(call.args[0]) == "expression":
            ctx.ok(f"{f.key}|{name}(expression, ...)")
        else:
            ctx.fail(m, call, f.key, call, f"stage {name} does not receive the threaded `expression`")
        # guard
        if flag is None:
            if st is call or isinstance(st, (ast.Assign, ast.Expr)):
                ctx.ok(f"{f.key}|{name} unconditional")
            else:
                ctx.fail(m, st, f.key, st, f"stage {name} must run unconditionally")
        else:
            if isinstance(st, ast.If) and norm(st.test) == flag and not st.orelse:
                ctx.ok(f"{f.key}|{name} guarded by {flag}")
            else:
                ctx.fail(m, st, f.key, norm(st, 80), f"stage {name} must be guarded by exactly its own flag `{flag}`")
        # result assigned back
        holder = None
        for x in ast.walk(st):
            if isinstance(x, ast.Assign) and x.value is call:
                holder = x
        if assigns:
            if holder is not None and norm(holder.targets[0]) == "expression":
                ctx.ok(f"{f.key}|expression = {name}(...)")
            else:
                ctx.fail(m, call, f.key, call, f"the result of stage {name} is not assigned back to `expression`: later stages work on the stale tree")
        if needs_dialect:
            d = kwarg(call, "dialect")
            if d is not None and norm(d) == "dialect":
                ctx.ok(f"{f.key}|{name}(dialect=dialect)")
            else:
                ctx.fail(m, call, f.key, call, f"stage {name} does not receive the resolved dialect: identifier rules of another dialect would apply")
    # qualify_columns gets the schema
    if "qualify_columns_func" in pos:
        call = pos["qualify_columns_func"][1]
        if len(call.args) >= 2 and norm(call.args[1]) == "schema":
            ctx.ok(f"{f.key}|qualify_columns(expression, schema)")
        else:
            ctx.fail(m, call, f.key, call, "qualify_columns no longer receives the ensured schema")
        for k in ("expand_stars", "expand_alias_refs", "allow_partial_qualification", "infer_schema"):
            v = kwarg(call, k)
            if v is not None and norm(v) == k:
                ctx.ok(f"{f.key}|{k} threaded")
            else:
                ctx.fail(m, call, f.key, call, f"option {k} is not passed through to qualify_columns")
    # dialect resolved once, before stages; schema ensured with the same dialect
    rets = [r for r in walk_no_nested(f.node) if isinstance(r, ast.Return)]
    if len(rets) == 1 and norm(rets[0].value) == "expression" and f.node.body[-1] is rets[0]:
        ctx.ok(f"{f.key}|returns expression")
    else:
        ctx.fail(m, f.node, f.key, "return expression", "qualify() must end with a single `return expression`")
    # defaults
    a = f.node.args
    names = [x.arg for x in a.args]
    defaults = dict(zip(names[len(names) - len(a.defaults):], a.defaults))
    for k, want in DEFAULTS.items():
        d = defaults.get(k)
        if isinstance(d, ast.Constant) and d.value is want:
            ctx.ok(f"{f.key}|default {k}={want}")
        else:
            ctx.fail(m, f.node, f.key, f"{k}={norm(d) if d is not None else '<missing>'}", f"default of {k} must be {want}")


def rule_b(ctx: Ctx) -> None:
    ctx.rule("C10.b", "error family: every explicit raise in the qualification modules raises a SqlglotError subclass (or re-raises)")
    repo = ctx.repo
    errs = repo.module("sqlglot.errors")
    family = set()
    for c in errs.classes.values():
        if any(x.name == "SqlglotError" for x in repo.mro(c)):
            family.add(c.name)
    mods = ["sqlglot.optimizer.qualify", "sqlglot.optimizer.qualify_columns", "sqlglot.optimizer.qualify_tables", "sqlglot.optimizer.resolver",
            "sqlglot.optimizer.normalize_identifiers", "sqlglot.optimizer.scope", "sqlglot.optimizer.isolate_table_selects", "sqlglot.schema"]
    n = 0
    for mn in mods:
        m = repo.module(mn)
        for r in m.of_type(ast.Raise):
            n += 1
            f = m.enclosing_func(r)
            where = f.key if f else mn
            if r.exc is None:
                ctx.ok(f"{where}|re-raise")
                continue
            cn = (call_name(r.exc) if isinstance(r.exc, ast.Call) else norm(r.exc)) or ""
            base = cn.split(".")[-1]
            if base in family:
                ctx.ok(f"{where}|{norm(r, 70)}", {"raise": base})
                continue
            rev = [v for (w, pre), v in REVIEWED_RAISES.items() if w == where and norm(r).startswith(pre)]
            if rev:
                ctx.ok(f"{where}|{norm(r, 70)}", {"raise": base, "reviewed": rev[0]})
                continue
            ctx.fail(m, r, where, r, f"raises {base or norm(r.exc)}, which is outside the library's error family: qualify() would leak an internal exception")
    ctx.count("raise_sites", n)
    ctx.min_instances("raise_sites", n, 15)


def _merge_winner(e: ast.AST) -> list[str] | None:
    """operands of a mapping merge in increasing precedence (the last one wins on equal keys); None = unrecognised form"""
    def strip(x: ast.AST) -> str:
        # `(m or {})`, `dict(m)`, `m.copy()` denote m
        if isinstance(x, ast.BoolOp) and isinstance(x.op, ast.Or) and len(x.values) == 2 and isinstance(x.values[1], ast.Dict) and not x.values[1].keys:
            return strip(x.values[0])
        if isinstance(x, ast.Call) and call_name(x) == "dict" and len(x.args) == 1:
            return strip(x.args[0])
        if isinstance(x, ast.Call) and isinstance(x.func, ast.Attribute) and x.func.attr == "copy" and not x.args:
            return strip(x.func.value)
        return norm(x)

    if isinstance(e, ast.Dict) and e.keys and all(k is None for k in e.keys):
        return [strip(v) for v in e.values]
    if isinstance(e, ast.BinOp) and isinstance(e.op, ast.BitOr):
        l = _merge_winner(e.left) or [strip(e.left)]
        r = _merge_winner(e.right) or [strip(e.right)]
        return l + r
    if isinstance(e, ast.Call) and (call_name(e) or "").split(".")[-1] == "ChainMap":
        return [strip(a) for a in reversed(e.args)]  # ChainMap: the first mapping wins
    return None


def rule_c(ctx: Ctx) -> None:
    ctx.rule("C10.c", "shadowing: in Scope.branch the CTE sources handed to the inner scope take precedence over the ones inherited from the enclosing scope "
                      "(a nested WITH that re-defines an outer CTE name must resolve to the inner definition)")
    f = ctx.repo.func("sqlglot.optimizer.scope", "Scope.branch")
    calls = [c for c in walk_no_nested(f.node) if isinstance(c, ast.Call) and call_name(c) == "Scope"]
    ctx.require(len(calls) == 1, "anchor vanished: Scope.branch no longer builds exactly one Scope(...)")
    arg = kwarg(calls[0], "cte_sources")
    ctx.require(arg is not None, "anchor vanished: Scope.branch no longer passes cte_sources= to the inner Scope")
    order = _merge_winner(arg)
    inst = f"{f.key}|cte_sources={norm(arg, 80)}"
    if order is None or "self.cte_sources" not in order or "cte_sources" not in order:
        ctx.ok(inst, {"merge": norm(arg, 80), "decided": False, "note": "merge form not recognised by the rule; precedence not decided"})
        ctx.notes.append("C10.c: merge form in Scope.branch not recognised; precedence not decided")
    elif order.index("cte_sources") > order.index("self.cte_sources"):
        ctx.ok(inst, {"merge": norm(arg, 80), "precedence_low_to_high": order})
    else:
        ctx.fail(f.module, arg, f.key, arg,
                 f"the merge gives the enclosing scope's CTEs precedence over the inner ones (low to high: {order}): a nested WITH that re-defines an outer CTE name "
                 f"resolves to the outer definition, so stars expand to the wrong columns")


def rule_d(ctx: Ctx) -> None:
    ctx.rule("C10.d", "case folding honours ASCII_ONLY_NORMALIZATION in both directions: in Dialect.normalize_identifier every str.upper()/str.lower() of the identifier text "
                      "is the alternative of an ASCII-table translate() under a test of self.ASCII_ONLY_NORMALIZATION")
    f = ctx.repo.func("sqlglot.dialects.dialect", "Dialect.normalize_identifier")
    m = f.module
    folds = [c for c in walk_no_nested(f.node) if isinstance(c, ast.Call) and isinstance(c.func, ast.Attribute) and c.func.attr in ("upper", "lower", "casefold") and not c.args]
    ctx.require(bool(folds), "anchor vanished: normalize_identifier no longer folds case with str.upper()/lower()")
    for c in folds:
        inst = f"{f.key}|{norm(c, 50)}"
        ok = False
        cur: ast.AST = c
        p = m.parent(cur)
        while p is not None and p is not f.node:
            test = None
            if isinstance(p, ast.IfExp) and cur is p.orelse:
                test, other = p.test, p.body
            elif isinstance(p, ast.If) and any(cur is x for x in p.orelse):
                test, other = p.test, p.body
            if test is not None and "ASCII_ONLY_NORMALIZATION" in norm(test) and not (isinstance(test, ast.UnaryOp) and isinstance(test.op, ast.Not)):
                others = other if isinstance(other, list) else [other]
                if any(isinstance(x, ast.Call) and isinstance(x.func, ast.Attribute) and x.func.attr == "translate" for o in others for x in ast.walk(o)):
                    ok = True
            if isinstance(p, (ast.IfExp, ast.If)) and isinstance(getattr(p, "test", None), ast.UnaryOp) and "ASCII_ONLY_NORMALIZATION" in norm(p.test) and (cur is getattr(p, "body", None) or (isinstance(p, ast.If) and any(cur is x for x in p.body))):
                ok = True  # `x.upper() if not self.ASCII_ONLY_NORMALIZATION else x.translate(..)`
            cur, p = p, m.parent(p)
        if ok:
            ctx.ok(inst, {"fold": norm(c, 50), "ascii_alternative": True})
        else:
            ctx.fail(m, c, f.key, c, f"`{norm(c, 50)}` folds the whole Unicode range regardless of ASCII_ONLY_NORMALIZATION: in an ASCII-only dialect non-ASCII characters, "
                                     f"which are case-sensitive there, are altered (and distinct columns are conflated)")


def rule_e(ctx: Ctx) -> None:
    ctx.rule("C10.e", "no identity of strings: in the qualification modules id(x) is never taken of a value whose static type is str — equal strings may or may not be one "
                      "object (CPython interns one-character and identifier-like strings), so an id()-keyed table keyed by names conflates or separates entries by accident")
    from ..typed import types

    T = types(ctx.repo)
    mods = ["sqlglot.optimizer.qualify", "sqlglot.optimizer.qualify_columns", "sqlglot.optimizer.qualify_tables", "sqlglot.optimizer.resolver",
            "sqlglot.optimizer.normalize_identifiers", "sqlglot.optimizer.scope", "sqlglot.optimizer.isolate_table_selects", "sqlglot.schema"]
    n = 0
    for mn in mods:
        m = ctx.repo.module(mn)
        for c in m.of_type(ast.Call):
            if call_name(c) == "id" and len(c.args) == 1:
                n += 1
                ty = (T.of(m, c.args[0]) or "").replace("builtins.", "")
                f = m.enclosing_func(c)
                where = f.key if f else mn
                inst = f"{where}|{norm(c)}|{c.lineno - (f.node.lineno if f else 0)}"
                if ty in ("str", "str | None") or ty.startswith("Literal['"):
                    ctx.fail(m, c, where, c, f"`{norm(c)}` takes the identity of a string ({ty}): whether two equal names are the same object depends on interning, "
                                              f"so per-occurrence bookkeeping keyed by it leaks between occurrences (e.g. `a.* EXCEPT (x), a.*` for a one-character table name)")
                else:
                    ctx.ok(inst, {"id_of": norm(c.args[0], 40), "type": ty[:40] or "untyped"})
    ctx.count("id_calls", n)


def dead_settings(ctx: Ctx, rule_id: str, bases: list[tuple[str, str]]) -> None:
    """every UPPERCASE class-level setting of the given base classes that some subclass overrides is read somewhere in the package
    (attribute load or getattr/hasattr by name); a setting nobody reads any more means the guard that consulted it was dropped"""
    repo = ctx.repo
    reads: dict[str, int] = {}
    for m in repo.modules.values():
        for a in m.of_type(ast.Attribute):
            if isinstance(a.ctx, ast.Load) and a.attr.isupper():
                reads[a.attr] = reads.get(a.attr, 0) + 1
        for c in m.of_type(ast.Call):
            if isinstance(c.func, ast.Name) and c.func.id in ("getattr", "hasattr") and len(c.args) >= 2 and isinstance(c.args[1], ast.Constant) and isinstance(c.args[1].value, str):
                reads[c.args[1].value] = reads.get(c.args[1].value, 0) + 1
    n = 0
    for mod, cn in bases:
        c = repo.cls(mod, cn)
        flags = [k for k in c.body_assigns() if k.isupper()]
        over: dict[str, str] = {}
        for s_ in repo.subclasses(c):
            for k in s_.body_assigns():
                if k in flags:
                    over.setdefault(k, s_.key)
        for k in flags:
            if k not in over:
                continue
            n += 1
            if reads.get(k, 0) > 0:
                ctx.ok(f"{c.key}.{k}|read {reads[k]}x", None)
            else:
                ctx.fail(c.module, c.node, c.key, f"{cn}.{k}",
                         f"the setting {cn}.{k} is overridden (e.g. by {over[k]}) but nothing in the package reads it any more: the branch that consulted it was removed or made "
                         f"unconditional, so the dialects that set it no longer get their behaviour")
    ctx.count("overridden_settings", n)
    ctx.min_instances("overridden_settings", n, 20)


def rule_f(ctx: Ctx) -> None:
    ctx.rule("C10.f", "dialect settings are consulted: every class-level setting of Dialect that at least one dialect overrides (normalisation strategy, pseudo-column and "
                      "identifier rules, ...) is read somewhere in the package")
    dead_settings(ctx, "C10.f", [("sqlglot.dialects.dialect", "Dialect")])


TABLE_PART_KEYS = {"db", "catalog", "this"}


def rule_g(ctx: Ctx) -> None:
    ctx.rule("C10.g", "free-standing table qualifiers are normalised as table names: an identifier that optimizer code parses from text (exp.parse_identifier / exp.to_identifier), "
                      "normalises (normalize_identifiers / normalize_identifier) and then installs as a table's db / catalog is marked `.meta[\"is_table\"] = True` before it is "
                      "normalised — normalisation looks at the parent to recognise table parts, a free-standing identifier has none, and dialects that keep table names "
                      "case-sensitive (BigQuery) would fold the default dataset while leaving the same name written in the query alone")
    n = 0
    for f in ctx.repo.all_funcs():
        m = f.module
        if not m.name.startswith("sqlglot.optimizer") or ".<locals>." in f.qualname:
            continue
        # variables installed as a table part anywhere in the function (including nested helpers)
        installed: set[str] = set()
        for c in ast.walk(f.node):
            if isinstance(c, ast.Call) and isinstance(c.func, ast.Attribute) and c.func.attr == "set" and len(c.args) >= 2 and isinstance(c.args[0], ast.Constant) \
                    and c.args[0].value in ("db", "catalog"):
                for x in ast.walk(c.args[1]):
                    if isinstance(x, ast.Name):
                        installed.add(x.id)
        if not installed:
            continue
        marked_at: dict[str, int] = {}
        for st in ast.walk(f.node):
            if isinstance(st, ast.Assign) and len(st.targets) == 1 and isinstance(st.targets[0], ast.Subscript) and norm(st.targets[0].slice) in ("'is_table'", '"is_table"') \
                    and isinstance(st.targets[0].value, ast.Attribute) and st.targets[0].value.attr == "meta" and isinstance(st.targets[0].value.value, ast.Name):
                marked_at.setdefault(st.targets[0].value.value.id, st.lineno)
        for c in ast.walk(f.node):
            if not (isinstance(c, ast.Call) and (call_name(c) or "").split(".")[-1] in ("normalize_identifiers", "normalize_identifier") and c.args):
                continue
            a = c.args[0]
            par = m.parent(c)
            target = par.targets[0].id if isinstance(par, ast.Assign) and len(par.targets) == 1 and isinstance(par.targets[0], ast.Name) else None
            fresh_inline = isinstance(a, ast.Call) and (call_name(a) or "").split(".")[-1] in ("parse_identifier", "to_identifier")
            var = a.id if isinstance(a, ast.Name) else None
            if not ((var in installed) or (target in installed and (fresh_inline or var is not None))):
                continue
            n += 1
            inst = f"{f.key}|{norm(c, 70)}"
            if var and var in marked_at and marked_at[var] < c.lineno:
                ctx.ok(inst, {"normalised": norm(c, 70), "marked": f"{var}.meta['is_table'] = True"})
            else:
                ctx.fail(m, c, f.key, c, f"`{norm(c, 80)}` normalises an identifier that is later installed as a table's db / catalog without marking it "
                                         f"`.meta[\"is_table\"] = True` first: BigQuery folds the default dataset (Sales -> sales) although the same name written in the query keeps its case")
    ctx.count("free_standing_table_qualifiers", n)
    ctx.min_instances("free_standing_table_qualifiers", n, 2)


RULES = [rule_a, rule_b, rule_c, rule_d, rule_e, rule_f, rule_g]
EXPLANATION = (
    "Typestate of a straight-line pipeline: the order of the six stage calls, the single threaded variable, own-flag "
    "guards, defaults and dialect/schema threading in qualify() are read from its AST; the error family of every "
    "explicit raise in the qualification modules is resolved against sqlglot.errors' class hierarchy. A thin, exact "
    "necessary condition; completeness/idempotence are run-time valued and not decided."
)
ASSUMPTIONS = ["stage callees keep their imported names in sqlglot/optimizer/qualify.py", "reviewed table REVIEWED_RAISES (2 entries)"]
