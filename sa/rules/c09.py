"""C09 – Non-mutating APIs leave their arguments untouched and copies are independent.

Ownership discipline decided from the source:
  C09.a  copy-flag threading: in every function that has a `copy` parameter, each *borrowed*
         tree (self of an expression method, or a parameter that the function hands to
         maybe_copy / maybe_parse / a builder with copy=copy) is only read, compared, copied,
         or passed on with the flag threaded (`copy=copy`) — never mutated, embedded into a new
         node, or passed to a callee with copy=False / without the flag.
  C09.b  non-mutating entry points: Generator.generate copies under `if copy` before any other
         use of the argument (default True) and every public route to it threads the default;
         optimize() only passes maybe_parse(expression, copy=True) onward; transform copies unless
         copy=False; expand/replace_tables/replace_placeholders/lineage thread the flag;
         deepcopy shares nothing (fresh class instance per node, deepcopy of comments/type/meta).
  C09.c  copy=False call sites outside the in-place layers (parser, optimizer rules, generator,
         transforms): the receiver is owned (fresh / copy / maybe_copy result) or the call is a
         reviewed read-only use.
Does not decide: mutation through string-dispatched *_sql methods (covered by generate's copy),
builder *arguments* that are adopted by design.
"""

from __future__ import annotations

import ast

from ..core import Ctx, Func, Module, call_name, dotted, is_self_attr, kwarg, norm, walk_no_nested
from ..facts import facts

MUTATORS = {"set", "append", "replace", "pop", "set_kwargs", "add_comments", "pop_comments", "update_positions"}
COPY_AWARE = {"maybe_copy", "maybe_parse", "condition", "convert", "to_identifier", "to_table", "to_column", "alias_", "paren", "not_"}
READ_ONLY_CALLS = {"isinstance", "len", "str", "type", "bool", "id", "hash", "repr", "ensure_list", "ensure_collection", "seq_get", "list", "tuple", "iter", "any", "all", "hasattr", "getattr", "t.cast", "cast", "reversed", "enumerate", "zip", "sorted", "filter", "map"}
IN_PLACE_LAYERS = ("sqlglot.optimizer.", "sqlglot.parser", "sqlglot.parsers", "sqlglot.generator", "sqlglot.generators", "sqlglot.transforms", "sqlglot.executor", "sqlglot.planner", "sqlglot.typing", "sqlglot.dialects")

# (module:qualname, normalised call) -> reason a copy=False call on a non-owned receiver is harmless
REVIEWED_COPY_FALSE = {
    ("sqlglot.expressions.builders:table_name", "part.sql(dialect=dialect, identify=True, copy=False, comments=False)"):
        "generates single identifier parts; rule C09.c additionally proves identifier_sql (base and overrides) calls no mutator on its argument",
    ("sqlglot.expressions.datatypes:DataType.is_type", "DataType.build(dtype, copy=False, udt=True)"):
        "the result is only read (args.get / expressions / this) inside is_type; nothing is mutated or embedded",
    ("sqlglot.lineage:Node.to_html", "node.source.transform(lambda n: exp.Tag(this=n, prefix='<b>', postfix='</b>') if n is node.expression else n, copy=False)"):
        "operates on the lineage graph's own trees (built from copies by lineage()), never on a caller's argument; "
        "noted: it does alter the graph in place, so rendering twice nests the tags — outside C09's clause",
}


def _expr_class_names(ctx: Ctx) -> set[str]:
    return set(facts(ctx.repo)["expr_classes"]) | {"Expr", "Expression", "Query", "Condition", "DML", "Selectable"}


def _is_expr_method(ctx: Ctx, f: Func, names: set[str]) -> bool:
    if f.cls is None:
        return False
    c = f.module.classes.get(f.cls)
    return c is not None and any(x.name in names for x in ctx.repo.mro(c))


def rule_a(ctx: Ctx) -> None:
    ctx.rule(
        "C09.a",
        "copy-flag threading: in every function with a `copy` parameter borrowed trees (self / parameters handed to maybe_copy|maybe_parse|builders) "
        "are only read, copied or passed on with copy=copy; never mutated, embedded, or passed on with copy=False / without the flag",
    )
    names = _expr_class_names(ctx)
    n_funcs = 0
    n_uses = 0
    for f in ctx.repo.all_funcs():
        if "copy" not in f.params or f.module.name.startswith(("sqlglot.executor", "sqlglot.generator", "sqlglot.generators", "sqlglot.dialects", "sqlglot.lineage", "sqlglot.optimizer", "sqlglot.parser")):
            continue
        if "#" in f.qualname and not f.qualname.endswith("#3") and len(f.node.body) == 1:
            continue  # typing overload stub
        m = f.module
        fn = f.node
        n_funcs += 1
        where = f.key
        params = [p for p in f.params if p not in ("copy", "dialect", "opts", "kwargs")]
        borrowed: set[str] = set()
        if _is_expr_method(ctx, f, names) and "self" in params:
            borrowed.add("self")
        # parameters handed to a copy-aware callee with the flag => they are trees the caller still owns
        for c in walk_no_nested(fn):
            if isinstance(c, ast.Call):
                cn = (call_name(c) or "").split(".")[-1]
                kw = kwarg(c, "copy")
                threaded = (kw is not None and norm(kw) == "copy") or (cn == "maybe_copy" and len(c.args) >= 2 and norm(c.args[1]) == "copy")
                if threaded:
                    for a in list(c.args[:1]) + [k.value for k in c.keywords if k.arg in ("instance", "expression", "this")]:
                        if isinstance(a, ast.Name) and a.id in params and a.id != "self":
                            borrowed.add(a.id)
        if not borrowed:
            ctx.ok(f"{where}|no borrowed tree", None)
            continue
        # locals that are copy-guarded aliases: x = maybe_copy(b, copy) / _apply_*(instance=b, copy=copy) / b.copy() ...
        rebound: set[str] = set()
        for st in walk_no_nested(fn):
            if isinstance(st, ast.Assign) and len(st.targets) == 1 and isinstance(st.targets[0], ast.Name) and st.targets[0].id in borrowed:
                v = st.value
                cn = (call_name(v) or "").split(".")[-1] if isinstance(v, ast.Call) else ""
                if cn in COPY_AWARE or (isinstance(v, ast.IfExp)) or cn == "copy":
                    rebound.add(st.targets[0].id)
        for node in walk_no_nested(fn):
            if not (isinstance(node, ast.Name) and node.id in borrowed and isinstance(node.ctx, ast.Load)):
                continue
            b = node.id
            p = m.parent(node)
            st = m.enclosing_stmt(node) or node
            n_uses += 1
            inst = f"{where}|{b}|{norm(st, 80)}|L{node.lineno - fn.lineno}"
            verdict, why = _classify_use(m, fn, node, b, b in rebound)
            if not verdict and b != "self" and not (why.startswith("mutated in place") or "copy=False" in why):
                # a non-self parameter may hold a plain Python value (str/int/...) on this path; only unambiguous
                # tree mutations / explicit copy=False are armed for it
                verdict, why = True, "parameter use not armed (may be a non-tree value): " + why
            if verdict:
                ctx.ok(inst, {"function": where, "borrowed": b, "use": why})
            else:
                ctx.fail(m, node, where, st,
                         f"`{b}` is the caller's tree in a function with a copy flag, but here it is {why}: with copy=True the argument would still be changed")
        # a parameter parsed / adopted without the copy flag and then returned as is: with copy=True the caller gets its own node back
        for st in walk_no_nested(fn):
            if not (isinstance(st, ast.Assign) and len(st.targets) == 1 and isinstance(st.targets[0], ast.Name) and isinstance(st.value, ast.Call)):
                continue
            cn_ = (call_name(st.value) or "").split(".")[-1]
            if cn_ not in ("maybe_parse", "maybe_copy") or not st.value.args:
                continue
            a0 = st.value.args[0]
            kw_ = kwarg(st.value, "copy")
            threaded_ = (kw_ is not None and norm(kw_) == "copy") or (cn_ == "maybe_copy" and len(st.value.args) >= 2 and norm(st.value.args[1]) == "copy")
            if not (isinstance(a0, ast.Name) and a0.id in params and a0.id != "self") or threaded_:
                continue
            # `if isinstance(p, <node class>): return ...` earlier in the body: below it p is not a tree any more
            narrowed = any(
                isinstance(g_, ast.If) and g_.lineno < st.lineno and isinstance(g_.test, ast.Call) and call_name(g_.test) == "isinstance" and g_.test.args
                and norm(g_.test.args[0]) == a0.id and g_.body and isinstance(g_.body[-1], (ast.Return, ast.Raise))
                for g_ in fn.body
            )
            if narrowed:
                continue
            v_ = st.targets[0].id
            rebinds = [x for x in walk_no_nested(fn) if isinstance(x, ast.Assign) and any(isinstance(t_, ast.Name) and t_.id == v_ for t_ in x.targets) and x is not st]
            rets = [r for r in walk_no_nested(fn) if isinstance(r, ast.Return) and isinstance(r.value, ast.Name) and r.value.id == v_ and r.lineno > st.lineno
                    and not any(st.lineno < rb.lineno < r.lineno for rb in rebinds)]
            n_uses += 1
            if rets:
                ctx.fail(m, rets[0], where, f"{norm(st, 60)} ... return {v_}",
                         f"`{a0.id}` is adopted by {cn_}(...) without copy=copy and `{v_}` is returned as is: with copy=True the caller receives its own node (still attached to its "
                         f"parent), so editing the result edits the argument")
            else:
                ctx.ok(f"{where}|{norm(st, 60)}|not returned as is", None)
        # sub-trees read out of the caller's tree before it is copy-guarded must not be embedded elsewhere
        for b in sorted(borrowed):
            for sink, via, how in _derived_escapes(m, fn, b, params):
                n_uses += 1
                ctx.fail(m, sink, where, sink,
                         f"a sub-tree of the caller's tree `{b}` (read through `{via}` before `{b}` is copy-guarded) is {how} without a copy: "
                         f"with copy=True the caller's nodes are re-parented into the result, so the two trees share nodes")
    ctx.count("functions_with_copy_param", n_funcs)
    ctx.count("uses_of_borrowed_trees", n_uses)
    ctx.min_instances("functions_with_copy_param", n_funcs, 80)
    ctx.min_instances("uses_of_borrowed_trees", n_uses, 150)


CHILD_ACCESS = {"this", "expression", "expressions", "args", "find", "unnest", "selects", "ctes", "unalias"}


def _derived_escapes(m: Module, fn: ast.AST, b: str, params: list[str]) -> list[tuple[ast.AST, str, str]]:
    """(sink call, tainted local, description) for locals bound to children of the borrowed tree `b` while `b` is still
    the caller's object (before its first rebinding) that reach a constructor / set / append argument un-copied"""
    first = None
    for st in walk_no_nested(fn):
        if isinstance(st, ast.Assign) and len(st.targets) == 1 and isinstance(st.targets[0], ast.Name) and st.targets[0].id == b:
            first = st.lineno if first is None else min(first, st.lineno)

    def rooted(e: ast.AST, roots: set[str]) -> str | None:
        """name in roots such that e denotes (part of) the tree below it, un-copied"""
        if isinstance(e, ast.Name):
            return e.id if e.id in roots else None
        if isinstance(e, ast.Attribute):
            if e.attr in CHILD_ACCESS or isinstance(e.value, ast.Attribute):
                return rooted(e.value, roots)
            return None
        if isinstance(e, ast.Subscript):
            return rooted(e.value, roots)
        if isinstance(e, ast.Call) and isinstance(e.func, ast.Attribute):
            if e.func.attr in ("get", "find", "unnest", "unalias") :
                return rooted(e.func.value, roots)
            return None
        if isinstance(e, ast.BoolOp):
            return next((r for r in (rooted(v, roots) for v in e.values) if r), None)
        if isinstance(e, ast.IfExp):
            return rooted(e.body, roots) or rooted(e.orelse, roots)
        if isinstance(e, ast.BinOp) and isinstance(e.op, ast.Add):
            return rooted(e.left, roots) or rooted(e.right, roots)
        if isinstance(e, (ast.List, ast.Tuple)):
            return next((r for r in (rooted(x.value if isinstance(x, ast.Starred) else x, roots) for x in e.elts) if r), None)
        if isinstance(e, ast.NamedExpr):
            return rooted(e.value, roots)
        return None

    tainted: dict[str, str] = {}
    changed = True
    while changed:
        changed = False
        for st in walk_no_nested(fn):
            if not (isinstance(st, ast.Assign) and len(st.targets) == 1 and isinstance(st.targets[0], ast.Name)):
                continue
            tgt = st.targets[0].id
            if tgt == b or tgt in tainted:
                continue
            r = None
            if first is None or st.lineno < first:
                # a child of b itself (not b: plain aliases of b are classified by the main rule)
                if not isinstance(st.value, ast.Name):
                    r = rooted(st.value, {b})
            if r is None:
                r = rooted(st.value, set(tainted))
            if r is not None:
                tainted[tgt] = norm(st.value, 50) if r == b else tainted[r]
                changed = True
    out = []
    if not tainted:
        return out
    for c in walk_no_nested(fn):
        if not isinstance(c, ast.Call):
            continue
        cn = (call_name(c) or "").split(".")[-1]
        is_ctor = cn[:1].isupper() or (isinstance(c.func, ast.Name) and c.func.id in params and c.func.id not in ("copy",))
        is_set = isinstance(c.func, ast.Attribute) and c.func.attr in ("set", "append") and len(c.args) >= 2
        if not (is_ctor or is_set):
            continue
        vals = list(c.args[1:] if is_set else c.args) + [k.value for k in c.keywords if k.arg not in ("copy", "dialect")]
        for v in vals:
            r = rooted(v.value if isinstance(v, ast.Starred) else v, set(tainted))
            if r is not None:
                out.append((c, tainted[r], f"embedded by {norm(c, 60)}"))
                break
    return out


def _classify_use(m: Module, fn: ast.AST, node: ast.Name, b: str, rebound: bool) -> tuple[bool, str]:
    p = m.parent(node)
    # after `b = maybe_copy(b, copy)` every later use refers to the guarded alias
    if rebound:
        first = None
        for st in walk_no_nested(fn):
            if isinstance(st, ast.Assign) and len(st.targets) == 1 and isinstance(st.targets[0], ast.Name) and st.targets[0].id == b:
                first = st if first is None or st.lineno < first.lineno else first
        if first is not None and node.lineno > first.lineno:
            return True, "a copy-guarded rebinding of the parameter"
        if first is not None and any(x is node for x in ast.walk(first.value)):
            pass  # fall through: classify the use inside the rebinding expression itself
    if isinstance(p, ast.Attribute) and p.value is node:
        pp = m.parent(p)
        if isinstance(pp, ast.Call) and pp.func is p:
            a = p.attr
            if a == "copy":
                return True, "copied"
            if a in MUTATORS or (a == "append" and len(pp.args) == 2):
                return False, f"mutated in place (.{a}(...))"
            kw = kwarg(pp, "copy")
            if kw is not None:
                if norm(kw) == "copy":
                    return True, f".{a}(..., copy=copy)"
                if isinstance(kw, ast.Constant) and kw.value is False:
                    return False, f"passed to .{a}(..., copy=False)"
            if a == "transform":
                return (True, "transform with the copying default") if kw is None else (False, "transform(copy=<not threaded>)")
            return True, f"method call .{a}(...) (reader)"
        if isinstance(p.ctx, ast.Store):
            return False, f"attribute .{p.attr} assigned"
        return True, f"attribute read .{p.attr}"
    if isinstance(p, ast.Call):
        cn_full = call_name(p) or ""
        cn = cn_full.split(".")[-1]
        kw = kwarg(p, "copy")
        is_arg = node in p.args
        if is_arg or any(k.value is node for k in p.keywords):
            if cn == "maybe_copy" and len(p.args) >= 2 and norm(p.args[1]) == "copy":
                return True, "maybe_copy(x, copy)"
            if kw is not None and norm(kw) == "copy":
                return True, f"{cn}(..., copy=copy)"
            if kw is not None and isinstance(kw, ast.Constant) and kw.value is False:
                return False, f"passed to {cn}(..., copy=False)"
            if cn_full in READ_ONLY_CALLS or cn in READ_ONLY_CALLS:
                return True, f"{cn}(...) (read only)"
            if cn[:1].isupper():
                return False, f"embedded into a new {cn}(...) node without maybe_copy"
            if kw is not None:
                return False, f"passed to {cn}(..., copy={norm(kw)}) — flag not threaded"
            return False, f"passed to {cn}(...) without the copy flag"
    if isinstance(p, ast.keyword):
        call = m.parent(p)
        if isinstance(call, ast.Call):
            cn = (call_name(call) or "").split(".")[-1]
            kw = kwarg(call, "copy")
            if kw is not None and norm(kw) == "copy":
                return True, f"{cn}(..., {p.arg}=x, copy=copy)"
            if cn[:1].isupper():
                return False, f"embedded into a new {cn}({p.arg}=...) node without maybe_copy"
            if cn in READ_ONLY_CALLS:
                return True, "read only"
            return False, f"passed to {cn}({p.arg}=...) without the copy flag"
    if isinstance(p, (ast.Compare, ast.BoolOp, ast.UnaryOp, ast.If, ast.IfExp, ast.While)):
        if isinstance(p, ast.IfExp) and (p.body is node or p.orelse is node):
            # `x if not copy else x.copy()` / `x.copy() if copy else x`
            if "copy" in norm(p.test):
                return True, "conditional copy"
            return _classify_use(m, fn, p, b, False) if False else (True, "conditional value")
        return True, "test / comparison"
    if isinstance(p, ast.Return):
        return True, "returned unchanged (no mutation)"
    if isinstance(p, (ast.Tuple, ast.List)):
        pp = m.parent(p)
        if isinstance(pp, ast.Call):
            kw = kwarg(pp, "copy")
            if kw is not None and norm(kw) == "copy":
                return True, "collection passed on with copy=copy"
        if isinstance(pp, (ast.For, ast.comprehension, ast.Starred)):
            return True, "iterated"
        return False, "placed into a collection (embedded)"
    if isinstance(p, ast.Starred):
        pp = m.parent(p)
        if isinstance(pp, ast.Call):
            kw = kwarg(pp, "copy")
            if kw is not None and norm(kw) == "copy":
                return True, "unpacked into a call with copy=copy"
        return True, "unpacked"
    if isinstance(p, (ast.For, ast.comprehension)):
        return True, "iterated"
    if isinstance(p, ast.Assign):
        return True, "aliased"
    if isinstance(p, (ast.FormattedValue, ast.JoinedStr)):
        return True, "formatted"
    if isinstance(p, ast.Subscript):
        return True, "indexed"
    return True, f"other read ({type(p).__name__})"


def rule_b(ctx: Ctx) -> None:
    ctx.rule("C09.b", "entry points: generate() copies before use; sql()/Dialect.generate thread the default True; optimize/transform/expand/replace_*/lineage copy or thread; deepcopy shares no node")
    repo = ctx.repo
    # Generator.generate
    g = repo.func("sqlglot.generator", "Generator.generate")
    body = [st for st in g.node.body if not (isinstance(st, ast.Expr) and isinstance(st.value, ast.Constant))]
    first = body[0]
    pname = g.node.args.args[1].arg
    ok = isinstance(first, ast.If) and norm(first.test) == "copy" and len(first.body) == 1 and norm(first.body[0]) == f"{pname} = {pname}.copy()" and not first.orelse
    if ok:
        ctx.ok(f"{g.key}|copies the argument before any other use")
    else:
        ctx.fail(g.module, first, g.key, first, "Generator.generate must start with `if copy: expression = expression.copy()`: *_sql methods rewrite the tree while printing")
    defaults = {a.arg: d for a, d in zip(g.node.args.args[-len(g.node.args.defaults):], g.node.args.defaults)}
    d = defaults.get("copy")
    if isinstance(d, ast.Constant) and d.value is True:
        ctx.ok(f"{g.key}|copy defaults to True")
    else:
        ctx.fail(g.module, g.node, g.key, f"copy={norm(d) if d is not None else None}", "generate(copy=...) must default to True")
    # routes to generate thread the flag and default True
    for mod, qn, callee in (
        ("sqlglot.expressions.core", "Expression.sql", "generate"),
        ("sqlglot.dialects.dialect", "Dialect.generate", "generate"),
    ):
        f = repo.func(mod, qn)
        calls = [c for c in walk_no_nested(f.node) if isinstance(c, ast.Call) and isinstance(c.func, ast.Attribute) and c.func.attr == callee]
        dflt = {a.arg: dd for a, dd in zip((f.node.args.args + f.node.args.kwonlyargs)[-len(f.node.args.defaults) - len(f.node.args.kwonlyargs):], list(f.node.args.defaults) + list(f.node.args.kw_defaults))}
        dc = dflt.get("copy")
        threaded = bool(calls) and all(kwarg(c, "copy") is not None and norm(kwarg(c, "copy")) == "copy" for c in calls)
        if threaded and isinstance(dc, ast.Constant) and dc.value is True:
            ctx.ok(f"{f.key}|threads copy (default True) to {callee}()")
        else:
            ctx.fail(f.module, f.node, f.key, f"{qn} -> {callee}(copy=copy)", f"{qn} must pass its copy flag (default True) to {callee}()")
    # every other call of .generate( / .sql( with copy=False is handled by C09.c
    # optimize
    o = repo.func("sqlglot.optimizer.optimizer", "optimize")
    mp = [st for st in walk_no_nested(o.node) if isinstance(st, ast.Assign) and isinstance(st.value, ast.Call) and (call_name(st.value) or "").endswith("maybe_parse")]
    okk = False
    for st in mp:
        kw = kwarg(st.value, "copy")
        if kw is not None and isinstance(kw, ast.Constant) and kw.value is True and st.value.args and norm(st.value.args[0]) == "expression":
            tgt = norm(st.targets[0])
            # rules receive only the copy
            rule_calls = [c for c in walk_no_nested(o.node) if isinstance(c, ast.Call) and isinstance(c.func, ast.Name) and c.func.id == "rule"]
            if rule_calls and all(c.args and norm(c.args[0]) == tgt for c in rule_calls):
                okk = True
            # `expression` itself must not be passed to anything else
            other = [n for n in walk_no_nested(o.node) if isinstance(n, ast.Name) and n.id == "expression" and isinstance(n.ctx, ast.Load) and n is not st.value.args[0]]
            if other:
                okk = False
    if okk:
        ctx.ok(f"{o.key}|rules only see maybe_parse(expression, copy=True)")
    else:
        ctx.fail(o.module, o.node, o.key, "optimized = maybe_parse(expression, copy=True); rule(optimized, ...)", "optimize() must hand the rules a copy (maybe_parse(..., copy=True)) and never the argument itself")
    # transform
    tr = repo.func("sqlglot.expressions.core", "Expression.transform")
    if any(isinstance(x, ast.IfExp) and norm(x) == "self.copy() if copy else self" for x in ast.walk(tr.node)):
        ctx.ok(f"{tr.key}|walks self.copy() unless copy=False")
    else:
        ctx.fail(tr.module, tr.node, tr.key, "(self.copy() if copy else self).dfs(...)", "transform no longer copies the tree when copy=True")
    for mod, qn in (("sqlglot.expressions.builders", "expand"), ("sqlglot.expressions.builders", "replace_tables")):
        f = repo.func(mod, qn)
        rets = [r for r in walk_no_nested(f.node) if isinstance(r, ast.Return) and isinstance(r.value, ast.Call) and isinstance(r.value.func, ast.Attribute) and r.value.func.attr == "transform"]
        if rets and all(kwarg(r.value, "copy") is not None and norm(kwarg(r.value, "copy")) == "copy" for r in rets):
            ctx.ok(f"{f.key}|expression.transform(..., copy=copy)")
        else:
            ctx.fail(f.module, f.node, f.key, "return expression.transform(..., copy=copy)", f"{qn} must thread its copy flag into transform")
    rp = repo.func("sqlglot.expressions.builders", "replace_placeholders")
    rets = [r for r in walk_no_nested(rp.node) if isinstance(r, ast.Return) and isinstance(r.value, ast.Call) and isinstance(r.value.func, ast.Attribute) and r.value.func.attr == "transform"]
    if rets and all(kwarg(r.value, "copy") is None for r in rets):
        ctx.ok(f"{rp.key}|transform with the copying default")
    else:
        ctx.fail(rp.module, rp.node, rp.key, "return expression.transform(...)", "replace_placeholders must use transform's copying default")
    # ... and the replacement values it inserts are copies (convert() returns an expression argument as is unless copy=True)
    convs = [c for c in ast.walk(rp.node) if isinstance(c, ast.Call) and (call_name(c) or "").split(".")[-1] == "convert"]
    ctx.require(bool(convs), "anchor vanished: replace_placeholders no longer builds its replacements with convert()")
    for c in convs:
        kw_ = kwarg(c, "copy")
        if isinstance(kw_, ast.Constant) and kw_.value is True:
            ctx.ok(f"{rp.key}|{norm(c)}")
        else:
            ctx.fail(rp.module, c, rp.key, c, "the replacement value is inserted as is: a node passed by the caller is adopted by the new tree (its parent changes) and, when several "
                                              "placeholders take the same value, stored in several places")
    # lineage
    lin = [f for k, f in repo.module("sqlglot.lineage").funcs.items() if k.startswith("lineage") and len(f.node.body) > 2]
    ctx.require(bool(lin), "anchor vanished: sqlglot.lineage.lineage")
    lf = lin[-1]
    mps = [c for c in walk_no_nested(lf.node) if isinstance(c, ast.Call) and (call_name(c) or "").endswith("maybe_parse")]
    exps = [c for c in walk_no_nested(lf.node) if isinstance(c, ast.Call) and (call_name(c) or "").endswith("expand")]
    if mps and all(kwarg(c, "copy") is not None and norm(kwarg(c, "copy")) == "copy" for c in mps + exps):
        ctx.ok(f"{lf.key}|maybe_parse/expand receive copy=copy (default True)")
    else:
        ctx.fail(lf.module, lf.node, lf.key, "maybe_parse(sql, copy=copy)", "lineage() must thread copy (default True) into maybe_parse/expand before qualifying in place")
    # deepcopy: fresh class instance per node, deepcopy of comments/_type/_meta
    dc = repo.func("sqlglot.expressions.core", "Expression.__deepcopy__")
    src = norm(dc.node, 100000)
    needs = ["self.__class__()", "vs.__class__()", "v.__class__()", "deepcopy(node.comments)", "deepcopy(node._type)", "deepcopy(node._meta)"]
    missing = [x for x in needs if x not in src]
    if not missing:
        ctx.ok(f"{dc.key}|fresh instance per node; comments/_type/_meta deep-copied")
    else:
        ctx.fail(dc.module, dc.node, dc.key, "__deepcopy__", f"__deepcopy__ no longer creates/deep-copies {missing}: a copy would share state with the original")
    cp = repo.func("sqlglot.expressions.core", "Expression.copy")
    if any(isinstance(c, ast.Call) and call_name(c) == "deepcopy" and norm(c.args[0]) == "self" for c in walk_no_nested(cp.node)):
        ctx.ok(f"{cp.key}|deepcopy(self)")
    else:
        ctx.fail(cp.module, cp.node, cp.key, "copy", "Expression.copy must return deepcopy(self)")


def rule_c(ctx: Ctx) -> None:
    ctx.rule("C09.c", "copy=False call sites outside the in-place layers act on owned trees (fresh node / .copy() / maybe_copy|maybe_parse result / builder result) or are reviewed read-only uses")
    repo = ctx.repo
    n = 0
    for m in repo.modules.values():
        if m.name.startswith(IN_PLACE_LAYERS) and m.name != "sqlglot.optimizer.optimizer" and m.name != "sqlglot.dialects.dialect":
            continue
        for c in m.of_type(ast.Call):
            kw = kwarg(c, "copy")
            if not (isinstance(kw, ast.Constant) and kw.value is False):
                continue
            f = m.enclosing_func(c)
            where = f.key if f else m.name
            if m.name == "sqlglot.dialects.dialect" and not (f and f.cls == "Dialect"):
                continue  # generator helpers in dialect.py act on the generator's private copy
            n += 1
            inst = f"{where}|{norm(c, 90)}"
            # receiver / first argument
            recv = c.func.value if isinstance(c.func, ast.Attribute) else (c.args[0] if c.args else None)
            if (call_name(c) or "").split(".")[-1] in ("generate",) and c.args:
                recv = c.args[0]
            ok, why = _owned(m, f, recv)
            if ok:
                ctx.ok(inst, {"call": norm(c, 80), "in": where, "receiver": why})
            elif (where, norm(c, 400)) in REVIEWED_COPY_FALSE:
                ctx.ok(inst, {"call": norm(c, 80), "in": where, "reviewed": REVIEWED_COPY_FALSE[(where, norm(c, 400))]})
            else:
                ctx.fail(m, c, where, c, f"copy=False on a tree that is not provably owned here ({why}): the caller's tree may be mutated")
    ctx.count("copy_false_sites_in_scope", n)
    ctx.min_instances("copy_false_sites_in_scope", n, 12)
    # support for the reviewed table_name exception: identifier_sql never mutates its argument
    g = repo.cls("sqlglot.generator", "Generator")
    for k in [g] + repo.subclasses(g):
        md = k.methods().get("identifier_sql")
        if md is None:
            continue
        arg = md.args.args[1].arg
        bad = [c for c in walk_no_nested(md) if isinstance(c, ast.Call) and isinstance(c.func, ast.Attribute) and isinstance(c.func.value, ast.Name) and c.func.value.id == arg and (c.func.attr in MUTATORS or c.func.attr == "append")]
        if bad:
            ctx.fail(k.module, bad[0], f"{k.key}.identifier_sql", bad[0], "identifier_sql mutates its argument, but table_name() generates identifier parts with copy=False")
        else:
            ctx.ok(f"{k.key}.identifier_sql|no mutator call on its argument")


def _owned(m: Module, f: Func | None, recv: ast.AST | None, _seen: set | None = None) -> tuple[bool, str]:
    if recv is None:
        return False, "no receiver"
    if isinstance(recv, ast.Constant) and recv.value is None:
        return True, "None"
    if isinstance(recv, ast.Call) and isinstance(recv.func, ast.Attribute) and kwarg(recv, "copy") is not None and isinstance(kwarg(recv, "copy"), ast.Constant) and kwarg(recv, "copy").value is False:
        # builder(copy=False) returns its (mutated) receiver: owned iff the receiver is
        if _seen is None:
            _seen = set()
        inner = recv.func.value
        if isinstance(inner, ast.Name) and inner.id in _seen:
            return True, "chained builder on the same local"
        return _owned(m, f, inner, _seen)
    if isinstance(recv, ast.Call):
        cn = (call_name(recv) or "").split(".")[-1]
        if cn[:1].isupper() or cn in ("copy", "maybe_copy", "maybe_parse", "parse_one", "subquery", "unnest", "from_str", "select", "from_", "build"):
            if cn == "unnest" and isinstance(recv.func, ast.Attribute):
                return _owned(m, f, recv.func.value, _seen)
            return True, f"result of {cn}(...)"
        return False, f"result of {cn}(...)"
    if isinstance(recv, ast.Attribute):
        return _owned(m, f, recv.value, _seen)
    if isinstance(recv, ast.Name) and f is not None:
        defs = [st.value for st in walk_no_nested(f.node) if isinstance(st, ast.Assign) and any(isinstance(t_, ast.Name) and t_.id == recv.id for t_ in st.targets)]
        defs += [st.value for st in walk_no_nested(f.node) if isinstance(st, ast.AnnAssign) and isinstance(st.target, ast.Name) and st.target.id == recv.id and st.value is not None]
        # loop variables over freshly parsed trees
        for lp in walk_no_nested(f.node):
            if isinstance(lp, (ast.For, ast.comprehension)) and any(isinstance(x, ast.Name) and x.id == recv.id for x in ast.walk(lp.target)):
                it = lp.iter
                cn = (call_name(it) or "").split(".")[-1] if isinstance(it, ast.Call) else ""
                if cn in ("parse", "parse_into"):
                    return True, f"element of {cn}(...) (freshly parsed)"
                if isinstance(it, (ast.Tuple, ast.List)) and it.elts and isinstance(lp.target, ast.Name):
                    # `for q in (a.this, a.expression)`: owned iff every listed tree is
                    oks = [_owned(m, f, e, set(_seen or ()) | {recv.id}) for e in it.elts]
                    if all(o for o, _ in oks):
                        return True, f"loop variable over owned trees ({oks[0][1]})"
                    return False, f"loop variable over {norm(it, 40)}: {[w for o, w in oks if not o][0]}"
                return False, f"loop variable over {norm(it, 40)}"
        if defs:
            _seen = set(_seen or ()) | {recv.id}
            oks = [_owned(m, f, d, _seen) for d in defs]
            if all(o for o, _ in oks):
                return True, f"local bound from {oks[0][1]}"
            return False, f"local `{recv.id}` bound from {[w for o, w in oks if not o][:2]}"
        return False, f"`{recv.id}` is a parameter / free variable"
    return False, f"{type(recv).__name__}"


def _copy_default(fn: ast.FunctionDef):
    pos = fn.args.args
    defaults = [None] * (len(pos) - len(fn.args.defaults)) + list(fn.args.defaults)
    for a, d in list(zip(pos, defaults)) + list(zip(fn.args.kwonlyargs, fn.args.kw_defaults)):
        if a.arg == "copy":
            return d.value if isinstance(d, ast.Constant) else "?"
    return "absent"


def _same_name_calls(tree: ast.AST) -> list[tuple[ast.FunctionDef, ast.Call]]:
    out = []
    for fn in ast.walk(tree):
        if isinstance(fn, ast.FunctionDef) and _copy_default(fn) != "absent":
            for c in ast.walk(fn):
                if isinstance(c, ast.Call) and (call_name(c) or "").split(".")[-1] == fn.name:
                    out.append((fn, c))
    return out


def rule_d(ctx: Ctx) -> None:
    ctx.rule("C09.d", "the copy flag is threaded through same-name delegation: a function with a `copy` parameter that calls a function of its own name — recursion over the parts of "
                      "its argument (convert over list / dict / struct members), a method delegating to the module-level builder — states `copy` at that call whenever a function of "
                      "that name defaults to copy=False: an omitted flag adopts the caller's nodes for that part only")
    probe = ast.parse("def conv(v, copy=False):\n    return M(keys=[conv(k, copy=copy) for k in v], values=[conv(x) for x in v.values()])\n")
    ctx.require(sum(1 for _, c in _same_name_calls(probe) if kwarg(c, "copy") is None) == 1, "internal: C09.d matcher no longer recognises its positive control")
    defaults: dict[str, set] = {}
    for m in ctx.repo.modules.values():
        for fn in m.of_type(ast.FunctionDef):
            d = _copy_default(fn)
            if d != "absent":
                defaults.setdefault(fn.name, set()).add(d)
    n = 0
    for m in ctx.repo.modules.values():
        for fn, c in _same_name_calls(m.tree):
            n += 1
            f = m.enclosing_func(c)
            where = f.key if f else f"{m.name}:{fn.name}"
            inst = f"{where}|{norm(c, 90)}"
            kw = kwarg(c, "copy")
            positional = any(isinstance(a, ast.Name) and a.id == "copy" for a in c.args) or any(k.arg is None for k in c.keywords)
            if kw is not None or positional:
                ctx.ok(inst, {"call": norm(c, 80), "copy": norm(kw) if kw is not None else "positional / **kwargs"})
            elif False not in defaults.get(fn.name, set()) and None not in defaults.get(fn.name, set()):
                ctx.ok(inst, {"call": norm(c, 80), "copy": "omitted; every function of this name copies by default"})
            else:
                ctx.fail(m, c, where, c, f"`{norm(c, 70)}` inside `{fn.name}(…, copy)` does not pass the copy flag on, and `{fn.name}` defaults to copy=False: with copy=True the result "
                                         f"adopts the caller's nodes for this part (they are re-parented into the new tree, edits to either side show up in the other)")
    ctx.count("same_name_calls", n)
    ctx.min_instances("same_name_calls", n, 10)


RULES = [rule_b, rule_a, rule_c, rule_d]
EXPLANATION = (
    "Ownership analysis of the public tree API: for each of the ~100 functions that take a copy flag every use of a borrowed tree "
    "(self / parameters handed to copy-aware callees) is classified as read, copy, threaded pass-on, or a mutating/embedding use; the "
    "non-mutating entry points are shape-checked for copy-before-use (dominance in generate, rules fed only from maybe_parse(copy=True), "
    "transform, flag threading in expand/replace_*/lineage) and deepcopy for sharing nothing; copy=False call sites outside the in-place "
    "layers must act on owned trees. Decides the copy discipline, not every mutation a *_sql method performs on its private copy."
)
ASSUMPTIONS = [
    "parser, optimizer rules, generator and transforms mutate in place by contract (optimize()/generate() copy first); they are excluded from C09.c",
    "borrowed trees are recognised syntactically (self of expression-class methods; parameters passed to maybe_copy/maybe_parse/builders with copy=copy)",
    "reviewed table REVIEWED_COPY_FALSE (3 entries)",
]
