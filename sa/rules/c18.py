"""C18 – Schema lookups always reflect the current registrations (cache coherence).

  C18.a  write => invalidate: every method that writes schema state read by a memo's fill
         function invalidates that memo on every path after the write; keyed eviction is
         not enough when the fill resolves partial paths (TrieResult.PREFIX).
  C18.b  memo-key completeness: every parameter read by a memoised computation occurs in
         the memo key (or in the reviewed projection table).
  C18.c  a failed lookup (None) is never served from the cache.
Does not decide: trie/dict arithmetic of _find_in_trie, scalar memos (_depth,
_supported_table_args) which are protected by add_table's match_depth check.
"""

from __future__ import annotations

import ast
import re

from ..cfg import CFG, forward
from ..core import AnalysisError, Cls, Ctx, call_name, dotted, is_self_attr, norm, walk_no_nested
from ..effects import MUTATORS, mutated_params

# (function, parameter) -> reason the parameter may be absent from the memo key
KEY_EXCEPTIONS = {
    ("find", "raise_on_missing"): "affects only the failure outcome (None vs SchemaError); failures are never cached (C18.c)",
}
# (function, parameter) -> attributes of the parameter the computation depends on; each must be
# projected into a local that is part of the key
KEY_PROJECTIONS = {
    ("_normalize_name", "name"): {"name", "quoted"},
}


def _classes(ctx: Ctx) -> list[Cls]:
    ms = ctx.repo.cls("sqlglot.schema", "MappingSchema")
    return [c for c in ctx.repo.mro(ms) if c.module.name == "sqlglot.schema"]


def _methods(ctx: Ctx):
    """name -> list of (Cls, FunctionDef) along the MRO (first = most derived)."""
    out: dict[str, list[tuple[Cls, ast.FunctionDef]]] = {}
    for c in _classes(ctx):
        for name, md in c.methods().items():
            out.setdefault(name, []).append((c, md))
    return out


def _init_fields(ctx: Ctx) -> set[str]:
    out = set()
    for c in _classes(ctx):
        md = c.methods().get("__init__")
        if md is None:
            continue
        for n in walk_no_nested(md):
            if isinstance(n, ast.Attribute) and isinstance(n.ctx, ast.Store) and is_self_attr(n):
                out.add(n.attr)
    return out


def _self_reads(ctx: Ctx, cls: Cls, md: ast.FunctionDef, methods, depth: int = 6) -> tuple[set[str], list[ast.FunctionDef]]:
    """Fields read (self.X loads) by md and transitively by self./super(). methods & properties."""
    fields: set[str] = set()
    seen: set[int] = set()
    funcs: list[ast.FunctionDef] = []

    def resolve(name: str, after: Cls | None):
        lst = methods.get(name, [])
        if after is not None:
            order = [c.key for c in _classes(ctx)]
            i = order.index(after.key)
            lst = [(c, m) for c, m in lst if order.index(c.key) > i]
        return lst[0] if lst else None

    def rec(c: Cls, f: ast.FunctionDef, d: int) -> None:
        if id(f) in seen or d < 0:
            return
        seen.add(id(f))
        funcs.append(f)
        for n in walk_no_nested(f):
            if isinstance(n, ast.Attribute) and is_self_attr(n):
                r = resolve(n.attr, None)
                if r is not None:
                    rec(r[0], r[1], d - 1)  # method or property
                else:
                    if isinstance(n.ctx, ast.Load):
                        fields.add(n.attr)
            if isinstance(n, ast.Call) and isinstance(n.func, ast.Attribute) and isinstance(n.func.value, ast.Call) and call_name(n.func.value) == "super":
                r = resolve(n.func.attr, c)
                if r is not None:
                    rec(r[0], r[1], d - 1)

    rec(cls, md, depth)
    return fields, funcs


class Memo:
    def __init__(self, field: str, cls: Cls, func: ast.FunctionDef, read_key: ast.AST, store_key: ast.AST, guard: str):
        self.field, self.cls, self.func, self.read_key, self.store_key, self.guard = field, cls, func, read_key, store_key, guard


def _find_memos(ctx: Ctx) -> list[Memo]:
    fields = _init_fields(ctx)
    memos: list[Memo] = []
    for c in _classes(ctx):
        for name, md in c.methods().items():
            if name == "__init__":
                continue
            stores = [
                n for n in walk_no_nested(md)
                if isinstance(n, ast.Subscript) and isinstance(n.ctx, ast.Store) and is_self_attr(n.value) and n.value.attr in fields
            ]
            for st in stores:
                fld = st.value.attr
                read_key = None
                guard = ""
                for n in walk_no_nested(md):
                    if isinstance(n, ast.Call) and isinstance(n.func, ast.Attribute) and n.func.attr == "get" and is_self_attr(n.func.value, fld) and n.args:
                        read_key = n.args[0]
                        guard = "get"
                    if isinstance(n, ast.Compare) and len(n.ops) == 1 and isinstance(n.ops[0], (ast.In, ast.NotIn)) and is_self_attr(n.comparators[0], fld):
                        read_key = n.left
                        guard = "in"
                if read_key is not None:
                    memos.append(Memo(fld, c, md, read_key, st.slice, guard))
    return memos


def _resolve_local(md: ast.FunctionDef, e: ast.AST) -> ast.AST:
    """If e is a local name assigned exactly once in md, return its defining expression."""
    if isinstance(e, ast.Name):
        defs = [
            st.value for st in walk_no_nested(md)
            if isinstance(st, ast.Assign) and len(st.targets) == 1 and isinstance(st.targets[0], ast.Name) and st.targets[0].id == e.id
        ]
        if len(defs) == 1:
            return defs[0]
    return e


def rule_b(ctx: Ctx) -> None:
    ctx.rule("C18.b", "memo-key completeness: every parameter the memoised computation reads is part of the key it is looked up under")
    memos = _find_memos(ctx)
    ctx.count("memo_functions", len(memos))
    ctx.min_instances("memo_functions", len(memos), 4)
    for mm in memos:
        md = mm.func
        key_expr = _resolve_local(md, mm.read_key)
        key_names = {n.id for n in ast.walk(key_expr) if isinstance(n, ast.Name)}
        params = [a.arg for a in md.args.posonlyargs + md.args.args + md.args.kwonlyargs if a.arg != "self"]
        # statements that only derive key components: `x = ...` where x in key_names
        deriv_nodes: set[int] = set()
        derived_from: dict[str, list[ast.AST]] = {}
        for st in walk_no_nested(md):
            if isinstance(st, ast.Assign) and len(st.targets) == 1 and isinstance(st.targets[0], ast.Name) and st.targets[0].id in key_names:
                for x in ast.walk(st):
                    deriv_nodes.add(id(x))
                derived_from.setdefault(st.targets[0].id, []).append(st.value)
        for x in ast.walk(key_expr):
            deriv_nodes.add(id(x))
        for x in ast.walk(mm.read_key):
            deriv_nodes.add(id(x))
        where = f"{mm.cls.key}.{md.name}"
        for p in params:
            used = [
                n for n in walk_no_nested(md)
                if isinstance(n, ast.Name) and n.id == p and isinstance(n.ctx, ast.Load) and id(n) not in deriv_nodes
            ]
            inst = f"{where}|{mm.field}|param {p}"
            if not used:
                ctx.ok(inst, {"memo": mm.field, "param": p, "status": "only used to build the key"})
                continue
            if p in key_names:
                ctx.ok(inst, {"memo": mm.field, "param": p, "status": "in key", "key": norm(key_expr, 80)})
                continue
            if (md.name, p) in KEY_EXCEPTIONS:
                ctx.ok(inst, {"memo": mm.field, "param": p, "status": "reviewed exception", "why": KEY_EXCEPTIONS[(md.name, p)]})
                continue
            proj = KEY_PROJECTIONS.get((md.name, p))
            if proj:
                covered = set()
                for loc, vals in derived_from.items():
                    for v in vals:
                        for a in ast.walk(v):
                            if isinstance(a, ast.Attribute) and isinstance(a.value, ast.Name) and a.value.id == p:
                                covered.add(a.attr)
                missing = proj - covered
                if not missing:
                    ctx.ok(inst, {"memo": mm.field, "param": p, "status": "projections in key", "projections": sorted(proj)})
                    continue
                ctx.fail(mm.cls.module, used[0], where, f"{mm.field}[{norm(key_expr, 80)}] vs {p}",
                         f"memo {mm.field}: the computation reads `{p}` but the key only contains projections that omit {sorted(missing)}; "
                         f"two arguments differing in {sorted(missing)} share one cache entry, so an earlier lookup decides a later answer")
                continue
            ctx.fail(mm.cls.module, used[0], where, f"{mm.field}[{norm(key_expr, 80)}] vs {p}",
                     f"memo {mm.field}: parameter `{p}` is read by the memoised computation ({norm(ctx_stmt(mm, used[0]), 70)}) but is not part of "
                     f"the cache key {norm(key_expr, 60)}: an earlier lookup with another `{p}` decides later answers")


def ctx_stmt(mm: Memo, node: ast.AST) -> ast.AST:
    return mm.cls.module.enclosing_stmt(node) or node


def rule_a(ctx: Ctx) -> None:
    ctx.rule("C18.a", "write => invalidate: every writer of state read by a memo's fill function fully invalidates the memo on all paths after the write")
    repo = ctx.repo
    methods = _methods(ctx)
    memos = _find_memos(ctx)
    memo_fields = {m.field for m in memos}
    init_fields = _init_fields(ctx)
    # scalar self-memos: every write outside __init__ sits under an `if` that tests the same field
    # (e.g. `if not self._depth: self._depth = ...`); they are caches, not schema state
    scalar: dict[str, bool] = {}
    for c in _classes(ctx):
        for name, md in c.methods().items():
            if name == "__init__":
                continue
            for n in walk_no_nested(md):
                if isinstance(n, ast.Attribute) and is_self_attr(n) and isinstance(n.ctx, ast.Store) and n.attr in init_fields:
                    guarded = False
                    p = c.module.parent(n)
                    while p is not None and p is not md:
                        if isinstance(p, ast.If) and any(is_self_attr(x, n.attr) for x in ast.walk(p.test)):
                            guarded = True
                        p = c.module.parent(p)
                    scalar[n.attr] = scalar.get(n.attr, True) and guarded
    memo_fields |= {f for f, v in scalar.items() if v}
    ctx.count("scalar_self_memos", len([f for f, v in scalar.items() if v]))
    # per memo: fields read + whether fill resolves partial keys
    info = {}
    for mm in memos:
        reads, funcs = _self_reads(ctx, mm.cls, mm.func, methods)
        partial = any(
            isinstance(n, ast.Attribute) and n.attr == "PREFIX" for f in funcs for n in ast.walk(f)
        )
        info[mm.field] = (reads, partial, mm)
    # writers
    n_writes = 0
    for c in _classes(ctx):
        for name, md in c.methods().items():
            if name == "__init__":
                continue
            writes: list[tuple[ast.AST, str, str]] = []  # (node, field, how)
            for n in walk_no_nested(md):
                if isinstance(n, ast.Attribute) and is_self_attr(n) and isinstance(n.ctx, (ast.Store, ast.Del)) and n.attr in init_fields:
                    writes.append((n, n.attr, "rebind"))
                if isinstance(n, ast.Subscript) and isinstance(n.ctx, (ast.Store, ast.Del)) and is_self_attr(n.value) and n.value.attr in init_fields:
                    writes.append((n, n.value.attr, "item-store"))
                if isinstance(n, ast.Call):
                    if isinstance(n.func, ast.Attribute) and n.func.attr in MUTATORS and is_self_attr(n.func.value) and n.func.value.attr in init_fields:
                        writes.append((n, n.func.value.attr, f"mutator .{n.func.attr}()"))
                    cn = call_name(n)
                    r = repo.resolve_name(c.module, cn) if cn else None
                    if r and r[1] in r[0].funcs:
                        callee = r[0].funcs[r[1]].node
                        mp = mutated_params(callee)
                        a = callee.args
                        pnames = [x.arg for x in a.posonlyargs + a.args]
                        for i, arg in enumerate(n.args):
                            if is_self_attr(arg) and arg.attr in init_fields and i < len(pnames) and pnames[i] in mp:
                                writes.append((n, arg.attr, f"in-place helper {r[1]}({pnames[i]}=...)"))
                        for kw in n.keywords:
                            if kw.arg and is_self_attr(kw.value) and kw.value.attr in init_fields and kw.arg in mp:
                                writes.append((n, kw.value.attr, f"in-place helper {r[1]}({kw.arg}=...)"))
            if not writes:
                continue
            g = None
            for node, fld, how in writes:
                if fld in memo_fields:
                    continue  # the memo's own fill / eviction
                for mfield, (reads, partial, mm) in info.items():
                    if fld not in reads:
                        continue
                    if mm.func is md:
                        continue
                    n_writes += 1
                    if g is None:
                        g = CFG(md)
                    wnodes = g.nodes_for(node)

                    def inval(x) -> str | None:
                        if x.ast is None or x.kind not in ("stmt",):
                            return None
                        for y in ast.walk(x.ast):
                            if isinstance(y, ast.Call) and isinstance(y.func, ast.Attribute) and is_self_attr(y.func.value, mfield):
                                if y.func.attr == "clear":
                                    return "full"
                                if y.func.attr in ("pop", "__delitem__"):
                                    return "keyed"
                            if isinstance(y, ast.Attribute) and is_self_attr(y, mfield) and isinstance(y.ctx, ast.Store):
                                return "full"
                            if isinstance(y, ast.Subscript) and isinstance(y.ctx, ast.Del) and is_self_attr(y.value, mfield):
                                return "keyed"
                        return None

                    def tr(x, lab, s):
                        if x in wnodes:
                            s = "dirty"
                        k = inval(x)
                        if k == "full" or (k == "keyed" and not partial):
                            s = "clean"
                        return s

                    IN = forward(g, "clean", tr, lambda a, b: "dirty" if "dirty" in (a, b) else "clean")
                    dirty_exit = False
                    for a, lab in g.exit.pred:
                        if IN[a] is not None and tr(a, lab, IN[a]) == "dirty":
                            dirty_exit = True
                    where = f"{c.key}.{name}"
                    inst = f"{where}|write {fld} ({how})|memo {mfield}"
                    if dirty_exit:
                        keyed = any(inval(x) == "keyed" for x in g.nodes)
                        extra = (
                            " — only keyed eviction found, but the fill resolves partially qualified names (TrieResult.PREFIX), so "
                            "entries for *other* keys may depend on the changed state" if keyed and partial else ""
                        )
                        ctx.fail(c.module, node, where, f"write {fld} via {norm(node, 70)} without {mfield}.clear()",
                                 f"{name} writes self.{fld} ({how}) which {mm.func.name}() reads when filling {mfield}, but some path reaches "
                                 f"the return without fully invalidating {mfield}{extra}: earlier lookups stay cached")
                    else:
                        ctx.ok(inst, {"writer": where, "field": fld, "how": how, "memo": mfield, "invalidated_on_all_paths": True})
    ctx.count("state_writes_feeding_memos", n_writes)
    ctx.min_instances("state_writes_feeding_memos", n_writes, 2)


def rule_c(ctx: Ctx) -> None:
    ctx.rule("C18.c", "a failed lookup (None) is never served from _find_cache: the memo read recomputes when the cached value is None")
    memos = [m for m in _find_memos(ctx) if m.func.name == "find"]
    ctx.require(bool(memos), "anchor vanished: no memoised find() in MappingSchema")
    for mm in memos:
        md = mm.func
        where = f"{mm.cls.key}.{md.name}"
        ok = False
        if mm.guard == "get":
            # local bound from .get(key) and tested with `is None` / `not x`
            for st in walk_no_nested(md):
                if isinstance(st, ast.Assign) and isinstance(st.value, ast.Call) and isinstance(st.value.func, ast.Attribute) and st.value.func.attr == "get" and is_self_attr(st.value.func.value, mm.field) and len(st.value.args) == 1:
                    v = st.targets[0].id if isinstance(st.targets[0], ast.Name) else None
                    for i in walk_no_nested(md):
                        if isinstance(i, ast.If):
                            tt = norm(i.test)
                            if tt in (f"{v} is None", f"not {v}"):
                                ok = True
        if ok:
            ctx.ok(f"{where}|None recomputed", {"memo": mm.field, "guard": "is None -> recompute"})
        else:
            ctx.fail(mm.cls.module, md, where, f"{mm.field} read guard",
                     "find() may serve a cached None: a table added later would stay invisible")


REGISTRATION_METHODS = {"__init__", "add_table", "from_mapping_schema", "copy"}
STATE_FIELDS = {"mapping", "mapping_trie", "udf_mapping", "udf_trie"}


def rule_d(ctx: Ctx) -> None:
    ctx.rule("C18.d", "lookups are read-only on the registered state: outside the registration methods no schema method stores into, deletes from or calls a "
                      "mutator on a value obtained from the registered mapping (self.mapping / tries, find(), nested_get()) — a lookup that rewrites the mapping in "
                      "place makes later answers depend on which lookups ran before")
    from ..effects import MUTATORS

    sm = ctx.repo.module("sqlglot.schema")
    n = 0
    for c in sm.classes.values():
        for name, md in c.methods().items():
            if name in REGISTRATION_METHODS:
                continue
            n += 1
            where = f"{c.key}.{name}"

            def from_state(e: ast.AST, tainted: set[str]) -> bool:
                if isinstance(e, ast.Name):
                    return e.id in tainted
                if isinstance(e, ast.Attribute):
                    return (is_self_attr(e) and e.attr in STATE_FIELDS) or from_state(e.value, tainted)
                if isinstance(e, ast.Subscript):
                    return from_state(e.value, tainted)
                if isinstance(e, ast.Call):
                    last = e.func.attr if isinstance(e.func, ast.Attribute) else e.func.id if isinstance(e.func, ast.Name) else ""
                    if last in ("find", "find_udf", "nested_get", "_find_in_trie"):
                        return True
                    if isinstance(e.func, ast.Attribute) and e.func.attr in ("get", "setdefault", "values", "items"):
                        return from_state(e.func.value, tainted)
                    return False
                if isinstance(e, (ast.BoolOp,)):
                    return any(from_state(v, tainted) for v in e.values)
                if isinstance(e, ast.IfExp):
                    return from_state(e.body, tainted) or from_state(e.orelse, tainted)
                if isinstance(e, ast.NamedExpr):
                    return from_state(e.value, tainted)
                return False

            tainted: set[str] = set()
            changed = True
            while changed:
                changed = False
                for st in walk_no_nested(md):
                    pairs = []
                    if isinstance(st, ast.Assign):
                        pairs = [(tg, st.value) for tg in st.targets]
                    elif isinstance(st, ast.AnnAssign) and st.value is not None:
                        pairs = [(st.target, st.value)]
                    elif isinstance(st, ast.NamedExpr):
                        pairs = [(st.target, st.value)]
                    elif isinstance(st, (ast.For, ast.comprehension)) and from_state(st.iter, tainted):
                        # iterating a registered dict yields its keys / items: the elements (nested dicts) are registered objects too
                        for x in ast.walk(st.target):
                            if isinstance(x, ast.Name) and x.id not in tainted:
                                tainted.add(x.id)
                                changed = True
                    for tg, val in pairs:
                        if isinstance(tg, ast.Name) and tg.id not in tainted and from_state(val, tainted):
                            # a fresh container built *from* the state ({..: .. for ..}, dict(x), list(x)) is not the state
                            tainted.add(tg.id)
                            changed = True
            # flow refinement: a name whose textually nearest preceding binding is a fresh value (dict(x), a comprehension, ...) is not
            # the registered object at that point even if an earlier binding was
            binds: dict[str, list[tuple[int, ast.AST | None]]] = {}
            for st in walk_no_nested(md):
                if isinstance(st, ast.Assign):
                    for tg in st.targets:
                        if isinstance(tg, ast.Name):
                            binds.setdefault(tg.id, []).append((st.lineno, st.value))
                elif isinstance(st, ast.AnnAssign) and isinstance(st.target, ast.Name) and st.value is not None:
                    binds.setdefault(st.target.id, []).append((st.lineno, st.value))
                elif isinstance(st, (ast.For, ast.comprehension)):
                    for x_ in ast.walk(st.target):
                        if isinstance(x_, ast.Name):
                            binds.setdefault(x_.id, []).append((getattr(st, "lineno", getattr(st.target, "lineno", 0)), None))

            def live_taint(e: ast.AST, line: int) -> bool:
                root = e
                while isinstance(root, (ast.Attribute, ast.Subscript)):
                    root = root.value
                if isinstance(root, ast.Name) and root.id in binds:
                    prev = [b for b in binds[root.id] if b[0] <= line]
                    if prev:
                        ln, val = max(prev, key=lambda b: b[0])
                        if val is not None and not from_state(val, tainted):
                            return False
                return from_state(e, tainted)

            bad = None
            for x in walk_no_nested(md):
                if isinstance(x, ast.Subscript) and isinstance(x.ctx, (ast.Store, ast.Del)) and live_taint(x.value, x.lineno):
                    # the memo itself (self._find_cache[key] = ...) is not registered state
                    if is_self_attr(x.value) and x.value.attr not in STATE_FIELDS:
                        continue
                    bad = (x, f"stores into {norm(x.value, 40)}")
                    break
                if isinstance(x, ast.Call) and isinstance(x.func, ast.Attribute) and x.func.attr in MUTATORS and x.func.attr not in ("get",) and live_taint(x.func.value, x.lineno):
                    if is_self_attr(x.func.value) and x.func.value.attr not in STATE_FIELDS:
                        continue
                    bad = (x, f"calls .{x.func.attr}() on {norm(x.func.value, 40)}")
                    break
            if bad:
                ctx.fail(c.module, bad[0], where, m_stmt(c.module, bad[0]),
                         f"{name} {bad[1]}, a value obtained from the registered mapping: the lookup edits what was registered, so a schema that served this lookup "
                         f"answers differently from a fresh one built from the same registrations")
            else:
                ctx.ok(f"{where}|read-only on registered state", None)
    ctx.count("lookup_methods_checked", n)
    ctx.min_instances("lookup_methods_checked", n, 25)


def m_stmt(m, node):
    return m.enclosing_stmt(node) or node


def rule_e(ctx: Ctx) -> None:
    ctx.rule("C18.e", "constructor and lookups normalise table paths alike: in MappingSchema._normalize every part of a table path (catalog, db, table) is normalised with "
                      "is_table=True, as _normalize_table does for every part on the add_table / lookup side — otherwise a schema built from a mapping and one built by "
                      "add_table disagree on qualifiers whose case the dialect preserves for tables")
    c = ctx.repo.cls("sqlglot.schema", "MappingSchema")
    meths = c.methods()
    nm, nt = meths.get("_normalize"), meths.get("_normalize_table")
    ctx.require(nm is not None and nt is not None, "anchor vanished: MappingSchema._normalize / _normalize_table")
    # lookup side: every normalize_name call in _normalize_table flags table parts
    nt_calls = [x for x in walk_no_nested(nt) if isinstance(x, ast.Call) and (call_name(x) or "").split(".")[-1] in ("normalize_name", "_normalize_name")]
    ctx.require(bool(nt_calls) and all(any(k.arg == "is_table" and isinstance(k.value, ast.Constant) and k.value.value is True for k in x.keywords) for x in nt_calls),
                "anchor vanished: _normalize_table no longer normalises every part with is_table=True")
    # names that hold (parts of) the table path in _normalize: the loop variable over the flattened schema and anything unpacked / iterated from it
    loops = [lp for lp in walk_no_nested(nm) if isinstance(lp, ast.For) and "flatten" in norm(lp.iter)]
    ctx.require(len(loops) == 1 and isinstance(loops[0].target, ast.Name), "anchor vanished: _normalize no longer iterates the flattened schema")
    path = {loops[0].target.id}
    changed = True
    while changed:
        changed = False
        for x in walk_no_nested(nm):
            srcs = []
            if isinstance(x, ast.Assign):
                srcs = [(tg, x.value) for tg in x.targets]
            elif isinstance(x, ast.comprehension):
                srcs = [(x.target, x.iter)]
            elif isinstance(x, ast.For):
                srcs = [(x.target, x.iter)]
            for tg, val in srcs:
                if any(isinstance(v, ast.Name) and v.id in path for v in ast.walk(val)) and not (isinstance(val, ast.Call) and (call_name(val) or "").split(".")[-1] in ("nested_get", "_normalize_name", "normalize_name")):
                    for t_ in ast.walk(tg):
                        if isinstance(t_, ast.Name) and t_.id not in path and t_.id not in ("columns", "column_name", "column_type"):
                            path.add(t_.id)
                            changed = True
    n = 0
    for x in walk_no_nested(nm):
        if isinstance(x, ast.Call) and (call_name(x) or "").split(".")[-1] == "_normalize_name" and x.args and isinstance(x.args[0], ast.Name) and x.args[0].id in path:
            n += 1
            flagged = any(k.arg == "is_table" and isinstance(k.value, ast.Constant) and k.value.value is True for k in x.keywords)
            inst = f"{c.key}._normalize|{norm(x)}"
            if flagged:
                ctx.ok(inst, {"call": norm(x), "is_table": True})
            else:
                ctx.fail(c.module, x, f"{c.key}._normalize", x, f"`{norm(x)}` normalises a part of the table path without is_table=True although lookups (_normalize_table) flag "
                                                                 f"every part: in a dialect that keeps table names case-sensitive the constructor folds a qualifier that add_table and find() keep")
    ctx.count("table_path_normalisations", n)
    ctx.min_instances("table_path_normalisations", n, 1)


def rule_f(ctx: Ctx) -> None:
    ctx.rule("C18.f", "a flag left out of a memo key only chooses between raising and returning None: every parameter listed in KEY_EXCEPTIONS as 'affects only the failure "
                      "outcome' is, along the whole memoised computation, either handed on unchanged to a callee (checked in turn) or is the whole test of an `if flag:` whose body "
                      "ends in raise and whose fall-through returns None at once — if the flag being False could lead to a value, that value is cached and later served to callers "
                      "for whom the lookup must raise")
    methods = _methods(ctx)
    mod = ctx.repo.module("sqlglot.schema")
    mod_funcs = {n.name: n for n in mod.tree.body if isinstance(n, ast.FunctionDef)}
    classes = _classes(ctx)
    n_sites = 0
    seen: set[tuple[int, str]] = set()

    def params_of(fn: ast.FunctionDef, skip_self: bool) -> list[str]:
        names = [a.arg for a in fn.args.posonlyargs + fn.args.args]
        if skip_self and names and names[0] in ("self", "cls"):
            names = names[1:]
        return names

    def callee_param(call: ast.Call, arg_node: ast.AST, fn: ast.FunctionDef, skip_self: bool) -> str | None:
        for k in call.keywords:
            if k.value is arg_node:
                return k.arg if k.arg in {a.arg for a in fn.args.args + fn.args.kwonlyargs + fn.args.posonlyargs} else None
        names = params_of(fn, skip_self)
        for i, a in enumerate(call.args):
            if a is arg_node:
                return names[i] if i < len(names) and not fn.args.vararg else (names[i] if i < len(names) else None)
        return None

    def resolve(call: ast.Call, cls: Cls | None) -> list[tuple[Cls | None, ast.FunctionDef, bool]]:
        f = call.func
        if isinstance(f, ast.Attribute) and isinstance(f.value, ast.Name) and f.value.id == "self":
            return [(c, md, True) for c, md in methods.get(f.attr, [])[:1]]
        if isinstance(f, ast.Attribute) and isinstance(f.value, ast.Call) and norm(f.value.func) == "super" and cls is not None:
            order = [c for c in classes]
            later = order[order.index(cls) + 1:] if cls in order else []
            for c in later:
                md = c.methods().get(f.attr)
                if md is not None:
                    return [(c, md, True)]
            return []
        if isinstance(f, ast.Name) and f.id in mod_funcs:
            return [(None, mod_funcs[f.id], False)]
        return []

    def check(cls: Cls | None, fn: ast.FunctionDef, flag: str, origin: str) -> None:
        nonlocal n_sites
        if (id(fn), flag) in seen:
            return
        seen.add((id(fn), flag))
        where = f"{cls.key}.{fn.name}" if cls is not None else f"sqlglot.schema:{fn.name}"
        parents: dict[int, ast.AST] = {}
        for x in ast.walk(fn):
            for ch in ast.iter_child_nodes(x):
                parents[id(ch)] = x
        for x in walk_no_nested(fn):
            if not (isinstance(x, ast.Name) and x.id == flag and isinstance(x.ctx, ast.Load)):
                continue
            n_sites += 1
            par = parents.get(id(x))
            inst = f"{where}|{flag}|{norm(mod.enclosing_stmt(x) or x, 70)}"
            # (a) handed on unchanged
            call = par if isinstance(par, ast.Call) else (parents.get(id(par)) if isinstance(par, ast.keyword) else None)
            if isinstance(call, ast.Call) and (x in call.args or any(k.value is x for k in call.keywords)):
                targets = resolve(call, cls)
                if not targets:
                    ctx.fail(mod, x, where, call, f"`{flag}` (left out of the memo key of {origin} as a failure-only flag) is handed to `{norm(call.func)}`, which this rule cannot resolve "
                                                  f"inside sqlglot/schema.py: what the flag decides there is unknown")
                    continue
                ok = True
                for c2, fn2, skip in targets:
                    p2 = callee_param(call, x, fn2, skip)
                    if p2 is None:
                        ok = False
                        ctx.fail(mod, x, where, call, f"`{flag}` is handed to `{norm(call.func)}` in a position this rule cannot map to a parameter")
                        continue
                    check(c2, fn2, p2, origin)
                if ok:
                    ctx.ok(inst, {"in": where, "flag": flag, "handed_to": norm(call.func)})
                continue
            # (b) whole test of an `if flag:` that raises, and whose fall-through returns None at once
            if isinstance(par, ast.If) and par.test is x:
                body_raises = bool(par.body) and isinstance(par.body[-1], ast.Raise)
                blk = parents.get(id(par))
                follow: ast.stmt | None = None
                if par.orelse:
                    follow = par.orelse[0]
                else:
                    for fld in ("body", "orelse", "finalbody"):
                        seq = getattr(blk, fld, None)
                        if isinstance(seq, list) and par in seq:
                            i = seq.index(par)
                            follow = seq[i + 1] if i + 1 < len(seq) else None
                returns_none = isinstance(follow, ast.Return) and (follow.value is None or (isinstance(follow.value, ast.Constant) and follow.value.value is None))
                if body_raises and returns_none:
                    ctx.ok(inst, {"in": where, "flag": flag, "form": "if flag: raise ...; return None"})
                else:
                    ctx.fail(mod, x, where, par, f"`if {flag}:` in the computation memoised by {origin}: " +
                             ("its body does not end in raise" if not body_raises else "when the flag is False execution does not return None at once but goes on to compute a value") +
                             f" — `{flag}` is not part of the memo key, so what is computed with {flag}=False is cached and served to callers that asked for an error")
                continue
            ctx.fail(mod, x, where, mod.enclosing_stmt(x) or x,
                     f"`{flag}` (left out of the memo key of {origin} as a failure-only flag) is used in `{norm(mod.enclosing_stmt(x) or x, 80)}`: it is neither handed on unchanged nor the whole "
                     f"test of an `if {flag}: raise ...` followed by `return None`, so the flag may influence a value that the memo then serves regardless of the flag")

    n_flags = 0
    for (fname, flag), reason in KEY_EXCEPTIONS.items():
        if "failure outcome" not in reason:
            continue
        n_flags += 1
        for c, md in methods.get(fname, []):
            if flag in {a.arg for a in md.args.args + md.args.kwonlyargs}:
                check(c, md, flag, f"{fname}()")
    ctx.count("failure_only_flags", n_flags)
    ctx.count("flag_use_sites", n_sites)
    ctx.min_instances("flag_use_sites", n_sites, 6)


TEXT_OF_NODE = {"name", "alias", "alias_or_name", "output_name"}


def rule_g(ctx: Ctx) -> None:
    ctx.rule("C18.g", "lookups normalise the identifier, not its bare text: _normalize_name decides on the identifier's `quoted` flag (KEY_PROJECTIONS), so no caller in "
                      "sqlglot/schema.py reduces an expression-typed argument to its text (.name / .alias_or_name / .text()) before handing it to _normalize_name / "
                      "normalize_name — a quoted, case-sensitive name would be folded like an unquoted one by that lookup only")
    n = 0
    for c in _classes(ctx):
        for name, md in c.methods().items():
            ann = {a.arg: norm(a.annotation) for a in md.args.args + md.args.kwonlyargs if a.annotation is not None}
            expr_params = {a for a, t_ in ann.items() if "exp." in t_}
            local_src: dict[str, ast.AST] = {}
            for x in walk_no_nested(md):
                if isinstance(x, ast.Assign) and len(x.targets) == 1 and isinstance(x.targets[0], ast.Name):
                    local_src.setdefault(x.targets[0].id, x.value)
            for x in walk_no_nested(md):
                if not (isinstance(x, ast.Call) and (call_name(x) or "").split(".")[-1] in ("_normalize_name", "normalize_name") and x.args):
                    continue
                n += 1
                arg = x.args[0]
                if isinstance(arg, ast.Name) and arg.id in local_src:
                    arg = local_src[arg.id]
                alts = [arg]
                if isinstance(arg, ast.IfExp):
                    alts = [arg.body, arg.orelse]
                bad = None
                for a in alts:
                    base = None
                    if isinstance(a, ast.Attribute) and a.attr in TEXT_OF_NODE:
                        base = a.value
                    elif isinstance(a, ast.Call) and isinstance(a.func, ast.Attribute) and a.func.attr in ("text", "sql"):
                        base = a.func.value
                    while isinstance(base, ast.Attribute):
                        base = base.value
                    if isinstance(base, ast.Name) and base.id in expr_params:
                        bad = a
                where = f"{c.key}.{name}"
                if bad is not None:
                    ctx.fail(c.module, x, where, x, f"`{norm(bad)}` hands the bare text of an expression-typed argument to `{norm(x.func)}`: the identifier's `quoted` flag is lost, so "
                                                   f"this lookup folds a quoted, case-sensitive name although registration and the sibling lookups keep it")
                else:
                    ctx.ok(f"{where}|{norm(x, 60)}", None)
    ctx.count("normalisation_call_sites", n)
    ctx.min_instances("normalisation_call_sites", n, 7)


def _mapping_equalities(tree: ast.AST) -> list[tuple[ast.FunctionDef, ast.Compare, str]]:
    """(function, comparison, operand) for every ==/!= whose operand is a dict built in that function, a dict-annotated parameter or a registered mapping field."""
    out = []
    for fn in [x for x in ast.walk(tree) if isinstance(x, (ast.FunctionDef, ast.AsyncFunctionDef))]:
        mappings: set[str] = set()
        for a in fn.args.args + fn.args.kwonlyargs:
            if a.annotation is not None and re.search(r"\b(dict|Dict|Mapping|MutableMapping|OrderedDict)\b", norm(a.annotation)):
                mappings.add(a.arg)
        for x in walk_no_nested(fn):
            if isinstance(x, (ast.Assign, ast.AnnAssign)):
                tgts = x.targets if isinstance(x, ast.Assign) else [x.target]
                v = x.value
                if v is not None and len(tgts) == 1 and isinstance(tgts[0], ast.Name) and (
                        isinstance(v, (ast.Dict, ast.DictComp)) or (isinstance(v, ast.Call) and call_name(v) in ("dict", "OrderedDict", "ensure_column_mapping"))):
                    if not (isinstance(v, ast.Dict) and not v.keys):
                        mappings.add(tgts[0].id)

        def is_mapping(e: ast.AST) -> bool:
            if isinstance(e, ast.Name):
                return e.id in mappings
            if isinstance(e, ast.Attribute) and isinstance(e.value, ast.Name) and e.value.id == "self":
                return e.attr in ("mapping", "mapping_trie")
            return isinstance(e, ast.DictComp) or (isinstance(e, ast.Dict) and bool(e.keys))

        for x in walk_no_nested(fn):
            if isinstance(x, ast.Compare) and any(isinstance(o, (ast.Eq, ast.NotEq)) for o in x.ops):
                ops = [x.left] + list(x.comparators)
                if any(isinstance(o, ast.Dict) and not o.keys for o in ops) or any(isinstance(o, ast.Constant) for o in ops):
                    continue  # emptiness / constant test
                hit = next((o for o in ops if is_mapping(o)), None)
                if hit is not None:
                    out.append((fn, x, norm(hit)))
    return out


def rule_h(ctx: Ctx) -> None:
    ctx.rule("C18.h", "registrations are never compared with == : dict equality ignores the order of the keys, while the order of a table's columns is part of what a schema "
                      "answers (column_names, star expansion) — a decision in sqlglot/schema.py taken on `==` / `!=` of column mappings treats a re-registration with "
                      "reordered columns as 'nothing changed' (emptiness and constant tests are exempt)")
    probe = ast.parse("class S:\n def add(self, t, m: dict):\n  n = {k: v for k, v in m.items()}\n  old = self.find(t)\n  if old == n:\n   return\n  if m != {}:\n   pass\n")
    ctx.require(len(_mapping_equalities(probe)) == 1, "internal: C18.h matcher no longer recognises its positive control")
    m = ctx.repo.modules.get("sqlglot.schema")
    ctx.require(m is not None, "anchor vanished: sqlglot/schema.py")
    n_cmp = sum(1 for x in ast.walk(m.tree) if isinstance(x, ast.Compare) and any(isinstance(o, (ast.Eq, ast.NotEq)) for o in x.ops))
    ctx.count("equality_comparisons_scanned", n_cmp)
    hits = _mapping_equalities(m.tree)
    for fn, cmp_, operand in hits:
        ctx.fail(m, cmp_, f"sqlglot.schema:{fn.name}", cmp_, f"`{norm(cmp_, 70)}` compares the column mapping `{operand}` with == : two registrations that list the same columns in a different "
                                                          f"order compare equal, so whatever this test decides (skipping the write, keeping cached answers) leaves the old column order "
                                                          f"in force after add_table")
    if not hits:
        ctx.ok("sqlglot.schema|no equality comparison of column mappings", {"comparisons_scanned": n_cmp, "positive_control": "recognised"})


RULES = [rule_a, rule_b, rule_c, rule_d, rule_e, rule_f, rule_g, rule_h]
EXPLANATION = (
    "Cache-coherence analysis of MappingSchema computed from the source: dict memos are discovered by pattern (get/in + "
    "item store on a field initialised in __init__), the fields each fill function reads are collected transitively "
    "through self./super() calls and properties, in-place helper calls are recognised through container-parameter "
    "mutation summaries (nested_set, new_trie), and a forward dataflow on the writer's CFG requires full invalidation on "
    "every path from the write to the return. Key completeness is a def-use comparison between the parameters the "
    "memoised computation reads and the names in the key. Decides the coherence discipline, not trie arithmetic."
)
ASSUMPTIONS = [
    "schema state is reached only as self.<field> inside sqlglot/schema.py classes",
    "helper mutation summaries are intraprocedural (alias closure over get/setdefault/subscript)",
    "reviewed tables KEY_EXCEPTIONS / KEY_PROJECTIONS (one symbol + reason each)",
]
