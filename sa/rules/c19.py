"""C19 – Concurrent use from many threads gives the single-threaded answers.

Static race reasoning over the complete inventory of process-wide mutable state:
  C19.a  lock coverage of both PEP 562 lazy-import hooks (RLock, import + publish inside).
  C19.b  publish-after-build: once an object is stored into process-wide state no later
         statement of the same function mutates it.
  C19.c  check-then-act on process-wide caches only duplicates an effect-free build.
  C19.d  no process-wide worker instances; Dialect builds a fresh tokenizer/parser/generator per call.
  C19.e  inventory: the only functions that write process-wide state are the reviewed ones
         (import-time class construction, the dialect registry, the dispatch cache, lazy imports).
Does not decide: CPython-level atomicity (dict get/set under the GIL are trusted), schedules.
"""

from __future__ import annotations

import ast

from ..cfg import CFG
from ..core import Ctx, call_name, dotted, norm, walk_no_nested
from ..effects import MUTATORS, GWrite, describe, global_writes
from ..facts import facts

# function key -> reason it may write process-wide state
ALLOWED_WRITERS = {
    "sqlglot.dialects.dialect:_Dialect.__new__": "import time: metaclass initialising the class it just created + registry publish",
    "sqlglot.dialects.dialect:_Dialect._try_load": "dialect registry fill (idempotent: stores the class object found in the imported module)",
    "sqlglot.expressions.core:Expr.__init_subclass__": "import time: derives key/required_args of the class being created",
    "sqlglot.tokens:_TokenizerBase.__init_subclass__": "import time: derives tokenizer tables of the class being created",
    "sqlglot.generator:Generator.__init__": "per-class dispatch cache fill (idempotent build, C19.c)",
    "sqlglot.optimizer:__getattr__": "PEP 562 lazy import publishing into module globals under _import_lock",
}


def rule_a(ctx: Ctx) -> None:
    ctx.rule("C19.a", "in every module-level __getattr__ (PEP 562): import_module calls and globals() stores are inside `with <module-level threading.RLock()>`")
    hooks = 0
    for m in ctx.repo.modules.values():
        f = m.funcs.get("__getattr__")
        if f is None:
            continue
        hooks += 1
        # module-level locks
        locks: dict[str, str] = {}
        for st in m.tree.body:
            if isinstance(st, ast.Assign) and len(st.targets) == 1 and isinstance(st.targets[0], ast.Name) and isinstance(st.value, ast.Call):
                cn = call_name(st.value) or ""
                if cn.split(".")[-1] in ("RLock", "Lock"):
                    locks[st.targets[0].id] = cn.split(".")[-1]
        sites = []
        for node in walk_no_nested(f.node):
            if isinstance(node, ast.Call) and (call_name(node) or "").split(".")[-1] in ("import_module", "__import__"):
                sites.append(node)
            if isinstance(node, ast.Subscript) and isinstance(node.ctx, ast.Store) and isinstance(node.value, ast.Call) and call_name(node.value) == "globals":
                sites.append(node)
            if isinstance(node, (ast.Import, ast.ImportFrom)) and not all(a.name == "importlib" for a in node.names):
                sites.append(node)
        ctx.count("guarded_sites", len(sites))
        for node in sites:
            p = m.parent(node)
            lock = None
            while p is not None and p is not f.node:
                if isinstance(p, ast.With):
                    for it in p.items:
                        if isinstance(it.context_expr, ast.Name) and it.context_expr.id in locks:
                            lock = it.context_expr.id
                p = m.parent(p)
            if lock is None:
                ctx.fail(m, node, f.key, m.enclosing_stmt(node) or node,
                         "lazy import / publication outside `with _import_lock`: two threads racing on the first access can both import / publish")
            elif locks[lock] != "RLock":
                ctx.fail(m, node, f.key, m.enclosing_stmt(node) or node,
                         f"{lock} is a {locks[lock]}, not a re-entrant RLock: nested lazy imports (dialects importing dialects) deadlock")
            else:
                ctx.ok(f"{f.key}|{norm(m.enclosing_stmt(node) or node)}", {"site": norm(node, 80), "lock": lock})
        if not sites:
            ctx.fail(m, f.node, f.key, "__getattr__", "PEP 562 hook without any import/publication site recognised")
    ctx.count("pep562_hooks", hooks)
    ctx.min_instances("pep562_hooks", hooks, 2)


def _mutates(node: ast.AST, name: str) -> ast.AST | None:
    """Does the statement mutate the object bound to local `name`?"""
    for x in ast.walk(node):
        if isinstance(x, (ast.Attribute, ast.Subscript)) and isinstance(x.ctx, (ast.Store, ast.Del)):
            if isinstance(x.value, ast.Name) and x.value.id == name:
                return x
        if isinstance(x, ast.Call):
            if isinstance(x.func, ast.Attribute) and x.func.attr in MUTATORS and isinstance(x.func.value, ast.Name) and x.func.value.id == name:
                return x
            if call_name(x) == "setattr" and x.args and isinstance(x.args[0], ast.Name) and x.args[0].id == name:
                return x
            # one level: v.X.mutator(...)
            if (
                isinstance(x.func, ast.Attribute)
                and x.func.attr in MUTATORS
                and isinstance(x.func.value, ast.Attribute)
                and isinstance(x.func.value.value, ast.Name)
                and x.func.value.value.id == name
            ):
                return x
    return None


def rule_b(ctx: Ctx, writes: list[GWrite] | None = None) -> None:
    ctx.rule("C19.b", "publish-after-build: after `SHARED[k] = obj` no statement on any path of the same function mutates obj")
    writes = writes if writes is not None else global_writes(ctx.repo)
    n = 0
    for w in writes:
        if w.func is None or w.kind not in ("item-store", "globals-store"):
            continue
        if not isinstance(w.value, ast.Name):
            continue
        n += 1
        v = w.value.id
        g = CFG(w.func.node)
        starts = g.nodes_for(w.node)
        if not starts:
            ctx.fail(w.module, w.node, w.func.key, w.node, "internal: publication site not found in CFG")
            continue
        seen = set()
        stack = [s for st in starts for s, _ in st.succ]
        bad = None
        while stack and bad is None:
            x = stack.pop()
            if x in seen:
                continue
            seen.add(x)
            if x.ast is not None and x.kind in ("stmt", "cond", "with") and not isinstance(x.ast, (ast.FunctionDef, ast.ClassDef)):
                # rebinding v ends the obligation on this path
                mut = _mutates(x.ast, v)
                if mut is not None:
                    bad = (x, mut)
                    break
                if isinstance(x.ast, ast.Assign) and any(isinstance(tg, ast.Name) and tg.id == v for tg in x.ast.targets):
                    continue
            stack.extend(s for s, _ in x.succ)
        if bad is not None:
            x, mut = bad
            ctx.fail(w.module, x.ast, w.func.key, w.node,
                     f"`{v}` is published into {w.target} and mutated afterwards at line {x.lineno} ({norm(x.ast, 70)}): "
                     f"another thread can observe it half-built")
        else:
            ctx.ok(f"{w.func.key}|{norm(w.node)}", {"published": norm(w.node, 90), "later_mutations_of": v, "found": 0})
    ctx.count("publication_sites", n)
    ctx.min_instances("publication_sites", n, 4)


def rule_c(ctx: Ctx, writes: list[GWrite] | None = None) -> None:
    ctx.rule("C19.c", "check-then-act on process-wide caches: the value built on a miss comes from a function with an empty global-write set")
    repo = ctx.repo
    writes = writes if writes is not None else global_writes(repo)
    by_func: dict[str, list[GWrite]] = {}
    for w in writes:
        if w.func is not None:
            by_func.setdefault(w.func.key, []).append(w)
    n = 0
    for w in writes:
        if w.func is None or w.kind not in ("item-store", "globals-store") or not isinstance(w.value, ast.Name):
            continue
        if w.func.name in ("__new__", "__init_subclass__"):
            continue  # import time, serialised by the import lock (C19.a / interpreter import lock)
        v = w.value.id
        builders = []
        for st in walk_no_nested(w.func.node):
            if isinstance(st, ast.Assign) and any(isinstance(tg, ast.Name) and tg.id == v for tg in st.targets):
                for c in ast.walk(st.value):
                    if isinstance(c, ast.Call):
                        builders.append(c)
        for c in builders:
            cn = call_name(c)
            if not cn:
                continue
            r = repo.resolve_name(w.module, cn)
            if r is None or r[1] not in r[0].funcs:
                continue
            n += 1
            target = r[0].funcs[r[1]]
            # transitive (same-module, name-resolved, depth 3)
            seen = {target.key}
            frontier = [target]
            dirty = None
            for _ in range(3):
                nxt = []
                for fn in frontier:
                    if by_func.get(fn.key):
                        dirty = by_func[fn.key][0]
                    for cc in walk_no_nested(fn.node):
                        if isinstance(cc, ast.Call):
                            n2 = call_name(cc)
                            rr = repo.resolve_name(fn.module, n2) if n2 else None
                            if rr and rr[1] in rr[0].funcs and rr[0].funcs[rr[1]].key not in seen:
                                seen.add(rr[0].funcs[rr[1]].key)
                                nxt.append(rr[0].funcs[rr[1]])
                frontier = nxt
            if dirty is not None:
                ctx.fail(w.module, c, w.func.key, c,
                         f"value cached in {w.target} is built by {target.key}, which writes process-wide state ({describe(dirty)}): "
                         f"a duplicated build under a first-use race is not harmless")
            else:
                ctx.ok(f"{w.func.key}|{norm(c)}", {"cache": w.target, "builder": target.key, "global_writes": 0, "callees_inspected": len(seen)})
    ctx.count("cache_builders", n)
    ctx.min_instances("cache_builders", n, 1)


def rule_d(ctx: Ctx) -> None:
    ctx.rule("C19.d", "no module-/class-level Parser/Generator/Tokenizer/MappingSchema/TypeAnnotator instance; Dialect constructs a fresh worker per call")
    fx = facts(ctx.repo)
    ctx.count("globals_scanned_modules", len(fx["loaded_modules"]))
    if fx["shared_workers"]:
        for w in fx["shared_workers"]:
            ctx.fail(None, None, w["path"], f"{w['path']} = <{w['class']} instance>",
                     "a worker object with per-call mutable state is shared process-wide")
    else:
        ctx.ok("no shared worker instances", {"modules_scanned": len(fx["loaded_modules"]), "shared_workers": 0})
    # S1 generalisation: any module-/class-level instance of a package class whose methods write their own attributes at work
    # (per-call state on a process-wide object), whatever the class is called
    repo = ctx.repo
    expr_names = set(fx["expr_classes"]) | {"Expr", "Expression"}
    stateful: dict[str, str] = {}
    for c in repo.all_classes():
        if c.name in expr_names or any(x.name in expr_names or x.name in ("Enum", "AutoName") for x in repo.mro(c)):
            continue
        for mname, md in c.methods().items():
            if mname.startswith("__") and mname.endswith("__"):
                continue
            if any(isinstance(dec, ast.Name) and dec.id in ("classmethod", "staticmethod") for dec in md.decorator_list):
                continue
            for x in walk_no_nested(md):
                if isinstance(x, ast.Attribute) and isinstance(x.ctx, ast.Store) and isinstance(x.value, ast.Name) and x.value.id == "self":
                    stateful.setdefault(c.key, f"{mname} assigns self.{x.attr}")
                elif isinstance(x, ast.Call) and isinstance(x.func, ast.Attribute) and x.func.attr in MUTATORS and isinstance(x.func.value, ast.Attribute) \
                        and isinstance(x.func.value.value, ast.Name) and x.func.value.value.id == "self":
                    stateful.setdefault(c.key, f"{mname} mutates self.{x.func.value.attr}")
    n_inst = 0
    for m in repo.modules.values():
        if m.name.startswith(("sqlglot.executor",)):
            continue
        scopes: list[tuple[str, list[ast.stmt]]] = [(f"{m.name}:<module>", m.tree.body)] + [(c.key, c.node.body) for c in m.classes.values()]
        for where, body in scopes:
            for st in body:
                if not (isinstance(st, (ast.Assign, ast.AnnAssign)) and isinstance(getattr(st, "value", None), ast.Call)):
                    continue
                cn = call_name(st.value) or ""
                k = repo.resolve_class(m, cn) if cn else None
                if k is None:
                    continue
                n_inst += 1
                tgt = norm(st.targets[0] if isinstance(st, ast.Assign) else st.target)
                if k.key in stateful:
                    ctx.fail(m, st, where, f"{tgt} = {cn}(...)",
                             f"a process-wide instance of {k.name}, whose methods keep per-call state on the object ({stateful[k.key]}): two threads using it at the same "
                             f"time read each other's intermediate state")
                else:
                    ctx.ok(f"{where}|{tgt} = {cn}(...)", {"instance_of": k.key, "stateful_methods": 0})
    ctx.count("module_or_class_level_instances", n_inst)
    d = ctx.repo.cls("sqlglot.dialects.dialect", "Dialect")
    meths = d.methods()
    for name, attr in (("tokenizer", "tokenizer_class"), ("parser", "parser_class"), ("generator", "generator_class")):
        md = meths.get(name)
        ctx.require(md is not None, f"anchor vanished: Dialect.{name}")
        rets = [r for r in walk_no_nested(md) if isinstance(r, ast.Return)]
        ok = bool(rets) and all(
            isinstance(r.value, ast.Call) and dotted(r.value.func) == f"self.{attr}" for r in rets
        )
        stores = [x for x in walk_no_nested(md) if isinstance(x, ast.Attribute) and isinstance(x.ctx, ast.Store)]
        if ok and not stores:
            ctx.ok(f"Dialect.{name} constructs self.{attr}(...) per call")
        else:
            ctx.fail(d.module, md, f"{d.key}.{name}", md.name,
                     f"Dialect.{name} must return a freshly constructed self.{attr}(...) and cache nothing")
    for name, worker in (("tokenize", "tokenizer"), ("parse", "parser"), ("parse_into", "parser"), ("generate", "generator")):
        md = meths.get(name)
        ctx.require(md is not None, f"anchor vanished: Dialect.{name}")
        calls = [c for c in walk_no_nested(md) if isinstance(c, ast.Call) and dotted(c.func) == f"self.{worker}"]
        if calls:
            ctx.ok(f"Dialect.{name} obtains its worker from self.{worker}()")
        else:
            ctx.fail(d.module, md, f"{d.key}.{name}", md.name, f"Dialect.{name} no longer builds its worker via self.{worker}()")


def rule_e(ctx: Ctx, writes: list[GWrite] | None = None) -> None:
    ctx.rule("C19.e", "inventory of process-wide state: every function that writes module/class-level state is in the reviewed table")
    writes = writes if writes is not None else global_writes(ctx.repo)
    n = 0
    for w in writes:
        if w.func is None:
            continue
        n += 1
        if w.func.key in ALLOWED_WRITERS:
            ctx.ok(f"{w.func.key}|{w.target}|{norm(w.node)}", {"writer": w.func.key, "target": w.target, "why": ALLOWED_WRITERS[w.func.key]})
        else:
            ctx.fail(w.module, w.node, w.func.key, w.node,
                     f"run-time write to process-wide state {w.target} ({w.kind}) by a function outside the reviewed inventory: "
                     f"concurrent callers (and later calls) observe each other's state")
    ctx.count("global_write_sites", n)
    ctx.min_instances("global_write_sites", n, 15)
    # positive fixture: the scanner must still recognise a run-time class-table write
    import textwrap

    from ..core import Module

    src = textwrap.dedent(
        """
        CACHE = {}
        class P:
            TABLE = {}
            def f(self):
                self.TABLE["K"] = 1
                CACHE[1] = 2
        """
    )
    fm = _mini_module(ctx, src)
    got = [w for w in global_writes(ctx.repo, [fm])]
    if len(got) != 2:
        from ..core import AnalysisError

        raise AnalysisError(f"C19.e positive fixture: expected 2 global writes, scanner found {len(got)}")
    ctx.count("fixture_hits", len(got))


def _mini_module(ctx: Ctx, src: str):
    import ast as _ast
    from pathlib import Path

    from ..core import Module

    m = Module(name="fixture", path=Path(ctx.repo.root / "sqlglot" / "__fixture__.py"), src=src, tree=_ast.parse(src))
    ctx.repo._index(m)
    return m


def _all(ctx: Ctx) -> None:
    writes = global_writes(ctx.repo)
    rule_a(ctx)
    rule_b(ctx, writes)
    rule_c(ctx, writes)
    rule_d(ctx)
    rule_e(ctx, writes)


def rule_f(ctx: Ctx) -> None:
    ctx.rule("C19.f", "lock order of the lazy package hooks: a PEP 562 hook takes its package lock and then imports a target module (importlib's module lock); "
                      "no module that can be executing while such a target module is being imported may resolve a lazy attribute through the same hook "
                      "(`from <package> import <lazy name>`), which would take the two locks in the opposite order")
    repo = ctx.repo
    n_hooks = n_imports = 0
    for pkg in repo.modules.values():
        hook = pkg.funcs.get("__getattr__")
        if hook is None or not pkg.path.name == "__init__.py":
            continue
        if not any(isinstance(w, ast.With) for w in walk_no_nested(hook.node)):
            continue  # a hook without a lock has no lock order
        n_hooks += 1
        # names bound eagerly in the package namespace (not resolved by the hook)
        eager: set[str] = set()
        for st in pkg.tree.body:
            if isinstance(st, (ast.Assign, ast.AnnAssign)):
                for tg in (st.targets if isinstance(st, ast.Assign) else [st.target]):
                    for x in ast.walk(tg):
                        if isinstance(x, ast.Name):
                            eager.add(x.id)
            elif isinstance(st, (ast.FunctionDef, ast.ClassDef)):
                eager.add(st.name)
            elif isinstance(st, (ast.Import, ast.ImportFrom)):
                for a in st.names:
                    eager.add((a.asname or a.name).split(".")[0])
        # modules the hook may import: the package's submodules; closure under module-level imports
        targets = {n for n in repo.modules if n.startswith(pkg.name + ".")}
        closure = set(targets)
        work = list(targets)
        while work:
            mn = work.pop()
            mm = repo.modules[mn]
            for st in mm.tree.body:
                stmts = [st]
                if isinstance(st, (ast.If, ast.Try)):
                    if isinstance(st, ast.If) and "TYPE_CHECKING" in norm(st.test):
                        continue
                    stmts = [x for x in ast.walk(st) if isinstance(x, (ast.Import, ast.ImportFrom))]
                for imp in stmts:
                    names: list[str] = []
                    if isinstance(imp, ast.Import):
                        names = [a.name for a in imp.names]
                    elif isinstance(imp, ast.ImportFrom):
                        base = imp.module or ""
                        if imp.level:
                            parts = mn.split(".")
                            if mm.path.name != "__init__.py":
                                parts = parts[:-1]
                            parts = parts[: len(parts) - (imp.level - 1)]
                            base = ".".join(parts + ([base] if base else []))
                        names = [base] + [f"{base}.{a.name}" for a in imp.names]
                    for nm in names:
                        while nm and nm not in repo.modules:
                            nm = nm.rpartition(".")[0]
                        if nm and nm not in closure and nm != pkg.name:
                            closure.add(nm)
                            work.append(nm)
        # any import of a lazy name through the hook from inside the closure (module level or inside a function)
        for mn in sorted(closure):
            mm = repo.modules[mn]
            for imp in mm.of_type(ast.ImportFrom):
                base = imp.module or ""
                if imp.level:
                    parts = mn.split(".")
                    if mm.path.name != "__init__.py":
                        parts = parts[:-1]
                    parts = parts[: len(parts) - (imp.level - 1)]
                    base = ".".join(parts + ([base] if base else []))
                if base != pkg.name:
                    continue
                p_ = mm.parent(imp)
                if isinstance(p_, ast.If) and "TYPE_CHECKING" in norm(p_.test):
                    continue
                for a in imp.names:
                    n_imports += 1
                    f = mm.enclosing_func(imp)
                    where = f.key if f else f"{mn}:<module>"
                    inst = f"{where}|from {pkg.name} import {a.name}"
                    if a.name in eager:
                        ctx.ok(inst, {"import": f"from {pkg.name} import {a.name}", "in": where, "resolved": "eagerly bound in the package namespace (no hook, no lock)"})
                    else:
                        ctx.fail(mm, imp, where, f"from {pkg.name} import {a.name}",
                                 f"`{a.name}` is resolved by {pkg.name}.__getattr__, which takes the package lock; {mn} can be executing while a module of {pkg.name} is being "
                                 f"imported by name (importlib's module lock held), so this import takes the two locks in the opposite order to the hook: two threads making the "
                                 f"first use of that module through the two routes deadlock. Import the name from its defining submodule instead")
    ctx.count("locked_hooks", n_hooks)
    ctx.count("package_imports_in_closure", n_imports)
    ctx.min_instances("locked_hooks", n_hooks, 2)


GLOBAL_SETTERS = {
    "sys.setrecursionlimit", "sys.setswitchinterval", "sys.settrace", "sys.setprofile", "threading.settrace", "threading.setprofile",
    "os.chdir", "os.putenv", "os.unsetenv", "locale.setlocale", "random.seed", "signal.signal", "gc.disable", "gc.enable", "gc.freeze",
    "warnings.simplefilter", "warnings.filterwarnings", "decimal.setcontext",
}


def _global_setter_calls(tree: ast.AST) -> list[tuple[ast.AST, str]]:
    out = []
    for x in ast.walk(tree):
        if isinstance(x, ast.Call) and (call_name(x) or "") in GLOBAL_SETTERS:
            out.append((x, call_name(x)))
        if isinstance(x, ast.Subscript) and isinstance(x.ctx, (ast.Store, ast.Del)) and norm(x.value) == "os.environ":
            out.append((x, "os.environ[...] ="))
    return out


def rule_g(ctx: Ctx) -> None:
    ctx.rule("C19.g", "no interpreter-wide switch is flipped while working: library code never calls a process-global setter (sys.setrecursionlimit, sys.settrace, "
                      "os.environ stores, locale.setlocale, signal.signal, ...) — a save / set / restore around a call is visible to, and undone under, every other thread")
    probe = ast.parse("import sys\ndef f():\n    old = sys.getrecursionlimit()\n    sys.setrecursionlimit(10000)\n    try:\n        pass\n    finally:\n        sys.setrecursionlimit(old)\n")
    ctx.require(len(_global_setter_calls(probe)) == 2, "internal: C19.g matcher no longer recognises its positive control")
    n = 0
    for m in ctx.repo.modules.values():
        if m.name in ("sqlglot.__main__",):
            continue
        n += 1
        for node, what in _global_setter_calls(m.tree):
            f = m.enclosing_func(node)
            where = f.key if f else f"{m.name}:<module>"
            ctx.fail(m, node, where, node, f"{what} changes state of the whole interpreter: concurrent calls see each other's setting, and the first to finish restores the old value "
                                           f"while the others still rely on the new one")
    ctx.ok("package|no process-global setter is called", {"modules_scanned": n})
    ctx.count("modules_scanned_for_global_setters", n)
    ctx.min_instances("modules_scanned_for_global_setters", n, 150)


def rule_h(ctx: Ctx) -> None:
    ctx.rule("C19.h", "memoised factories hand out no workers: a function decorated with lru_cache / cache never returns a tokenizer, parser or generator instance "
                      "(Dialect.tokenizer()/parser()/generator(), or a class with per-call state): the cached object would be shared by every caller and thread")
    repo = ctx.repo
    worker_suffix = ("Tokenizer", "Parser", "Generator", "TokenizerCore", "TypeAnnotator", "MappingSchema")

    def memoised(fn: ast.AST) -> bool:
        return any(("lru_cache" in norm(d) or norm(d) in ("cache", "functools.cache")) for d in getattr(fn, "decorator_list", []))

    # classes of the package that keep per-call state on the instance (same criterion as C19.d)
    stateful_names: set[str] = set()
    for c_ in repo.all_classes():
        for mname, md in c_.methods().items():
            if mname.startswith("__") and mname.endswith("__"):
                continue
            if any(isinstance(x, ast.Attribute) and isinstance(x.ctx, ast.Store) and isinstance(x.value, ast.Name) and x.value.id == "self" for x in walk_no_nested(md)):
                stateful_names.add(c_.name)
                break

    def returned_worker(fn: ast.AST):
        bad_ = None
        for r in walk_no_nested(fn):
            if not (isinstance(r, ast.Return) and r.value is not None):
                continue
            for c in ast.walk(r.value):
                if isinstance(c, ast.Call):
                    cn = call_name(c) or ""
                    last = cn.split(".")[-1] if cn else (c.func.attr if isinstance(c.func, ast.Attribute) else "")
                    if last in ("tokenizer", "parser", "generator", "jsonpath_tokenizer") or last.endswith(worker_suffix) or (last[:1].isupper() and last in stateful_names):
                        bad_ = (c, last)
        return bad_

    probe = ast.parse("from functools import lru_cache\n@lru_cache(maxsize=None)\ndef engines():\n    return Hive().tokenizer(), _TrinoTokenizer(Trino())\n").body[1]
    ctx.require(memoised(probe) and returned_worker(probe) is not None, "internal: C19.h matcher no longer recognises its positive control")
    n = 0
    for f in repo.all_funcs():
        if not memoised(f.node):
            continue
        n += 1
        bad = returned_worker(f.node)
        if bad:
            ctx.fail(f.module, bad[0], f.key, bad[0], f"{f.name} is memoised and returns a worker ({norm(bad[0], 40)}): every caller, in every thread, drives the same stateful object")
        else:
            ctx.ok(f"{f.key}|memoised, returns no worker", None)
    ctx.ok("package|memoised factories scanned", {"memoised_functions": n})
    ctx.count("memoised_functions", n)


def _lazy_foreign_table_iterations(tree: ast.AST) -> list[tuple[ast.comprehension, str, str]]:
    """Class-/module-level comprehensions whose iterable is <Name>.<TABLE>[.items()/.keys()/.values()] -> (comprehension, owner name, table)."""
    out = []
    func_nodes = set()
    for fn in ast.walk(tree):
        if isinstance(fn, (ast.FunctionDef, ast.AsyncFunctionDef, ast.Lambda)):
            for x in ast.walk(fn):
                func_nodes.add(id(x))
    for comp in ast.walk(tree):
        if not isinstance(comp, ast.comprehension) or id(comp) in func_nodes:
            continue
        it = comp.iter
        if isinstance(it, ast.Call) and isinstance(it.func, ast.Attribute) and it.func.attr in ("items", "keys", "values") and not it.args:
            it = it.func.value
        if isinstance(it, ast.Attribute) and it.attr.isupper() and isinstance(it.value, ast.Name):
            out.append((comp, it.value.id, it.attr))
    return out


def rule_i(ctx: Ctx) -> None:
    ctx.rule("C19.i", "import-time iteration over another generator's table does not race with the dialect metaclass: the metaclass prunes <Generator>.TRANSFORMS in place when the owning "
                      "dialect class is created; a class-body comprehension in sqlglot/generators/<x>.py that iterates <OtherGenerator>.TRANSFORMS lazily (not a `{**table}` / dict() / "
                      ".copy() snapshot) is therefore only safe when dialects/<x>.py imports the owning dialect module before it imports generators/<x>.py — otherwise first use of the "
                      "two dialects from two threads can resize the dict during the iteration (RuntimeError out of the import)")
    ctx.require(len(_lazy_foreign_table_iterations(ast.parse("class A(B):\n    TRANSFORMS = {k: v for k, v in B.TRANSFORMS.items() if k}\n"))) == 1, "positive control failed")
    ctx.require(len(_lazy_foreign_table_iterations(ast.parse("class A(B):\n    TRANSFORMS = {k: v for k, v in {**B.TRANSFORMS}.items() if k}\n"))) == 0, "negative control failed")
    n = 0
    for name, m in sorted(ctx.repo.modules.items()):
        if not name.startswith("sqlglot.generators."):
            continue
        stem = name.rsplit(".", 1)[1]
        # Name -> generator module it was imported from
        origin: dict[str, str] = {}
        for st in m.tree.body:
            if isinstance(st, ast.ImportFrom) and st.module and st.module.startswith("sqlglot.generators."):
                for a in st.names:
                    origin[a.asname or a.name] = st.module.rsplit(".", 1)[1]
        for comp, owner, table in _lazy_foreign_table_iterations(m.tree):
            if table != "TRANSFORMS" or owner not in origin or origin[owner] == stem:
                continue
            n += 1
            d1 = origin[owner]
            inst = f"{name}|{owner}.{table} iterated at import"
            dm = ctx.repo.modules.get(f"sqlglot.dialects.{stem}")
            if dm is None:
                ctx.fail(m, comp.iter, name, comp.iter, f"`{norm(comp.iter)}` is iterated lazily at import time but no dialect module sqlglot.dialects.{stem} orders the imports")
                continue
            order = []
            for st in dm.tree.body:
                if isinstance(st, ast.ImportFrom) and st.module:
                    order.append(st.module)
                elif isinstance(st, ast.Import):
                    order.extend(a.name for a in st.names)
            own = f"sqlglot.generators.{stem}"
            dep = f"sqlglot.dialects.{d1}"
            if dep in order and own in order and order.index(dep) < order.index(own):
                ctx.ok(inst, {"iterates": norm(comp.iter), "owning_dialect_imported_first_by": dm.name})
            else:
                ctx.fail(m, comp.iter, name, comp.iter,
                         f"`{norm(comp.iter)}` is iterated lazily while the class body of {name} runs, but {dm.name} does not import {dep} before {own}: if another thread creates the "
                         f"{d1} dialect class meanwhile, its metaclass pops entries from that very dict and the iteration raises RuntimeError (dictionary changed size); iterate a "
                         f"snapshot ({{**{owner}.{table}}}) or import the owning dialect first")
    ctx.count("lazy_foreign_table_iterations", n)
    ctx.min_instances("lazy_foreign_table_iterations", n, 3)


RULES = [_all, rule_f, rule_g, rule_h, rule_i]
EXPLANATION = (
    "Static race discipline over the complete inventory of process-wide mutable state (module globals, class "
    "attributes, globals()) found by a whole-package write scan: lock coverage of the lazy-import hooks, "
    "publish-after-build on the CFG of every publishing function, effect-freeness of cache builders, absence of "
    "shared worker instances (import introspection), and a closed who-may-write inventory. Decides the discipline, "
    "not schedules."
)
ASSUMPTIONS = [
    "dict get/set and attribute stores are atomic under CPython's GIL",
    "module import itself is serialised by the interpreter's per-module import lock",
    "process-wide state is reached only through names (module globals, cls/klass/type(self)/ClassName attributes, UPPERCASE attributes of self, globals())",
]
