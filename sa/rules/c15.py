"""C15 – Results are deterministic and independent of earlier calls.

  C15.a  hash-seed independence: every iteration over a set-typed value (mypy types) feeds an
         order-insensitive consumer, or is a reviewed site; no sort keyed by id()/hash().
  C15.b  per-call state: Parser/TokenizerCore.reset re-initialise exactly the state that
         __init__ creates and that parsing/tokenizing writes, and the public entry calls reset
         first; every Generator attribute written during generation is re-initialised by
         generate() or toggled under try/finally.
  C15.c  no run-time writes to shared tables (closed inventory, shared with C19.e); class
         bodies mutate only containers they created themselves; the metaclass's
         TRANSFORMS.pop never reaches a dict owned by another generator class.
  C15.d  shared Expr instances are never embedded (same rule as C08.c).
  C15.e  name_sequence counters are function-local (never module/class level).
  C15.f  generator classes that copy a parent's TRANSFORMS are pruned by their own dialect or explicitly.
Does not decide: arithmetic/time determinism, logging order, AST-diff edit order (ids).
"""

from __future__ import annotations

import ast

from ..core import AnalysisError, Ctx, Func, Module, call_name, dotted, is_self_attr, norm, walk_no_nested
from ..effects import MUTATORS, global_writes
from ..facts import facts
from . import c08, c19

# --------------------------------------------------------------------------------------
# C15.a
# --------------------------------------------------------------------------------------

# (module:qualname, normalised iterable) -> reason the iteration order cannot reach the output
REVIEWED_SET_ITER: dict[tuple[str, str], str] = {}


def _rev(where: str, it: str, why: str) -> None:
    REVIEWED_SET_ITER[(where, it)] = why


# variadic callees that use their *args only as a membership set (read in the code: is_type -> `in`,
# find/find_all/find_ancestor -> isinstance(node, types) on a fixed traversal order)
MEMBERSHIP_VARIADICS = {
    "is_type": "DataType.is_type tests membership of self in the given types",
    "find": "returns the first node of the *traversal* that is an instance of any given type",
    "find_all": "yields nodes of the traversal that are instances of any given type",
    "find_ancestor": "walks parents and tests isinstance against the given types",
    "isinstance": "membership",
}

# modules outside the property's scope (executor + its planner/generator: property C11's territory, not
# parse/generate/transpile/optimize/qualify/annotate/lineage)
OUT_OF_SCOPE = ("sqlglot.executor", "sqlglot.planner", "sqlglot.generators.python")

_rev("sqlglot.parser:Parser._parse_on_condition", "self.ON_CONDITION_TOKENS",
     "mutually exclusive alternatives: _parse_on_handling tries `<value> ON <on>` for each value and the current token's text equals at most one of the distinct values")
_rev("sqlglot.optimizer.canonicalize:<module/class body>", "{exp.Add, exp.Date, exp.TsOrDsToDate, exp.Timestamp, *COERCIBLE_DATE_OPS, exp...",
     "tuple used only as the class table of isinstance(expression, _CANONICALIZE_TYPES)")
_rev("sqlglot.transforms:eliminate_join_marks", "left_join_table",
     "pop() on a set asserted (line above) to hold at most one element")
_rev("sqlglot.helper:SingleValuedMapping.__iter__", "self._keys",
     "container protocol: yields the caller's key collection; its only producer (Resolver) passes an ordered dict-keys view / list, and consumers use it for keyed lookup")
_rev("sqlglot.diff:ChangeDistiller._dice_coefficient", "overlapping_grams",
     "sums integer histogram minima (int addition commutes); typed as Any by mypy so recorded here")

ORDER_FREE_CALLS = {"set", "frozenset", "len", "any", "all", "sum", "dict", "Counter", "min", "max", "sorted", "isinstance", "bool"}


def _is_settype(t: str | None) -> bool:
    if not t:
        return False
    t = t.strip()
    for pre in ("builtins.set[", "set[", "builtins.frozenset[", "frozenset[", "typing.AbstractSet[", "typing.Set[", "typing.FrozenSet[", "_collections_abc.Set["):
        if t.startswith(pre):
            return True
    if " | " in t and all(_is_settype(p) or p.strip() == "None" for p in t.split(" | ")):
        return True
    return False


def _elem_deterministic(t: str) -> bool:
    """Sets of ints/bools iterate in an order that does not depend on PYTHONHASHSEED."""
    inner = t[t.index("[") + 1 : t.rindex("]")] if "[" in t else ""
    return inner in ("int", "builtins.int", "bool", "builtins.bool")


def _body_order_free(m: Module, body: list[ast.stmt], var_names: set[str], T=None) -> tuple[bool, str]:
    """A for-loop body is order-free if it only performs commuting per-element effects.
    Accepted idioms (each commutes across iterations):
      - set/dict-keyed updates, per-element mutation of the element itself;
      - `X[<expr of loop var>].append(...)` (keyed by the element: each key is hit once);
      - `d[k] += n` / `n += <int>` (integer addition commutes);
      - `return <expr not mentioning the loop variable>` / `break` without using the element
        afterwards (existence test: the result does not depend on which element triggered it);
      - `raise` (error path; which offending element is named is not a result)."""
    derived = set(var_names)
    for st in body:
        for n in ast.walk(st):
            if isinstance(n, ast.Assign) and any(isinstance(x, ast.Name) and x.id in derived for x in ast.walk(n.value)):
                for tg in n.targets:
                    for x in ast.walk(tg):
                        if isinstance(x, ast.Name):
                            derived.add(x.id)

    def mentions(e: ast.AST | None) -> bool:
        return e is not None and any(isinstance(x, ast.Name) and x.id in derived for x in ast.walk(e))

    for st in body:
        for n in ast.walk(st):
            if isinstance(n, ast.Return):
                if mentions(n.value):
                    return False, "return of a value derived from the current element selects an element by iteration order"
                continue
            if isinstance(n, (ast.Yield, ast.YieldFrom)):
                return False, "yield inside the loop exposes iteration order"
            if isinstance(n, ast.Break):
                return False, "break inside the loop selects an element by iteration order"
            if isinstance(n, ast.Call) and isinstance(n.func, ast.Attribute):
                a = n.func.attr
                if a in ("append", "extend", "insert", "appendleft", "write", "push") and not (a == "append" and len(n.args) == 2):
                    recv = n.func.value
                    if isinstance(recv, ast.Subscript) and mentions(recv.slice):
                        continue  # keyed by the element
                    return False, f".{a}() builds a sequence in iteration order"
            if isinstance(n, ast.Call) and isinstance(n.func, ast.Attribute) and n.func.attr == "set" and len(n.args) >= 2 and mentions(n.args[0]):
                # Expression.set(<element>, ...): a new argument key is *inserted* into the node's ordered args dict, so the order of the
                # node's children (walk / dump / repr) follows the iteration order
                return False, ".set(<element>, ...) inserts argument keys in iteration order (children order of the node)"
            if isinstance(n, ast.Call):
                cn = call_name(n) or ""
                if cn.split(".")[-1] in ("heappush", "next_name", "next_alias_name", "_next_name", "next"):
                    return False, f"{cn}() inside the loop depends on iteration order"
            if isinstance(n, ast.AugAssign) and not isinstance(n.op, (ast.BitOr, ast.BitAnd)):
                if isinstance(n.op, ast.Add):
                    vt = T.of(m, n.value) if T is not None else None
                    if vt in ("int", "builtins.int") or (isinstance(n.value, ast.Constant) and isinstance(n.value.value, int)):
                        continue  # integer addition commutes
                return False, "augmented assignment accumulates in iteration order"
    return True, "body only performs commuting per-element / set / keyed updates"


def rule_a(ctx: Ctx) -> None:
    ctx.rule(
        "C15.a",
        "hash-seed independence: every iteration over a set-typed expression (mypy-inferred) feeds an order-insensitive consumer "
        "(set/len/any/all/sum/sorted-without-key/dict-or-set comprehension/commuting loop body) or is a reviewed site",
    )
    from ..typed import types

    T = types(ctx.repo)
    repo = ctx.repo
    ctx.count("typed_expressions", T.n)
    n_sites = 0

    def site(m: Module, node: ast.AST, it: ast.AST, ty: str, ok: bool, why: str) -> None:
        nonlocal n_sites
        n_sites += 1
        f = m.enclosing_func(node)
        where = f.key if f else f"{m.name}:<module/class body>"
        inst = f"{where}|{norm(it, 80)}"
        if ok:
            ctx.ok(inst, {"at": where, "iterable": norm(it, 60), "type": ty[:60], "consumer": why})
            return
        key = (where, norm(it, 80))
        if key in REVIEWED_SET_ITER:
            ctx.ok(inst, {"at": where, "iterable": norm(it, 60), "type": ty[:60], "reviewed": REVIEWED_SET_ITER[key]})
            return
        ctx.fail(m, node, where, f"iterate {norm(it, 80)} : {ty[:60]}",
                 f"iteration over a set ({ty[:60]}) reaches an order-sensitive consumer ({why}); element order varies with PYTHONHASHSEED")

    def consumer_of_comp(m: Module, comp_owner: ast.AST) -> tuple[bool, str]:
        if isinstance(comp_owner, ast.SetComp):
            return True, "set comprehension"
        if isinstance(comp_owner, ast.DictComp):
            return True, "dict comprehension (keyed result)"
        p = m.parent(comp_owner)
        if isinstance(p, ast.Call) and comp_owner in p.args:
            cn = (call_name(p) or "").split(".")[-1]
            if cn in ORDER_FREE_CALLS:
                if cn in ("sorted", "min", "max") and any(kw.arg == "key" for kw in p.keywords):
                    return False, f"{cn}(key=...) breaks ties by iteration order"
                return True, f"{cn}(...)"
            if isinstance(p.func, ast.Attribute) and p.func.attr in ("update", "union", "intersection", "difference", "issubset", "issuperset", "isdisjoint", "add", "difference_update"):
                return True, f".{p.func.attr}(...)"
            return False, f"argument of {cn or '?'}(...)"
        if isinstance(p, ast.Compare):
            return True, "membership / comparison"
        if isinstance(comp_owner, ast.ListComp):
            return False, "list comprehension keeps iteration order"
        return False, f"generator consumed by {type(p).__name__}"

    # class-level tables written as set displays but without a static type (`X: t.ClassVar = {...}`): recognised from the class bodies
    set_attrs: dict[str, str] = {}
    for c in repo.all_classes():
        for k, v in c.body_assigns().items():
            if isinstance(v, (ast.Set, ast.SetComp)) or (isinstance(v, ast.Call) and call_name(v) in ("set", "frozenset")):
                elems = [e.value for e in getattr(v, "elts", []) if isinstance(e, ast.Constant)]
                kind = "int" if elems and all(isinstance(e, int) for e in elems) else "str" if elems and all(isinstance(e, str) for e in elems) else "Any"
                set_attrs.setdefault(k, f"builtins.set[builtins.{kind}]" if kind != "Any" else "builtins.set[Any]")

    def type_of(m: Module, e: ast.AST) -> str | None:
        ty = T.of(m, e)
        if (ty is None or ty.startswith("Any")) and isinstance(e, ast.Attribute) and isinstance(e.value, ast.Name) and e.attr in set_attrs and e.attr.isupper():
            return set_attrs[e.attr] + " (class-body set display)"
        return ty

    for m in repo.modules.values():
        if m.name.startswith(OUT_OF_SCOPE):
            continue
        # for statements
        for n in m.of_type(ast.For):
            ty = type_of(m, n.iter)
            if not _is_settype(ty):
                continue
            if _elem_deterministic(ty):
                continue
            names = {x.id for x in ast.walk(n.target) if isinstance(x, ast.Name)}
            ok, why = _body_order_free(m, n.body, names, T)
            site(m, n, n.iter, ty, ok, why)
        for n in m.of_type(ast.comprehension):
            ty = type_of(m, n.iter)
            if not _is_settype(ty) or _elem_deterministic(ty):
                continue
            owner = m.parent(n)
            ok, why = consumer_of_comp(m, owner)
            site(m, owner, n.iter, ty, ok, why)
        for n in m.of_type(ast.Call):
            cn = (call_name(n) or "").split(".")[-1]
            if not cn and isinstance(n.func, ast.Subscript) and isinstance(n.func.value, ast.Name):
                cn = n.func.value.id  # list[str](xs)
            if cn in ("list", "tuple", "iter", "enumerate", "next", "reversed", "deque", "chain", "zip", "map", "filter", "join", "sorted", "min", "max"):
                args = list(n.args)
                for a in args:
                    if isinstance(a, ast.Starred):
                        a = a.value
                    ty = type_of(m, a)
                    if not _is_settype(ty) or _elem_deterministic(ty):
                        continue
                    if cn in ("sorted", "min", "max"):
                        if any(kw.arg == "key" for kw in n.keywords):
                            site(m, n, a, ty, False, f"{cn}(key=...) breaks ties by iteration order")
                        else:
                            site(m, n, a, ty, True, f"{cn}() without key")
                        continue
                    # list(S) etc.: ok only if the result goes straight into an order-free call
                    p = m.parent(n)
                    if isinstance(p, ast.Call) and (call_name(p) or "").split(".")[-1] in ORDER_FREE_CALLS and not any(kw.arg == "key" for kw in p.keywords):
                        site(m, n, a, ty, True, f"{cn}() inside {(call_name(p) or '').split('.')[-1]}()")
                    else:
                        site(m, n, a, ty, False, f"{cn}(set) materialises iteration order")
            if isinstance(n.func, ast.Attribute) and n.func.attr in ("extend", "extendleft", "writelines") and n.args:
                ty = T.of(m, n.args[0])
                if _is_settype(ty) and not _elem_deterministic(ty):
                    site(m, n, n.args[0], ty, False, f".{n.func.attr}(set) appends in iteration order")
            if isinstance(n.func, ast.Attribute) and n.func.attr == "pop" and not n.args:
                ty = T.of(m, n.func.value)
                if _is_settype(ty) and not _elem_deterministic(ty):
                    site(m, n, n.func.value, ty, False, "set.pop() returns an arbitrary element")
            for a in n.args:
                if isinstance(a, ast.Starred):
                    ty = T.of(m, a.value)
                    if _is_settype(ty) and not _elem_deterministic(ty) and cn not in ("set", "frozenset"):
                        if cn in MEMBERSHIP_VARIADICS:
                            site(m, n, a.value, ty, True, f"*set unpacked into {cn}(...): {MEMBERSHIP_VARIADICS[cn]}")
                        else:
                            site(m, n, a.value, ty, False, f"*set unpacked into {cn or '?'}(...)")
        for n in m.of_type(ast.Starred):
            p = m.parent(n)
            if isinstance(p, (ast.List, ast.Tuple)) and isinstance(n.ctx, ast.Load):
                ty = T.of(m, n.value)
                if _is_settype(ty) and not _elem_deterministic(ty):
                    site(m, n, n.value, ty, False, "*set unpacked into a list/tuple display")
        # sort keyed by id/hash
        for n in m.of_type(ast.Call):
            cn = (call_name(n) or "").split(".")[-1]
            if cn in ("sorted", "min", "max", "sort"):
                for kw in n.keywords:
                    if kw.arg == "key" and isinstance(kw.value, ast.Name) and kw.value.id in ("id", "hash"):
                        ctx.fail(m, n, (m.enclosing_func(n).key if m.enclosing_func(n) else m.name), n, "ordering keyed by id()/hash() differs between processes")
    ctx.count("set_iteration_sites", n_sites)
    ctx.min_instances("set_iteration_sites", n_sites, 60)


# --------------------------------------------------------------------------------------
# C15.b
# --------------------------------------------------------------------------------------


def _self_stores(fn: ast.FunctionDef) -> dict[str, list[ast.stmt]]:
    out: dict[str, list[ast.stmt]] = {}
    for n in walk_no_nested(fn):
        tg = None
        if isinstance(n, ast.Assign):
            for x in n.targets:
                for y in ast.walk(x):
                    if is_self_attr(y) and isinstance(y.ctx, ast.Store):
                        out.setdefault(y.attr, []).append(n)
        elif isinstance(n, (ast.AugAssign, ast.AnnAssign)) and is_self_attr(n.target):
            out.setdefault(n.target.attr, []).append(n)
    return out


def _value_of(st: ast.stmt) -> ast.AST | None:
    return getattr(st, "value", None)


def rule_b_reset(ctx: Ctx) -> None:
    ctx.rule(
        "C15.b.reset",
        "Parser / TokenizerCore: reset() re-initialises every non-configuration attribute of __init__ with the same value, "
        "covers every attribute written while parsing/tokenizing, and the public entry calls reset() first",
    )
    repo = ctx.repo
    for mod, cname, entry in (("sqlglot.parser", "Parser", "_parse"), ("sqlglot.tokenizer_core", "TokenizerCore", "tokenize")):
        c = repo.cls(mod, cname)
        meths = c.methods()
        init, reset = meths.get("__init__"), meths.get("reset")
        ctx.require(init is not None and reset is not None, f"anchor vanished: {cname}.__init__/reset")
        params = {a.arg for a in init.args.args + init.args.kwonlyargs} - {"self"}
        init_st = _self_stores(init)
        reset_st = _self_stores(reset)
        state = {}
        for attr, sts in init_st.items():
            v = _value_of(sts[-1])
            if v is None:
                continue
            uses_param = any(isinstance(x, ast.Name) and x.id in params for x in ast.walk(v))
            if not uses_param:
                state[attr] = norm(v)
        ctx.count(f"{cname}_state_attrs", len(state))
        for attr, v in sorted(state.items()):
            inst = f"{c.key}|{attr}"
            if attr not in reset_st:
                ctx.fail(c.module, init_st[attr][-1], f"{c.key}.reset", f"self.{attr} = {v}",
                         f"{cname}.__init__ creates per-call state self.{attr} = {v} that reset() does not re-initialise: a reused {cname} "
                         f"starts the next call with leftovers of the previous one")
            else:
                rv = norm(_value_of(reset_st[attr][-1]))
                # i64(...) wrappers etc.: compare after stripping a single wrapper call
                if rv == v or rv.replace(" ", "") == v.replace(" ", ""):
                    ctx.ok(inst, {"attr": attr, "init": v, "reset": rv})
                else:
                    ctx.fail(c.module, reset_st[attr][-1], f"{c.key}.reset", f"self.{attr}: init {v} vs reset {rv}",
                             f"reset() re-initialises self.{attr} to {rv} but a fresh {cname} starts with {v}")
        # attributes written anywhere else in the class hierarchy during work
        classes = [c] + repo.subclasses(c)
        written: dict[str, tuple[Module, ast.stmt, str]] = {}
        for k in classes:
            for name, md in k.methods().items():
                if name in ("__init__", "reset"):
                    continue
                for attr, sts in _self_stores(md).items():
                    written.setdefault(attr, (k.module, sts[0], f"{k.key}.{name}"))
        ctx.count(f"{cname}_attrs_written_at_work", len(written))
        for attr, (m, st, where) in sorted(written.items()):
            if attr in reset_st:
                ctx.ok(f"{where}|writes {attr}|reset covers it")
            elif attr in init_st and attr not in state:
                # configuration attribute rewritten during work must be restored (C14.b handles error_level)
                if attr == "error_level":
                    ctx.ok(f"{where}|writes {attr}|save/restore (C14.b)")
                else:
                    ctx.fail(m, st, where, st, f"configuration attribute self.{attr} is rewritten during work and never reset")
            else:
                ctx.fail(m, st, where, st, f"self.{attr} is written while working but reset() does not re-initialise it: state leaks into the next call on a reused instance")
        # entry calls reset() first
        e = meths.get(entry)
        ctx.require(e is not None, f"anchor vanished: {cname}.{entry}")
        first = next((st for st in e.body if not (isinstance(st, ast.Expr) and isinstance(st.value, ast.Constant))), None)
        if isinstance(first, ast.Expr) and call_name(first.value) == "self.reset":
            ctx.ok(f"{c.key}.{entry}|reset() first")
        else:
            ctx.fail(c.module, first, f"{c.key}.{entry}", first, f"{cname}.{entry} must call self.reset() before anything else")


def rule_b_generator(ctx: Ctx) -> None:
    ctx.rule(
        "C15.b.generator",
        "Generator: every instance attribute written (or stateful closure advanced) during generation is re-initialised at the top "
        "of generate() or restored by a finally block around the toggled region",
    )
    repo = ctx.repo
    g = repo.cls("sqlglot.generator", "Generator")
    init = g.methods()["__init__"]
    gen = g.methods()["generate"]
    init_st = _self_stores(init)
    # stateful closures: attributes initialised from factory calls returning counters
    closures = {a for a, sts in init_st.items() if isinstance(_value_of(sts[-1]), ast.Call) and (call_name(_value_of(sts[-1])) or "").endswith("name_sequence")}
    gen_st = _self_stores(gen)
    # position of first self.sql( call in generate
    first_sql = None
    for i, st in enumerate(gen.body):
        if any(isinstance(x, ast.Call) and call_name(x) == "self.sql" for x in ast.walk(st)):
            first_sql = i
            break
    ctx.require(first_sql is not None, "anchor vanished: Generator.generate no longer calls self.sql")
    reinit = set()
    for i, st in enumerate(gen.body[: first_sql + 1]):
        for attr, sts in gen_st.items():
            if st in sts and i < first_sql:
                reinit.add(attr)
    for a in sorted(closures):
        if a in reinit:
            ctx.ok(f"{g.key}|closure {a} re-created in generate()", {"closure": a, "reinitialised": True})
        else:
            ctx.fail(g.module, init_st[a][-1], f"{g.key}.generate", f"self.{a} = {norm(_value_of(init_st[a][-1]))}",
                     f"stateful counter self.{a} is created once in __init__ and never restarted by generate(): a reused generator emits different names than a fresh one")
    # writes during generation: all methods of Generator subclasses + helper functions with a `self: Generator`-like first param
    sites: list[tuple[Module, str, ast.FunctionDef, str, ast.stmt]] = []
    for k in [g] + repo.subclasses(g):
        for name, md in k.methods().items():
            if name in ("__init__", "generate"):
                continue
            for attr, sts in _self_stores(md).items():
                for st in sts:
                    sites.append((k.module, f"{k.key}.{name}", md, attr, st))
    for m in repo.modules.values():
        if not (m.name.startswith("sqlglot.generators") or m.name in ("sqlglot.dialects.dialect", "sqlglot.transforms", "sqlglot.generator")):
            continue
        for f in m.funcs.values():
            if f.cls is None and f.node.args.args and f.node.args.args[0].arg == "self":
                for attr, sts in _self_stores(f.node).items():
                    for st in sts:
                        sites.append((m, f.key, f.node, attr, st))
    ctx.count("generation_time_attribute_writes", len(sites))
    for m, where, md, attr, st in sites:
        inst = f"{where}|{norm(st)}"
        if attr in reinit and not attr in closures:
            # re-initialised per call, but a write during generation must still be local to the call: fine
            ctx.ok(inst, {"write": norm(st), "why": "re-initialised at the top of generate()"})
            continue
        # toggle under try/finally: this statement is either in a finally (restore) or directly followed by a Try whose finally assigns attr
        par = m.parent(st)
        ok = False
        if isinstance(par, ast.Try) and st in par.finalbody:
            ok = True
        # restore inside `if` inside finally
        q = par
        while q is not None and q is not md and not ok:
            qq = m.parent(q)
            if isinstance(qq, ast.Try) and q in qq.finalbody:
                ok = True
            q = qq
        if not ok:
            # find next Try among following siblings in the same block (allow intervening pure `if` wrappers)
            blk = None
            cur = st
            holder = par
            # climb out of a wrapping `if` whose only content is this toggle
            if isinstance(holder, ast.If) and len(holder.body) == 1 and not holder.orelse:
                cur, holder = holder, m.parent(holder)
            for fld in ("body", "orelse", "finalbody"):
                lst = getattr(holder, fld, None)
                if isinstance(lst, list) and cur in lst:
                    blk = lst
            if blk is not None:
                i = blk.index(cur)
                for nxt in blk[i + 1 : i + 3]:
                    if isinstance(nxt, ast.Try) and any(
                        is_self_attr(t, attr) for fs in nxt.finalbody for x in ast.walk(fs) if isinstance(x, (ast.Assign, ast.AugAssign)) for t in (x.targets if isinstance(x, ast.Assign) else [x.target])
                    ):
                        ok = True
                        break
                    if not isinstance(nxt, (ast.Assign, ast.AnnAssign)):
                        break
        if ok:
            ctx.ok(inst, {"write": norm(st), "why": "toggled under try/finally"})
        else:
            ctx.fail(m, st, where, st,
                     f"generator attribute self.{attr} is changed during generation without a finally-protected restore and without "
                     f"re-initialisation in generate(): after an exception (or on reuse) the generator answers differently from a fresh one")


# --------------------------------------------------------------------------------------
# C15.c
# --------------------------------------------------------------------------------------


def _fresh_container(v: ast.AST) -> bool:
    if isinstance(v, (ast.Dict, ast.Set, ast.List, ast.DictComp, ast.SetComp, ast.ListComp, ast.Tuple)):
        return True
    if isinstance(v, ast.Call):
        cn = call_name(v) or ""
        if cn.split(".")[-1] in ("dict", "set", "list", "frozenset", "copy", "deepcopy", "defaultdict", "OrderedDict", "tuple", "sorted", "new_trie"):
            return True
        if isinstance(v.func, ast.Attribute) and v.func.attr == "copy":
            return True
        # factory helpers returning new containers
        return cn.split(".")[-1].startswith(("build_", "_build", "merge", "_merge")) or cn.split(".")[-1] in ("fromkeys",)
    if isinstance(v, ast.BinOp) and isinstance(v.op, (ast.BitOr, ast.BitAnd, ast.Sub, ast.Add)):
        return True
    return False


def _shallow_of_foreign(v: ast.AST) -> str | None:
    """the foreign container whose *values* the fresh container v still shares (shallow copy), if any"""
    def foreign(e: ast.AST) -> str | None:
        d = dotted(e)
        return d if d and "." in d and d.split(".")[-1].isupper() else None

    if isinstance(v, ast.Dict):
        for k, val in zip(v.keys, v.values):
            if k is None:  # **spread
                fo = foreign(val)
                if fo:
                    return fo
    if isinstance(v, ast.Call):
        cn = (call_name(v) or "").split(".")[-1]
        if cn in ("dict", "defaultdict", "OrderedDict", "list", "set") and v.args:
            for a in v.args:
                fo = foreign(a)
                if fo:
                    return fo
        if isinstance(v.func, ast.Attribute) and v.func.attr == "copy" and not v.args:
            return foreign(v.func.value)
        if cn == "copy" and v.args:
            return foreign(v.args[0])
    return None


def rule_c(ctx: Ctx) -> None:
    ctx.rule(
        "C15.c",
        "no run-time writes to shared tables: closed inventory of global writers (see C19.e); class bodies mutate only containers "
        "created in the same class body; the metaclass's TRANSFORMS.pop only reaches dicts owned by the generator class (or a no-op)",
    )
    writes = global_writes(ctx.repo)
    n = 0
    for w in writes:
        if w.func is None:
            continue
        n += 1
        if w.func.key in c19.ALLOWED_WRITERS:
            ctx.ok(f"{w.func.key}|{w.target}|{norm(w.node)}", {"writer": w.func.key, "target": w.target})
        else:
            ctx.fail(w.module, w.node, w.func.key, w.node,
                     f"run-time write to process-wide state {w.target}: what this process parsed or generated earlier changes later results")
    ctx.count("global_write_sites", n)
    ctx.min_instances("global_write_sites", n, 15)
    # class-body mutations
    nb = 0
    for cdef in ctx.repo.all_classes():
        m = cdef.module
        bound: dict[str, ast.AST] = {}

        def flat(body: list[ast.stmt]) -> list[ast.stmt]:
            # statements executed by the class body, including those nested in for / if / with / try blocks
            out: list[ast.stmt] = []
            for s_ in body:
                out.append(s_)
                if isinstance(s_, (ast.For, ast.While, ast.If, ast.With, ast.Try)):
                    for fld in ("body", "orelse", "finalbody"):
                        out.extend(flat(getattr(s_, fld, []) or []))
                    for h in getattr(s_, "handlers", []) or []:
                        out.extend(flat(h.body))
            return out

        class_stmts = flat(cdef.node.body)
        for st in class_stmts:
            if isinstance(st, ast.Assign):
                for tg in st.targets:
                    if isinstance(tg, ast.Name):
                        bound[tg.id] = st.value
            elif isinstance(st, ast.AnnAssign) and isinstance(st.target, ast.Name) and st.value is not None:
                bound[st.target.id] = st.value
            target = None
            if isinstance(st, ast.Expr) and isinstance(st.value, ast.Call) and isinstance(st.value.func, ast.Attribute) and st.value.func.attr in MUTATORS:
                target = st.value.func.value
            elif isinstance(st, (ast.Assign, ast.AugAssign, ast.Delete)):
                tgs = st.targets if isinstance(st, (ast.Assign, ast.Delete)) else [st.target]
                for tg in tgs:
                    if isinstance(tg, ast.Subscript):
                        target = tg.value
            if target is None:
                continue
            nb += 1
            where = f"{cdef.key}:<class body>"
            shared_from = _shallow_of_foreign(bound[target.id]) if isinstance(target, ast.Name) and target.id in bound else None
            inplace_on_element = isinstance(st, ast.AugAssign) and isinstance(st.target, ast.Subscript) and isinstance(st.op, (ast.BitOr, ast.BitAnd, ast.Sub, ast.Add, ast.BitXor))
            elem_mutator = isinstance(st, ast.Expr) and isinstance(st.value, ast.Call) and isinstance(st.value.func, ast.Attribute) and isinstance(st.value.func.value, ast.Subscript)
            if shared_from and (inplace_on_element or elem_mutator):
                # `T = {**Other.T}; T[k] |= {...}` — the dict is new but its values are still Other's objects: `|=` updates Other's set in place
                key_txt = norm(st.target.slice if inplace_on_element else st.value.func.value.slice, 40)
                fresh_keys = {norm(k_, 40) for k_ in getattr(bound[target.id], "keys", []) if k_ is not None}
                rebound_before = any(
                    isinstance(p_, ast.Assign) and any(isinstance(tg_, ast.Subscript) and norm(tg_.value) == target.id and norm(tg_.slice, 40) == key_txt for tg_ in p_.targets)
                    for p_ in class_stmts[: class_stmts.index(st)]
                )
                if key_txt in fresh_keys or rebound_before:
                    ctx.ok(f"{where}|{norm(st)}", {"stmt": norm(st), "element": "bound to a fresh value in this class body"})
                else:
                    ctx.fail(m, st, where, st,
                             f"{target.id} is a shallow copy of {shared_from}: the element {target.id}[{key_txt}] is still {shared_from}'s own object, and this in-place update "
                             f"changes it for every user of {shared_from} as soon as this module is imported (results depend on which dialects were loaded before)")
            elif isinstance(target, ast.Name) and target.id in bound and _fresh_container(bound[target.id]):
                ctx.ok(f"{where}|{norm(st)}", {"stmt": norm(st), "container": f"{target.id} = {norm(bound[target.id], 50)}", "fresh": True})
            else:
                src = norm(bound[target.id], 60) if isinstance(target, ast.Name) and target.id in bound else "not bound in this class body"
                ctx.fail(m, st, where, st,
                         f"class body mutates {norm(target)} ({src}), which is not a container created in this class body: the edit leaks "
                         f"into the parent/shared table and depends on import order")
    # import-time calls of in-place helpers (new_trie(keys, <table>), ...) on a table owned by another class / module
    for w in writes:
        if w.func is not None or "in-place helper" not in w.kind:
            continue
        nb += 1
        owner_cls = m_cls = None
        c_ = w.module.enclosing_class(w.node)
        own = (c_ is not None and w.target.startswith(c_.key + ".")) or (c_ is None and w.target.startswith(w.module.name + ":"))
        where = f"{(c_.key if c_ else w.module.name)}:<import-time body>"
        if own:
            ctx.ok(f"{where}|{norm(w.node)}", {"stmt": norm(w.node), "target": w.target, "own_table": True})
        else:
            ctx.fail(w.module, w.node, where, w.node,
                     f"import-time code hands {w.target} to an in-place helper ({w.kind}): the shared table of another class / module is edited when this "
                     f"module happens to be imported, so every user of that table sees a result that depends on which dialects were loaded before")
    ctx.count("class_body_mutations", nb)
    ctx.min_instances("class_body_mutations", nb, 3)
    # metaclass TRANSFORMS.pop ownership (S2)
    fx = facts(ctx.repo)
    mro_of: dict[str, list[str]] = {}
    for d in fx["dialects"].values():
        mro_of[d["generator_class"]] = d["generator_mro"]
        for i, k in enumerate(d["generator_mro"]):
            mro_of.setdefault(k, d["generator_mro"][i:])
    nd = 0
    for name, d in fx["dialects"].items():
        nd += 1
        G, O, defs = d["generator_class"], d["transforms_owner"], d["json_parts_definers"]
        if not defs:
            ctx.ok(f"dialect {name or 'base'}|no SUPPORTED_JSON_PATH_PARTS")
            continue
        D = defs[0]
        if O == G or D in mro_of.get(O, [O]):
            ctx.ok(f"dialect {name or 'base'}|TRANSFORMS owner {O.split(':')[-1]}", {"dialect": name, "generator": G, "transforms_owner": O, "json_parts_definer": D})
        else:
            ctx.fail(None, None, G, f"{G}.TRANSFORMS resolved to {O}",
                     f"dialect {name}: generator {G} narrows SUPPORTED_JSON_PATH_PARTS (defined in {D}) but inherits the TRANSFORMS dict "
                     f"object of {O}; the metaclass's TRANSFORMS.pop(...) would strip JSON path transforms from {O} for every dialect that uses it")
    ctx.count("dialects_checked", nd)
    ctx.min_instances("dialects_checked", nd, 30)
    # the metaclass only pops from gen_cls.TRANSFORMS
    f = ctx.repo.func("sqlglot.dialects.dialect", "_Dialect.__new__")
    pops = [c for c in walk_no_nested(f.node) if isinstance(c, ast.Call) and isinstance(c.func, ast.Attribute) and c.func.attr in MUTATORS and "TRANSFORMS" in norm(c.func.value)]
    for c in pops:
        if norm(c.func.value) == "gen_cls.TRANSFORMS" and c.func.attr == "pop":
            ctx.ok(f"{f.key}|{norm(c)}")
        else:
            ctx.fail(f.module, c, f.key, c, "metaclass mutates a TRANSFORMS table other than gen_cls.TRANSFORMS.pop(...)")


def rule_d(ctx: Ctx) -> None:
    c08.rule_c(ctx)
    # relabel
    ctx.rules["C15.d"] = "shared Expr instances are never embedded (rule C08.c evaluated for C15: a later call must not alter an earlier result)"
    ctx.rules.pop("C08.c", None)
    ctx.analysed["C15.d"] = ctx.analysed.pop("C08.c", {})
    for f in ctx.findings:
        if f.rule == "C08.c":
            f.rule = "C15.d"
    ctx.instances = {i.replace("C08.c|", "C15.d|") for i in ctx.instances}
    for s in ctx.samples:
        if s.get("rule") == "C08.c":
            s["rule"] = "C15.d"


def rule_e(ctx: Ctx) -> None:
    ctx.rule("C15.e", "name_sequence(...) counters are created inside functions only (never at module or class level)")
    n = 0
    for m in ctx.repo.modules.values():
        for c in m.of_type(ast.Call):
            if (call_name(c) or "").split(".")[-1] == "name_sequence":
                n += 1
                f = m.enclosing_func(c)
                if f is None:
                    ctx.fail(m, c, f"{m.name}:<module/class body>", m.enclosing_stmt(c) or c, "a process-wide name counter makes generated names depend on everything processed before")
                else:
                    ctx.ok(f"{f.key}|{norm(m.enclosing_stmt(c) or c)}")
    ctx.count("name_sequence_sites", n)
    ctx.min_instances("name_sequence_sites", n, 5)


def rule_f(ctx: Ctx) -> None:
    ctx.rule("C15.f", "import-order independence of generator tables: the Dialect metaclass prunes unsupported JSON-path entries from the TRANSFORMS of each dialect's own "
                      "generator class only; a generator class that copies another generator's TRANSFORMS in its body and is no dialect's generator class must prune "
                      "explicitly, otherwise its table depends on whether the parent's dialect had been created when the module was imported")
    repo = ctx.repo
    fx = facts(repo)
    registered = {d["generator_class"].replace(":", ".").split(".")[-1] for d in fx["dialects"].values()}
    # the metaclass still prunes by popping from gen_cls.TRANSFORMS
    dm = repo.module("sqlglot.dialects.dialect")
    pops = [c for c in dm.of_type(ast.Call) if isinstance(c.func, ast.Attribute) and c.func.attr == "pop" and norm(c.func.value).endswith(".TRANSFORMS")]
    ctx.require(bool(pops), "anchor vanished: the dialect metaclass no longer pops unsupported JSON path parts from generator_class.TRANSFORMS")
    base = repo.cls("sqlglot.generator", "Generator")
    n = 0
    for c in repo.subclasses(base):
        tr = c.body_assigns().get("TRANSFORMS")
        if tr is None:
            continue
        spreads = [norm(v) for k, v in zip(getattr(tr, "keys", []), getattr(tr, "values", [])) if k is None] if isinstance(tr, ast.Dict) else \
                  [norm(v) for d_ in ast.walk(tr) if isinstance(d_, ast.Dict) for k, v in zip(d_.keys, d_.values) if k is None]
        spreads = [x for x in spreads if x.endswith(".TRANSFORMS") and not x.startswith(("generator.Generator", "Generator."))]
        if not spreads:
            continue
        n += 1
        inst = f"{c.key}|TRANSFORMS copies {spreads[0]}"
        if c.name in registered:
            ctx.ok(inst, {"class": c.key, "pruned_by": "its own dialect's metaclass pass"})
        elif any(isinstance(x, ast.Attribute) and x.attr == "SUPPORTED_JSON_PATH_PARTS" for x in ast.walk(tr)):
            ctx.ok(inst, {"class": c.key, "pruned_by": "explicit filter on SUPPORTED_JSON_PATH_PARTS in the class body"})
        else:
            ctx.fail(c.module, tr, c.key, f"TRANSFORMS = {{**{spreads[0]}, ...}}",
                     f"{c.name} copies {spreads[0]} when its module is imported but is not the generator class of any dialect, so nothing prunes the JSON-path entries "
                     f"its parent does not support: importing this module before the parent's dialect class exists yields a different table (and different SQL)")
    ctx.count("generator_classes_copying_a_parent_table", n)
    ctx.min_instances("generator_classes_copying_a_parent_table", n, 8)


RULES = [rule_b_reset, rule_b_generator, rule_c, rule_d, rule_e, rule_f, rule_a]
EXPLANATION = (
    "Determinism discipline decided from the source: (a) with mypy-inferred types, every iteration over a set-typed expression in "
    "the package is located and its consumer classified as order-insensitive or not; (b) sibling agreement between __init__ and "
    "reset() of Parser/TokenizerCore plus coverage of every attribute written at work, and finally-protected toggles / per-call "
    "re-initialisation of Generator attributes; (c) a closed who-may-write inventory of process-wide state, freshness of containers "
    "mutated in class bodies, and table-ownership facts from import introspection for the metaclass's TRANSFORMS.pop; (d) no "
    "embedding of shared Expr instances. Decides the mechanisms, not arithmetic or time-dependent behaviour."
)
ASSUMPTIONS = [
    "mypy's inferred types (sqlglot-mypy from the repo's own environment) identify set-typed expressions; Any-typed iterables are not tracked",
    "dict views over dicts whose insertion order derives from a set (second-order) are not tracked",
    "sets of int/bool iterate independently of PYTHONHASHSEED (ids of objects excepted: AST-diff edit order, documented exception)",
    "reviewed table REVIEWED_SET_ITER (one site + reason each)",
]
