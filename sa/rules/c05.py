"""C05 – Tokenize, parse and generate always terminate with a result or a sqlglot error.

Decided clauses (all call sites / all paths, from the source):
  C05.a  loop progress: every `while` loop of the recursive-descent parser and of the tokenizer
         carries a progress witness (see sa/rules/c05_loops.py).
  C05.b  cursor discipline: _retreat targets are saved positions; relative moves are covered
         by consumption; _try_parse restores in finally (see c05_loops.py).
  C05.c  guarded table lookups: self.T[<key from _prev>] is dominated by a successful match on
         the same table (or a membership test / a constant key present in every parser class).
  C05.d  generator fall-through: a node class without a handler is reported through
         Generator.unsupported (library error family), for every target dialect; transforms
         registered through preprocess always find a printer.
  C05.e  raise family: every explicit raise in the tokenizer/parser/generator/dialect/transform
         modules raises a SqlglotError subclass, re-raises, or is a reviewed configuration error.
  C05.f  builder argument access: every constant index / tuple unpack of a function-builder's
         `args` list is dominated by a length guard that implies it.
  C05.g  tokenizer wrapper: TokenizerCore._scan runs only under tokenize()'s
         `except Exception -> TokenError`; every public tokenizer entry reaches it.
  C05.h  definite assignment (mypy's opt-in `possibly-undefined` from the repo's own environment,
         run as a library): no local is read before assignment (UnboundLocalError leak).
Does not decide: None-dereferences in general, polynomial work bounds, recursion depth.
"""

from __future__ import annotations

import ast

from ..cfg import CFG, forward
from ..core import AnalysisError, Ctx, Func, Module, call_name, dotted, is_self_attr, kwarg, norm, walk_no_nested
from ..facts import facts

FAMILY_ROOT = "SqlglotError"


def _family(ctx: Ctx) -> set[str]:
    errs = ctx.repo.module("sqlglot.errors")
    return {c.name for c in errs.classes.values() if any(x.name == FAMILY_ROOT for x in ctx.repo.mro(c))}


def _parser_modules(ctx: Ctx) -> list[Module]:
    return [m for n, m in ctx.repo.modules.items() if n == "sqlglot.parser" or n.startswith("sqlglot.parsers")]


# ------------------------------------------------------------------------------------------ C05.c

MOVERS = ("self._advance", "self._retreat", "self._match", "self._parse", "self._try_parse", "self._advance_chunk")


def rule_c(ctx: Ctx) -> None:
    ctx.rule(
        "C05.c",
        "guarded table lookups: every self.TABLE[key] in parser code is dominated by a successful _match_set/_match_texts on the same table "
        "(no cursor move in between), a membership test on the same key, or uses a constant key present in the table of every parser class",
    )
    fx = facts(ctx.repo)
    n = 0
    for m in _parser_modules(ctx):
        by_func: dict[int, list[ast.Subscript]] = {}
        for s in m.of_type(ast.Subscript):
            if isinstance(s.ctx, ast.Load) and is_self_attr(s.value) and s.value.attr.isupper():
                f = m.enclosing_func(s)
                if f is not None:
                    by_func.setdefault(id(f.node), []).append(s)
        for f in m.funcs.values():
            sites = by_func.get(id(f.node))
            if not sites:
                continue
            g = CFG(f.node)

            def guard_table(node, lab) -> str | None:
                """fact proved by edge (node,lab): `prev:<fn>:<T>` (_prev is a key of T) or `curr:<fn>:<T>` (advance=False: _curr is)"""
                if node.kind != "cond" or lab is not True:
                    return None
                e = node.ast
                if isinstance(e, ast.NamedExpr):
                    e = e.value
                if isinstance(e, ast.Call) and call_name(e) in ("self._match_set", "self._match_texts") and e.args:
                    adv = kwarg(e, "advance")
                    which = "curr" if (isinstance(adv, ast.Constant) and adv.value is False) else ("prev" if adv is None else None)
                    if which is None:
                        return None
                    a0 = e.args[0]
                    tables: list[str] = []
                    if is_self_attr(a0):
                        tables = [a0.attr]
                    elif isinstance(a0, ast.BoolOp) and isinstance(a0.op, ast.Or) and is_self_attr(a0.values[-1]) and all(isinstance(v, ast.Name) for v in a0.values[:-1]):
                        # `param or self.T`: every caller passes nothing or a table that is a subset of T in every parser class (S2)
                        T = a0.values[-1].attr
                        pname = a0.values[0].id
                        if _param_tables_subset(ctx, fx, f, pname, T):
                            tables = [T]
                    elif isinstance(a0, (ast.Tuple, ast.List, ast.Set)) and all(isinstance(x, ast.Constant) and isinstance(x.value, str) for x in a0.elts):
                        lits = {x.value for x in a0.elts}
                        # literal alternatives: a guard for every table that contains all of them in every class defining this method's parser chain
                        for T, members in _tables_containing(fx, f, lits):
                            tables.append(T)
                    if tables:
                        return "|".join(f"{which}:{call_name(e)}:{T}" for T in tables)
                return None

            def member_guard(node, lab) -> tuple[str, str] | None:
                if node.kind != "cond":
                    return None
                e = node.ast
                if isinstance(e, ast.Compare) and len(e.ops) == 1 and is_self_attr(e.comparators[0]):
                    if isinstance(e.ops[0], ast.In) and lab is True:
                        return (norm(e.left), e.comparators[0].attr)
                    if isinstance(e.ops[0], ast.NotIn) and lab is False:
                        return (norm(e.left), e.comparators[0].attr)
                return None

            def moves(node) -> bool:
                if node.ast is None or node.kind not in ("stmt", "cond", "with"):
                    return False
                for c in ast.walk(node.ast):
                    if isinstance(c, ast.Call):
                        cn = call_name(c) or ""
                        if cn.startswith(MOVERS):
                            return True
                return False

            def tr(node, lab, s):
                s = set(s)
                gt = guard_table(node, lab)
                if moves(node) or gt is not None:
                    s = {x for x in s if not x.startswith(("prev:", "curr:"))}
                if gt is not None:
                    s.update(gt.split("|"))
                # a local bound from the guarded token inherits the fact as a membership fact
                if node.kind == "stmt" and isinstance(node.ast, ast.Assign) and len(node.ast.targets) == 1 and isinstance(node.ast.targets[0], ast.Name):
                    v = norm(node.ast.value)
                    tgt = node.ast.targets[0].id
                    s = {x for x in s if not x.startswith((f"mem:{tgt}:", f"tok:{tgt}:"))}
                    for fact in list(s):
                        kind, fn, T = fact.split(":", 2) if fact.count(":") >= 2 else ("", "", "")
                        if kind == "prev" and fn == "self._match_set" and v == "self._prev.token_type":
                            s.add(f"mem:{tgt}:{T}")
                        if kind == "prev" and fn == "self._match_texts" and v in ("self._prev.text.upper()", "self._prev.text.lower()"):
                            s.add(f"mem:{tgt}:{T}")
                        if kind == "curr" and fn == "self._match_set" and v == "self._curr":
                            s.add(f"tok:{tgt}:{T}")
                        if kind == "curr" and fn == "self._match_set" and v == "self._curr.token_type":
                            s.add(f"mem:{tgt}:{T}")
                mg = member_guard(node, lab)
                if mg is not None:
                    s.add(f"mem:{mg[0]}:{mg[1]}")
                return frozenset(s)

            IN = forward(g, frozenset(), tr, lambda a, b: a & b)
            for site in sites:
                n += 1
                T = site.value.attr
                key = site.slice
                ks = norm(key)
                where = f.key
                inst = f"{where}|{norm(site, 80)}|L{site.lineno - f.node.lineno}"
                nodes = g.nodes_for(site)
                state = frozenset.intersection(*[IN[x] if IN[x] is not None else frozenset() for x in nodes]) if nodes else frozenset()
                # the lookup may sit in the same node as later calls; only facts at node entry are used
                ok = False
                why = ""
                if ks == "self._prev.token_type" and f"prev:self._match_set:{T}" in state:
                    ok, why = True, f"dominated by self._match_set(self.{T})"
                elif ks in ("self._prev.text.upper()", "self._prev.text.lower()") and f"prev:self._match_texts:{T}" in state:
                    ok, why = True, f"dominated by self._match_texts(self.{T})"
                elif f"mem:{ks}:{T}" in state:
                    ok, why = True, f"key `{ks}` proven to be in self.{T} (membership test or bound from the matched token)"
                elif ks == "self._curr.token_type" and f"curr:self._match_set:{T}" in state:
                    ok, why = True, f"dominated by self._match_set(self.{T}, advance=False)"
                elif isinstance(key, ast.Attribute) and key.attr == "token_type" and isinstance(key.value, ast.Name) and f"tok:{key.value.id}:{T}" in state:
                    ok, why = True, f"`{key.value.id}` is the current token matched by self._match_set(self.{T}, advance=False)"
                elif isinstance(key, ast.Attribute) and dotted(key) and dotted(key).startswith("TokenType."):
                    tok = key.attr
                    missing = [d for d, v in fx["dialects"].items() if T in v["parser_tables"] and tok not in v["parser_tables"][T]]
                    if not missing and any(T in v["parser_tables"] for v in fx["dialects"].values()):
                        ok, why = True, f"constant key {tok} present in {T} of every parser class"
                    else:
                        why = f"constant key {tok} missing from {T} in dialects {missing[:4]}"
                if not ok and (where, norm(site, 80)) in REVIEWED_LOOKUPS:
                    ok, why = True, "reviewed: " + REVIEWED_LOOKUPS[(where, norm(site, 80))]
                if ok:
                    ctx.ok(inst, {"lookup": norm(site, 70), "in": where, "guard": why})
                else:
                    ctx.fail(m, site, where, site,
                             f"self.{T}[{ks}] is not dominated by a successful match on {T} (or a membership test on the same key){'; ' + why if why else ''}: "
                             f"a token outside the table raises KeyError instead of ParseError")
    # reviewed exception support: the caller-side guard of _parse_odbc_datetime_literal
    pm = ctx.repo.module("sqlglot.parser")
    calls = [c for c in pm.of_type(ast.Call) if call_name(c) == "self._parse_odbc_datetime_literal"]
    for c in calls:
        p = pm.parent(c)
        guarded = False
        while p is not None and not isinstance(p, ast.FunctionDef):
            if isinstance(p, ast.If) and "self._curr.text.lower() in self.ODBC_DATETIME_LITERALS" in norm(p.test, 400) and "self._curr.token_type == TokenType.VAR" in norm(p.test, 400):
                guarded = True
            p = pm.parent(p)
        f = pm.enclosing_func(c)
        if guarded:
            ctx.ok(f"{f.key}|caller guards _parse_odbc_datetime_literal")
        else:
            ctx.fail(pm, c, f.key, c, "_parse_odbc_datetime_literal is called without the `_curr is a VAR whose text is in ODBC_DATETIME_LITERALS` guard it relies on")
    ctx.count("table_lookups", n)
    ctx.min_instances("table_lookups", n, 35)


# (module:qualname, normalised lookup) -> reason
REVIEWED_LOOKUPS: dict[tuple[str, str], str] = {
    ("sqlglot.parser:Parser._parse_odbc_datetime_literal", "self.ODBC_DATETIME_LITERALS[self._prev.text.lower()]"):
        "guard is in its only caller (_parse_bracket tests `self._curr.text.lower() in self.ODBC_DATETIME_LITERALS` before calling); "
        "checked below as a separate obligation on that call site",
}


def _classes_of_func(ctx: Ctx, fx: dict, f: Func) -> list[str]:
    """dialect names whose parser MRO contains the class defining f"""
    if f.cls is None:
        return list(fx["dialects"])
    key = f"{f.module.name}:{f.cls}"
    return [d for d, v in fx["dialects"].items() if key in v["parser_mro"]]


def _tables_containing(fx: dict, f: Func, lits: set[str]):
    ds = _classes_of_func(None, fx, f)  # ctx unused
    if not ds:
        return []
    common = None
    for d in ds:
        tabs = {T for T, members in fx["dialects"][d]["parser_tables"].items() if lits <= set(members)}
        common = tabs if common is None else common & tabs
    return [(T, None) for T in sorted(common or [])]


def _param_tables_subset(ctx: Ctx, fx: dict, f: Func, pname: str, T: str) -> bool:
    """every call site of f in the parser modules passes for `pname` either nothing or self.X with X a subset of T in every parser class"""
    name = f.name
    for m in _parser_modules(ctx):
        for c in m.of_type(ast.Call):
            if (call_name(c) or "").split(".")[-1] != name:
                continue
            v = kwarg(c, pname)
            if v is None:
                params = [p for p in f.params if p != "self"]
                idx = params.index(pname) if pname in params else -1
                if 0 <= idx < len(c.args):
                    v = c.args[idx]
            if v is None:
                continue
            if not is_self_attr(v):
                return False
            X = v.attr
            for d, dv in fx["dialects"].items():
                pt = dv["parser_tables"]
                if X in pt and T in pt and not set(pt[X]) <= set(pt[T]):
                    return False
                if X not in pt:
                    return False
    return True


# ------------------------------------------------------------------------------------------ C05.d


def rule_d(ctx: Ctx) -> None:
    ctx.rule(
        "C05.d",
        "generator fall-through: Generator.sql reports a class without handler through self.unsupported (never a bare exception); "
        "every TRANSFORMS entry built with transforms.preprocess has a printer to fall back on",
    )
    repo = ctx.repo
    f = repo.func("sqlglot.generator", "Generator.sql")
    # the if/elif chain that dispatches on handler / Func / Property and its final else
    chain = None
    for st in f.node.body:
        if isinstance(st, ast.If) and norm(st.test) == "handler":
            chain = st
    ctx.require(chain is not None, "anchor vanished: Generator.sql no longer dispatches on `handler`")
    last = chain
    while last.orelse and len(last.orelse) == 1 and isinstance(last.orelse[0], ast.If):
        last = last.orelse[0]
    fam = _family(ctx)
    if not last.orelse:
        ctx.fail(f.module, chain, f.key, "dispatch chain without else", "Generator.sql has no fall-through branch: `sql` would be unbound (UnboundLocalError) for a class without handler")
    else:
        bad = None
        for st in last.orelse:
            for x in ast.walk(st):
                if isinstance(x, ast.Raise) and x.exc is not None:
                    cn = (call_name(x.exc) if isinstance(x.exc, ast.Call) else norm(x.exc)) or ""
                    if cn.split(".")[-1] not in fam:
                        bad = x
        reports = any(isinstance(x, ast.Call) and call_name(x) == "self.unsupported" for st in last.orelse for x in ast.walk(st))
        raises_family = any(isinstance(x, ast.Raise) for st in last.orelse for x in ast.walk(st)) and bad is None
        if bad is not None:
            ctx.fail(f.module, bad, f.key, bad,
                     "a node class without a handler in the target generator leaks a non-library exception; any class one dialect's parser builds "
                     "and another dialect's generator lacks triggers it (e.g. ClickHouse FINAL -> DuckDB)")
        elif reports or raises_family:
            ctx.ok(f"{f.key}|fall-through reports through the library's error family")
        else:
            ctx.fail(f.module, last.orelse[0], f.key, last.orelse[0], "fall-through branch neither reports unsupported nor raises a library error")
    # cross-dialect inventory (informational coverage numbers): classes lacking a handler per generator
    fx = facts(repo)
    ec = fx["expr_classes"]
    gaps = 0
    for gk, handled in fx["gen_handlers"].items():
        for cn, info in ec.items():
            if cn not in handled and not info["is_func"] and not info["is_property"]:
                gaps += 1
    ctx.count("class_generator_pairs_without_handler_(reported_as_unsupported)", gaps)
    # preprocess entries: TRANSFORMS value `preprocess([...])` without generator= for class X needs <key>_sql on that generator MRO, or X is a Func
    g = repo.cls("sqlglot.generator", "Generator")
    n = 0
    for c in [g] + repo.subclasses(g):
        tr = c.body_assigns().get("TRANSFORMS")
        if not isinstance(tr, ast.Dict):
            continue
        for k, v in zip(tr.keys, tr.values):
            if k is None or not isinstance(v, ast.Call) or (call_name(v) or "").split(".")[-1] != "preprocess":
                continue
            cls_name = norm(k).split(".")[-1]
            n += 1
            if kwarg(v, "generator") is not None or len(v.args) >= 2:
                ctx.ok(f"{c.key}|TRANSFORMS[{cls_name}] preprocess(..., generator=...)")
                continue
            info = ec.get(cls_name)
            meth = f"{info['key']}_sql" if info else None
            has = meth is not None and repo.lookup_method(c, meth) is not None
            if has or (info and info["is_func"]):
                ctx.ok(f"{c.key}|TRANSFORMS[{cls_name}] falls back to {meth if has else 'function_fallback_sql'}", {"generator": c.key, "class": cls_name})
            else:
                ctx.fail(c.module, v, f"{c.key}.TRANSFORMS", f"exp.{cls_name}: preprocess([...])",
                         f"preprocess() for exp.{cls_name} has no printer to fall back on ({meth} is not defined on {c.name}'s MRO): generation raises ValueError")
    ctx.count("preprocess_entries", n)
    ctx.min_instances("preprocess_entries", n, 20)


# ------------------------------------------------------------------------------------------ C05.e

HOT = ("sqlglot.parser", "sqlglot.parsers", "sqlglot.tokens", "sqlglot.tokenizer_core", "sqlglot.generator", "sqlglot.generators",
       "sqlglot.dialects", "sqlglot.transforms", "sqlglot.jsonpath", "sqlglot.time", "sqlglot.trie", "sqlglot.errors")
HOT_EXCLUDE = ("sqlglot.generators.python",)  # the executor's code generator (property C11's territory)

# (module:qualname, exception) -> reason it is outside the property's input quantifier
REVIEWED_RAISES = {
    ("sqlglot.dialects:__getattr__", "AttributeError"): "PEP 562 protocol: a module __getattr__ must raise AttributeError for unknown names",
    ("sqlglot.dialects.dialect:Dialect.get_or_raise", "ValueError"): "invalid *dialect argument* (configuration), not SQL input",
    ("sqlglot.dialects.dialect:Dialect.can_quote", "ValueError"): "invalid value of the `identify` option (configuration)",
    ("sqlglot.errors:highlight_sql", "ValueError"): "precondition on an internal helper; its only caller (Parser.raise_error) passes exactly one position",
    ("sqlglot.parser:Parser.parse_into", "TypeError"): "caller asked to parse into a type that has no registered parser (API misuse), not SQL input",
    ("sqlglot.transforms:preprocess.<locals>._to_sql", "ValueError"): "unreachable: C05.d proves every preprocess entry has a printer to fall back on",
}


def rule_e(ctx: Ctx) -> None:
    ctx.rule("C05.e", "raise family: every explicit raise in tokenizer/parser/generator/dialect/transform modules is a SqlglotError subclass, a re-raise, or a reviewed configuration error")
    fam = _family(ctx)
    n = 0
    for name, m in ctx.repo.modules.items():
        if not (name in HOT or name.startswith(tuple(h + "." for h in HOT))) or name.startswith(HOT_EXCLUDE):
            continue
        for r in m.of_type(ast.Raise):
            n += 1
            f = m.enclosing_func(r)
            where = f.key if f else f"{name}:<module>"
            if r.exc is None:
                ctx.ok(f"{where}|re-raise")
                continue
            exc = r.exc
            cn = (call_name(exc) if isinstance(exc, ast.Call) else norm(exc)) or ""
            base = cn.split(".")[-1]
            if base in fam or (isinstance(exc, ast.Call) and cn.split(".")[0] in fam):
                ctx.ok(f"{where}|{norm(r, 70)}", {"raise": base, "at": where})
                continue
            # raising a local bound from a family constructor (Parser.raise_error: error = ParseError.new(...); raise error)
            if isinstance(exc, ast.Name) and f is not None:
                defs = [st.value for st in walk_no_nested(f.node) if isinstance(st, ast.Assign) and any(isinstance(t, ast.Name) and t.id == exc.id for t in st.targets)]
                hs = [h for h in walk_no_nested(f.node) if isinstance(h, ast.ExceptHandler) and h.name == exc.id]
                if defs and all(isinstance(d, ast.Call) and (call_name(d) or "").split(".")[0] in fam for d in defs):
                    ctx.ok(f"{where}|raise {exc.id} (a {call_name(defs[0])} object)")
                    continue
                if hs and all(h.type is not None and norm(h.type).split(".")[-1] in fam for h in hs):
                    ctx.ok(f"{where}|raise {exc.id} (caught family exception)")
                    continue
            if (where, base) in REVIEWED_RAISES:
                ctx.ok(f"{where}|{norm(r, 70)}", {"raise": base, "at": where, "reviewed": REVIEWED_RAISES[(where, base)]})
                continue
            ctx.fail(m, r, where, r, f"raises {base or norm(exc)}: outside the library's error family, so tokenize/parse/generate would leak an internal exception")
    ctx.count("raise_sites", n)
    ctx.min_instances("raise_sites", n, 20)


# ------------------------------------------------------------------------------------------ C05.f


def _len_bound_from_cond(e: ast.AST, lab: bool, var: str) -> tuple[int | None, int | None]:
    """(lower bound, exact) on len(var) implied by cond e evaluating to lab."""
    def is_len(x: ast.AST) -> bool:
        return isinstance(x, ast.Call) and call_name(x) == "len" and len(x.args) == 1 and isinstance(x.args[0], ast.Name) and x.args[0].id == var

    if isinstance(e, ast.Name) and e.id == var:
        return (1, None) if lab else (None, 0)
    if isinstance(e, ast.Compare) and len(e.ops) == 1:
        l, op, r = e.left, e.ops[0], e.comparators[0]
        if is_len(l) and isinstance(r, ast.Constant) and isinstance(r.value, int):
            k = r.value
            if isinstance(op, ast.Eq):
                return (k, k) if lab else (None, None)
            if isinstance(op, ast.NotEq):
                return (None, None) if lab else (k, k)
            if isinstance(op, ast.GtE):
                return (k, None) if lab else (None, None)
            if isinstance(op, ast.Gt):
                return (k + 1, None) if lab else (None, None)
            if isinstance(op, ast.Lt):
                return (None, None) if lab else (k, None)
            if isinstance(op, ast.LtE):
                return (None, None) if lab else (k + 1, None)
        if is_len(r) and isinstance(l, ast.Constant) and isinstance(l.value, int):
            k = l.value
            if isinstance(op, ast.LtE):  # k <= len
                return (k, None) if lab else (None, None)
            if isinstance(op, ast.Lt):
                return (k + 1, None) if lab else (None, None)
    return (None, None)


def rule_f(ctx: Ctx) -> None:
    ctx.rule(
        "C05.f",
        "builder argument access: each constant index args[k] / tuple unpack of a function builder's `args` is dominated by a length guard "
        "implying it (len(args) ==/>=/>, truthiness, early return on short lists, or a boolean local bound from such a test)",
    )
    n = 0
    mods = [m for nme, m in ctx.repo.modules.items() if nme == "sqlglot.parser" or nme.startswith(("sqlglot.parsers", "sqlglot.dialects"))]
    for m in mods:
        # functions / lambdas with a parameter named args
        units: list[tuple[str, ast.AST]] = []
        for f in m.funcs.values():
            ps = [p for p in f.params]
            # function-builder signatures: (args) / (args, dialect) — `args` holds the user's SQL arguments
            if ps[:1] == ["args"] and all(p in ("args", "dialect") for p in ps):
                units.append((f.key, f.node))
        for lam in m.of_type(ast.Lambda):
            if any(a.arg == "args" for a in lam.args.args):
                f = m.enclosing_func(lam)
                c = m.enclosing_class(lam)
                units.append((f"{(f.key if f else (c.key if c else m.name))}:<lambda L{lam.lineno}>", lam))
        for where, node in units:
            sites: list[tuple[ast.AST, int, bool]] = []  # (node, required length lower bound, exact?)
            it = walk_no_nested(node) if not isinstance(node, ast.Lambda) else ast.walk(node.body)
            for x in it:
                if isinstance(x, ast.Subscript) and isinstance(x.value, ast.Name) and x.value.id == "args" and isinstance(x.ctx, ast.Load):
                    sl = x.slice
                    if isinstance(sl, ast.Constant) and isinstance(sl.value, int):
                        sites.append((x, sl.value + 1, False))
                    elif isinstance(sl, ast.UnaryOp) and isinstance(sl.op, ast.USub) and isinstance(sl.operand, ast.Constant):
                        sites.append((x, sl.operand.value, False))
                if isinstance(x, ast.Assign) and isinstance(x.value, ast.Name) and x.value.id == "args" and isinstance(x.targets[0], (ast.Tuple, ast.List)):
                    if not any(isinstance(e, ast.Starred) for e in x.targets[0].elts):
                        sites.append((x, len(x.targets[0].elts), True))
            if not sites:
                continue
            g = CFG(node)
            # boolean locals bound from length tests
            bool_locals: dict[str, ast.AST] = {}
            if not isinstance(node, ast.Lambda):
                for st in walk_no_nested(node):
                    if isinstance(st, ast.Assign) and len(st.targets) == 1 and isinstance(st.targets[0], ast.Name):
                        if any(isinstance(c, ast.Call) and call_name(c) == "len" and c.args and norm(c.args[0]) == "args" for c in ast.walk(st.value)) and isinstance(st.value, ast.Compare):
                            bool_locals[st.targets[0].id] = st.value

            def refine(e: ast.AST, lab: bool) -> tuple[int | None, int | None]:
                if isinstance(e, ast.Name) and e.id in bool_locals:
                    return _len_bound_from_cond(bool_locals[e.id], lab, "args")
                return _len_bound_from_cond(e, lab, "args")

            def tr(nd, lab, s):
                lo, ex = s
                if nd.kind == "cond" and lab in (True, False):
                    l2, e2 = refine(nd.ast, lab)
                    if l2 is not None:
                        lo = max(lo, l2)
                    if e2 is not None:
                        ex = e2
                        lo = max(lo, e2)
                # rebinding args kills knowledge
                if nd.kind == "stmt" and isinstance(nd.ast, ast.Assign) and any(isinstance(t, ast.Name) and t.id == "args" for t in nd.ast.targets):
                    return (0, None)
                # for i in range(..len(args)..) bodies index with non-constants: not our sites
                return (lo, ex)

            def meet(a, b):
                return (min(a[0], b[0]), a[1] if a[1] == b[1] else None)

            IN = forward(g, (0, None), tr, meet)
            for x, need, exact in sites:
                n += 1
                nodes = g.nodes_for(x)
                lo, ex = (0, None)
                if nodes:
                    vals = [IN[q] for q in nodes if IN[q] is not None]
                    if vals:
                        lo, ex = min(v[0] for v in vals), (vals[0][1] if all(v[1] == vals[0][1] for v in vals) else None)
                # refine by enclosing conditional expressions / and-chains inside the same statement
                cur = x
                p = m.parent(cur)
                while p is not None and not isinstance(p, ast.stmt) and p is not node:
                    if isinstance(p, ast.IfExp) and (cur is p.body or cur is p.orelse):
                        l2, e2 = refine(p.test, cur is p.body)
                        if l2 is not None:
                            lo = max(lo, l2)
                        if e2 is not None:
                            ex, lo = e2, max(lo, e2)
                    if isinstance(p, ast.BoolOp) and isinstance(p.op, ast.And) and cur in p.values:
                        for prev in p.values[: p.values.index(cur)]:
                            l2, e2 = refine(prev, True)
                            if l2 is not None:
                                lo = max(lo, l2)
                            if e2 is not None:
                                ex, lo = e2, max(lo, e2)
                    cur, p = p, m.parent(p)
                inst = f"{where}|{norm(x, 60)}|L{getattr(x, 'lineno', 0)}"
                ok = (ex == need) if exact else (lo >= need)
                if ok:
                    ctx.ok(inst, {"site": norm(x, 60), "in": where, "needs_len": (f"== {need}" if exact else f">= {need}"), "proved": f"len(args) >= {lo}" + (f" (== {ex})" if ex is not None else "")})
                elif (where, norm(x, 60)) in REVIEWED_ARGS:
                    ctx.ok(inst, {"site": norm(x, 60), "in": where, "reviewed": REVIEWED_ARGS[(where, norm(x, 60))]})
                else:
                    ctx.fail(m, x, where, x,
                             f"`{norm(x, 60)}` needs len(args) {'==' if exact else '>='} {need} but only len(args) >= {lo} is established on some path: "
                             f"a call with fewer arguments leaks {'ValueError' if exact else 'IndexError'} instead of a ParseError")
    ctx.count("args_access_sites", n)
    ctx.min_instances("args_access_sites", n, 15)


# (where, site) -> reason
REVIEWED_ARGS: dict[tuple[str, str], str] = {}


# ------------------------------------------------------------------------------------------ C05.g


def rule_g(ctx: Ctx) -> None:
    ctx.rule("C05.g", "tokenizer wrapper: _scan is called only under tokenize()'s `except Exception -> TokenError` (or nested from _add); public tokenizer entries delegate to TokenizerCore.tokenize")
    repo = ctx.repo
    tc = repo.module("sqlglot.tokenizer_core")
    n = 0
    for m in repo.modules.values():
        for c in m.of_type(ast.Call):
            if (call_name(c) or "").split(".")[-1] == "_scan":
                n += 1
                f = m.enclosing_func(c)
                where = f.key if f else m.name
                if where == "sqlglot.tokenizer_core:TokenizerCore.tokenize":
                    # inside try with `except Exception` raising TokenError
                    p = m.parent(c)
                    ok = False
                    while p is not None and p is not f.node:
                        if isinstance(p, ast.Try):
                            for h in p.handlers:
                                if h.type is not None and norm(h.type) in ("Exception", "BaseException") and any(isinstance(r, ast.Raise) and isinstance(r.exc, ast.Call) and call_name(r.exc) == "TokenError" for r in ast.walk(h)):
                                    ok = True
                        p = m.parent(p)
                    if ok:
                        ctx.ok(f"{where}|_scan inside try/except Exception -> TokenError")
                    else:
                        ctx.fail(m, c, where, c, "tokenize() no longer wraps _scan in `except Exception: raise TokenError`: scanner bugs leak IndexError etc.")
                elif where == "sqlglot.tokenizer_core:TokenizerCore._add":
                    ctx.ok(f"{where}|nested _scan (runs inside tokenize's try)")
                else:
                    ctx.fail(m, c, where, c, "_scan is called outside tokenize(): exceptions raised by the scanner are not converted to TokenError")
    ctx.count("scan_call_sites", n)
    ctx.min_instances("scan_call_sites", n, 2)
    # _add is only called from scanner methods (reachable from _scan)
    core = repo.cls("sqlglot.tokenizer_core", "TokenizerCore")
    # public entries
    t = repo.func("sqlglot.tokens", "Tokenizer.tokenize")
    if any(isinstance(c, ast.Call) and call_name(c) == "self._core.tokenize" for c in walk_no_nested(t.node)):
        ctx.ok(f"{t.key}|delegates to TokenizerCore.tokenize")
    else:
        ctx.fail(t.module, t.node, t.key, "self._core.tokenize(sql)", "Tokenizer.tokenize no longer delegates to TokenizerCore.tokenize")
    tok = repo.cls("sqlglot.tokens", "Tokenizer")
    for c in repo.subclasses(tok):
        md = c.methods().get("tokenize")
        if md is None:
            continue
        rets = [r for r in walk_no_nested(md) if isinstance(r, ast.Return)]
        calls = [x for x in walk_no_nested(md) if isinstance(x, ast.Call) and (call_name(x) or "").endswith("tokenize")]
        if calls and rets:
            ctx.ok(f"{c.key}.tokenize|override delegates to another tokenize()", {"override": c.key})
        else:
            ctx.fail(c.module, md, f"{c.key}.tokenize", md.name, "tokenize override does not delegate to Tokenizer.tokenize")
    d = repo.func("sqlglot.dialects.dialect", "Dialect.tokenize")
    if any(isinstance(c, ast.Call) and isinstance(c.func, ast.Attribute) and c.func.attr == "tokenize" for c in walk_no_nested(d.node)):
        ctx.ok(f"{d.key}|delegates to tokenizer(...).tokenize")
    else:
        ctx.fail(d.module, d.node, d.key, "tokenize", "Dialect.tokenize no longer delegates to the tokenizer")
    _ = (tc, core)


# (module:qualname, variable) -> reason mypy's possibly-undefined report is infeasible
REVIEWED_UNDEFINED = {
    ("sqlglot.parser:Parser._parse_table_parts_fast", "table"):
        "`parts` is None or a list created together with its first element, so n >= 1 and one of the n == 1 / n == 2 / n >= 3 branches always binds `table`",
}


def rule_h(ctx: Ctx) -> None:
    ctx.rule(
        "C05.h",
        "definite assignment (typed lint, mypy `possibly-undefined`): no local of the tokenizer/parser/generator/dialect/transform modules can be read "
        "before assignment — in particular after a `self.raise_error(...)` / `self.unsupported(...)` that returns under lenient error levels",
    )
    import re

    from ..typed import types

    T = types(ctx.repo)
    ctx.count("typed_expressions", T.n)
    n = 0
    seen = set()
    for msg in T.messages:
        mm = re.match(r'(.+?\.py):(\d+): error: Name "(\w+)" may be undefined', msg)
        if not mm:
            continue
        path, line, var = mm.group(1), int(mm.group(2)), mm.group(3)
        modname = path[:-3].replace("/", ".")
        if modname.endswith(".__init__"):
            modname = modname[: -len(".__init__")]
        if not (modname in HOT or modname.startswith(tuple(h + "." for h in HOT))) or modname.startswith(HOT_EXCLUDE):
            continue
        m = ctx.repo.modules.get(modname)
        if m is None:
            continue
        # enclosing function by line
        best = None
        for f in m.funcs.values():
            if f.node.lineno <= line <= (f.node.end_lineno or f.node.lineno):
                if best is None or f.node.lineno >= best.node.lineno:
                    best = f
        where = best.key if best else modname
        if (where, var) in seen:
            continue
        seen.add((where, var))
        n += 1
        if (where, var) in REVIEWED_UNDEFINED:
            ctx.ok(f"{where}|{var}", {"function": where, "variable": var, "reviewed": REVIEWED_UNDEFINED[(where, var)]})
            continue
        node = best.node if best else m.tree
        ctx.fail(m, ast.Name(id=var, lineno=line, col_offset=0), where, f"read of `{var}` that may be unassigned",
                 f"`{var}` can be read before assignment (line {line}): on the path that skips its binding — typically after a raise_error()/unsupported() "
                 f"that returns under a non-raising level — Python raises UnboundLocalError instead of a sqlglot error")
        _ = node
    # functions analysed: every function of the hot modules was type-checked by the same mypy run
    nfun = sum(len(m.funcs) for k, m in ctx.repo.modules.items() if (k in HOT or k.startswith(tuple(h + "." for h in HOT))) and not k.startswith(HOT_EXCLUDE))
    ctx.count("functions_checked", nfun)
    ctx.count("possibly_undefined_reports", n)
    ctx.ok("definite assignment over hot modules", {"functions": nfun, "reports": n})
    ctx.min_instances("functions_checked", nfun, 2000)


def _loops(ctx: Ctx) -> None:
    from . import c05_loops

    c05_loops.rule_a(ctx)
    c05_loops.rule_b(ctx)


def rule_i(ctx: Ctx) -> None:
    from . import c05_index

    c05_index.rule_i(ctx)
    c05_index.rule_j(ctx)
    c05_index.rule_k(ctx)
    c05_index.rule_l(ctx)
    c05_index.rule_m(ctx)
    c05_index.rule_n(ctx)
    c05_index.rule_o(ctx)
    c05_index.rule_p(ctx)
    c05_index.rule_q(ctx)
    c05_index.rule_r(ctx)
    c05_index.rule_s(ctx)
    c05_index.rule_t(ctx)


RULES = [rule_c, rule_d, rule_e, rule_f, rule_g, _loops, rule_h, rule_i]
EXPLANATION = (
    "Termination and exception-family discipline decided on every path of the tokenizer/parser/generator sources: progress "
    "witnesses for every while loop with interprocedural 'productive' summaries, provenance of every _retreat target, "
    "dominance of every class-table lookup by a successful match on the same table (forward must-dataflow on a hand-built "
    "CFG, killed by cursor moves), the generator's fall-through branch and preprocess fallbacks, the error family of every "
    "explicit raise, length-guard dataflow for every constant index into a function builder's args and into every list-typed local / "
    "attribute of the parser and tokenizer, token-existence dataflow before every forward _advance, bound tests on cursor-relative "
    "token subscripts, guarded text-to-number conversions, escaped regex interpolation, definite assignment (mypy), single rendering "
    "of a child per generator handler, and the tokenizer's exception wrapper. Decides these necessary conditions; None-dereferences, "
    "Literal.to_py on malformed number tokens, general work bounds and recursion depth are not decided."
)
ASSUMPTIONS = [
    "parser cursor moves happen only through self._advance/_retreat/_match*/_parse*/_try_parse/_advance_chunk",
    "reviewed tables (REVIEWED_RAISES, REVIEWED_LOOKUPS, REVIEWED_ARGS, loop axioms; c05_index: REVIEWED, REVIEWED_ADVANCE, REVIEWED_CONVERSIONS, REVIEWED_TOKEN_INDEX, REVIEWED_DOUBLE_RENDER) — one symbol + reason each",
    "mypy's inferred types select list-typed receivers (C05.i) and statically numeric conversion arguments (C05.k)",
    "exceptions raised by expression-module helpers for API misuse (ValueError in builders/to_py) are value-dependent and not decided",
]
