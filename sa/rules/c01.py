"""C01 – Same-dialect round trip is a fixpoint in every dialect.

Table- and shape-valued necessary conditions (the behavioural whole is run-time valued):
  C01.a  parser -> generator exhaustiveness (same dialect): every expression class a dialect's
         parser chain can construct has a handler in that dialect's generator (TRANSFORMS,
         <key>_sql method, or the Func/Property fallbacks) — otherwise Generator.sql cannot
         print what the parser returned.
  C01.b  operator closure: for every binary operator class in a dialect's parser tables whose
         generator handler is `self.binary(e, "OP")`, OP tokenizes (same dialect) to a token the
         parser tables map back to the same class (base dialect: tree equality) or to a class
         printed with the same OP (other dialects: text fixpoint).
  C01.c  time-format closure: for every dialect the token the generator emits for a Python
         format directive maps forward and back to itself (INVERSE_TIME_MAPPING o TIME_MAPPING
         idempotent on the generator's image); base dialect has no mapping at all.
Does not decide: precedence/parenthesisation, arbitrary _parse_*/_sql pairs, longest-match
interactions inside format_time.
"""

from __future__ import annotations

import ast

from ..core import AnalysisError, Cls, Ctx, Module, call_name, const_str, dotted, norm, walk_no_nested
from ..facts import facts

OP_TABLES = ["ASSIGNMENT", "DISJUNCTION", "CONJUNCTION", "EQUALITY", "COMPARISON", "BITWISE", "TERM", "FACTOR", "EXPONENT"]


# reviewed: (module:qualname of the constructing function, class) -> reason it never reaches Generator.sql's dispatch
NESTED_ONLY = {
    ("sqlglot.parser:Parser._parse_colon_as_variant_extract", "JSONPathWildcard"):
        "constructed only as the `this` of a JSONPathSubscript; that part is printed through Generator.json_path_part, "
        "which reports unsupported() instead of dispatching through Generator.sql",
}


def _cls_from_key(ctx: Ctx, key: str) -> Cls | None:
    mod, _, qn = key.partition(":")
    m = ctx.repo.modules.get(mod)
    return m.classes.get(qn) if m else None


def _constructed_classes(ctx: Ctx, m: Module, expr_names: set[str]) -> dict[str, ast.AST]:
    """Expression classes a module can construct: exp.X(...) calls, exp.X.from_arg_list, exp.X as a
    dict value / call argument (builder factories such as build_date_delta(exp.X))."""
    out: dict[str, ast.AST] = {}
    for n in m.of_type(ast.Attribute):
        if not (isinstance(n.value, ast.Name) and n.value.id == "exp" and n.attr in expr_names):
            continue
        p = m.parent(n)
        use = None
        if isinstance(p, ast.Call) and p.func is n:
            use = "constructor call"
        elif isinstance(p, ast.Attribute) and p.attr == "from_arg_list":
            use = "from_arg_list"
        elif isinstance(p, ast.Dict) and n in p.values:
            use = "table value"
        elif isinstance(p, ast.Call) and n in p.args:
            cn = (call_name(p) or "").split(".")[-1]
            if cn.startswith(("build_", "_build", "binary_", "_parse", "parse")) or cn in ("partial",):
                use = f"argument of {cn}"
        elif isinstance(p, ast.keyword):
            call = m.parent(p)
            cn = (call_name(call) or "").split(".")[-1] if isinstance(call, ast.Call) else ""
            if cn.startswith(("build_", "_build")) or p.arg in ("expr_type", "klass", "exp_class", "expression_class"):
                use = f"keyword of {cn}"
        if use:
            out.setdefault(n.attr, n)
    return out


def rule_a(ctx: Ctx) -> None:
    ctx.rule("C01.a", "same-dialect exhaustiveness: every expression class constructible by a dialect's parser chain has a handler in that dialect's generator")
    fx = facts(ctx.repo)
    ec = fx["expr_classes"]
    names = set(ec)
    per_module: dict[str, dict[str, ast.AST]] = {}

    def classes_of(modname: str) -> dict[str, ast.AST]:
        if modname not in per_module:
            m = ctx.repo.modules.get(modname)
            per_module[modname] = _constructed_classes(ctx, m, names) if m else {}
        return per_module[modname]

    total = 0
    n_d = 0
    for name, d in sorted(fx["dialects"].items()):
        if name == "python":
            continue  # executor's internal dialect: generator-only
        n_d += 1
        dn = name or "base"
        mods = {k.split(":")[0] for k in d["parser_mro"]} | {"sqlglot.dialects.dialect"}
        # the dialect's own module may hold builder helpers
        mods.add(d["class"].split(":")[0])
        built: dict[str, tuple[str, ast.AST]] = {}
        for mn in sorted(mods):
            for cn, node in classes_of(mn).items():
                built.setdefault(cn, (mn, node))
        handled = fx["gen_handlers"][d["generator_class"]]
        miss = []
        for cn, (mn, node) in sorted(built.items()):
            total += 1
            info = ec[cn]
            if cn in handled or info["is_func"] or info["is_property"]:
                continue
            miss.append((cn, mn, node))
        if not miss:
            ctx.ok(f"dialect {dn}|{len(built)} constructible classes all handled", {"dialect": dn, "classes": len(built), "generator": d["generator_class"]})
        for cn, mn, node in miss:
            m = ctx.repo.modules[mn]
            f = m.enclosing_func(node)
            if f is not None and (f.key, cn) in NESTED_ONLY:
                ctx.ok(f"dialect {dn}|exp.{cn} nested-only", {"dialect": dn, "class": cn, "reviewed": NESTED_ONLY[(f.key, cn)]})
                continue
            ctx.fail(m, node, f.key if f else f"{mn}:<class body>", f"dialect {dn}: exp.{cn} has no handler in {d['generator_class']}",
                     f"dialect {dn}: its parser chain can construct exp.{cn} ({m.rel}:{node.lineno}) but {d['generator_class']} has neither a TRANSFORMS entry nor a "
                     f"{ec[cn]['key']}_sql method (and it is not a Func/Property): generating the parser's own output raises instead of producing SQL")
    ctx.count("dialects", n_d)
    ctx.count("class_dialect_pairs", total)
    ctx.min_instances("class_dialect_pairs", total, 8000)


def _handler_op(ctx: Ctx, fx: dict, gen_key: str, cls_name: str, cache: dict) -> str | None:
    """If the generator handler of cls_name is exactly `self.binary(e, "OP")`, return OP."""
    ck = (gen_key, cls_name)
    if ck in cache:
        return cache[ck]
    h = fx["gen_handlers"][gen_key].get(cls_name)
    op = None
    key = fx["expr_classes"][cls_name]["key"]
    if h and h.startswith("method:"):
        owner, _, meth = h[len("method:"):].rpartition(".")
        c = _cls_from_key(ctx, owner)
        md = c.methods().get(meth) if c else None
        if md is not None:
            body = [st for st in md.body if not (isinstance(st, ast.Expr) and isinstance(st.value, ast.Constant))]
            if len(body) == 1 and isinstance(body[0], ast.Return) and isinstance(body[0].value, ast.Call) and call_name(body[0].value) == "self.binary" and len(body[0].value.args) == 2:
                op = const_str(body[0].value.args[1])
    elif h == "TRANSFORMS":
        g = _cls_from_key(ctx, gen_key)
        if g is not None:
            for k in ctx.repo.mro(g):
                tr = k.body_assigns().get("TRANSFORMS")
                if isinstance(tr, ast.Dict):
                    for kk, vv in zip(tr.keys, tr.values):
                        if kk is not None and norm(kk) == f"exp.{cls_name}":
                            if isinstance(vv, ast.Lambda) and isinstance(vv.body, ast.Call) and call_name(vv.body) == "self.binary" and len(vv.body.args) == 2:
                                op = const_str(vv.body.args[1])
                            cache[ck] = op
                            return op
    _ = key
    cache[ck] = op
    return op


def rule_b(ctx: Ctx) -> None:
    ctx.rule("C01.b", "operator closure: parser operator tables and the generator's self.binary(e, OP) handlers agree through the same dialect's tokenizer tables")
    fx = facts(ctx.repo)
    cache: dict = {}
    n = 0
    skipped = 0
    for name, d in sorted(fx["dialects"].items()):
        if name == "python":
            continue
        dn = name or "base"
        tokmap = {**{k.upper(): v for k, v in d["tok"]["KEYWORDS"].items()}, **d["tok"]["SINGLE_TOKENS"]}
        ops = d["parser_ops"]
        # token -> class over all operator tables of this dialect
        tok2cls: dict[str, str] = {}
        for tbl in OP_TABLES:
            for tk, cn in ops.get(tbl, {}).items():
                if isinstance(cn, str):
                    tok2cls.setdefault(tk, cn)
        seen_cls = set()
        for tbl in OP_TABLES:
            for tk, cn in ops.get(tbl, {}).items():
                if not isinstance(cn, str) or cn not in fx["expr_classes"] or cn in seen_cls:
                    continue
                seen_cls.add(cn)
                op = _handler_op(ctx, fx, d["generator_class"], cn, cache)
                if not op:
                    skipped += 1
                    continue
                tk2 = tokmap.get(op.upper())
                if tk2 is None:
                    skipped += 1  # not a single token in this dialect (parsed by bespoke code / multi-word)
                    continue
                y = tok2cls.get(tk2)
                if y is None:
                    skipped += 1
                    continue
                n += 1
                inst = f"dialect {dn}|{cn} -> {op!r} -> {tk2} -> {y}"
                if y == cn:
                    ctx.ok(inst, {"dialect": dn, "class": cn, "op": op, "token": tk2, "reparsed_as": y})
                    continue
                if name == "":
                    ctx.fail(None, None, d["parser_class"], f"base: {cn} printed as {op!r} re-parses as {y}",
                             f"base dialect: exp.{cn} is generated as `a {op} b`, but {op!r} tokenizes to {tk2} which the parser tables map to exp.{y}: "
                             f"the two parses of a round trip are different trees")
                    continue
                op2 = _handler_op(ctx, fx, d["generator_class"], y, cache)
                if op2 == op:
                    ctx.ok(inst, {"dialect": dn, "class": cn, "op": op, "token": tk2, "reparsed_as": y, "printed_again_as": op2})
                else:
                    ctx.fail(None, None, d["parser_class"], f"{dn}: {cn} printed as {op!r} re-parses as {y} printed as {op2!r}",
                             f"dialect {dn}: exp.{cn} is generated with {op!r}; re-parsing yields exp.{y}, which is generated with {op2!r}: the text keeps changing (no fixpoint)")
    ctx.count("operator_obligations", n)
    ctx.count("operators_not_table_driven_skipped", skipped)
    ctx.min_instances("operator_obligations", n, 400)


def rule_c(ctx: Ctx) -> None:
    ctx.rule("C01.c", "time-format closure: for v->k in INVERSE_TIME_MAPPING, INV.get(TM.get(k,k), TM.get(k,k)) == k (same for FORMAT_MAPPING); base dialect maps nothing")
    fx = facts(ctx.repo)
    n = 0
    for name, d in sorted(fx["dialects"].items()):
        dn = name or "base"
        a = d["attrs"]
        for fwd_name, inv_name in (("TIME_MAPPING", "INVERSE_TIME_MAPPING"), ("FORMAT_MAPPING", "INVERSE_FORMAT_MAPPING")):
            TM = a.get(fwd_name) or {}
            INV = a.get(inv_name) or {}
            if name == "" and fwd_name == "TIME_MAPPING":
                if TM:
                    ctx.fail(None, None, d["class"], f"base {fwd_name} = {TM}", "the base dialect must leave time formats unchanged")
                else:
                    ctx.ok("base|TIME_MAPPING empty")
            bad = []
            for v, k in INV.items():
                n += 1
                back = TM.get(k, k)
                again = INV.get(back, back)
                if again != k:
                    bad.append((v, k, back, again))
            if bad:
                for v, k, back, again in bad[:5]:
                    ctx.fail(None, None, d["class"], f"{dn}.{inv_name}[{v!r}] = {k!r}",
                             f"dialect {dn}: the generator writes Python directive {v!r} as {k!r}; re-parsing maps {k!r} to {back!r}, which is written as {again!r}: "
                             f"the format string changes on every round trip")
            else:
                ctx.ok(f"dialect {dn}|{inv_name} closed ({len(INV)} entries)", {"dialect": dn, "table": inv_name, "entries": len(INV)} if INV else None)
    ctx.count("mapping_entries", n)
    ctx.min_instances("mapping_entries", n, 700)


def rule_d(ctx: Ctx) -> None:
    ctx.rule("C01.d", "parser / generator / tokenizer settings are consulted: every class-level setting of Parser, Generator and Tokenizer that at least one dialect "
                      "overrides is read somewhere in the package (a dropped guard silently disables that dialect's syntax on one side of the round trip)")
    from .c10 import dead_settings

    dead_settings(ctx, "C01.d", [("sqlglot.parser", "Parser"), ("sqlglot.generator", "Generator"), ("sqlglot.tokens", "Tokenizer")])


def rule_e(ctx: Ctx) -> None:
    ctx.rule("C01.e", "function-name closure: a function class that a dialect's FUNCTIONS table constructs and that the same dialect prints under a name N "
                      "(rename_func(N) or its default name) is read back from N as the same class, or as a class that is printed under N again — otherwise the "
                      "printed name changes on the second round trip")
    fx = facts(ctx.repo)
    n = und = 0
    for name, d in sorted(fx["dialects"].items()):
        dn = name or "base"
        if name == "python":
            continue  # the executor's internal dialect: generates Python, not SQL
        functions: dict = d.get("functions") or {}
        render: dict = d.get("func_render") or {}
        if not functions:
            raise AnalysisError(f"C01.e: no FUNCTIONS table recorded for dialect {dn}")
        bad = 0
        special = set(d["parser_tables"].get("FUNCTION_PARSERS") or []) | set(d["parser_tables"].get("NO_PAREN_FUNCTION_PARSERS") or [])
        for cls, (kind, N) in sorted(render.items()):
            if not isinstance(N, str):
                continue
            n += 1
            if N.upper() in special:
                und += 1
                continue  # read back by a bespoke FUNCTION_PARSERS / NO_PAREN entry, which takes precedence over FUNCTIONS: not decided
            if N.upper() not in functions:
                continue  # read back as an anonymous function, printed verbatim
            Y = functions[N.upper()]
            if Y is None:
                und += 1
                continue  # bespoke builder: not decided
            if Y == cls:
                continue
            k2, N2 = render.get(Y, ["?", None])
            if not isinstance(N2, str):
                und += 1
                continue
            if N2.upper() != N.upper():
                bad += 1
                ctx.fail(None, None, d["parser_class"], f"{dn}: {cls} printed as {N} re-parses as {Y} printed as {N2}",
                         f"dialect {dn}: exp.{cls} is generated as {N}(...); the same dialect's parser reads {N} as exp.{Y}, which is generated as {N2}(...): "
                         f"the text keeps changing (no fixpoint)")
        if not bad:
            ctx.ok(f"dialect {dn}|function names closed ({len(render)} classes)", None)
    ctx.count("function_name_obligations", n)
    ctx.count("bespoke_builders_or_printers_not_decided", und)
    ctx.min_instances("function_name_obligations", n, 9000)


def _type_name_anchors(ctx: Ctx) -> int:
    """The two code sites the table model of C01.f mirrors: the generator prints a type through TYPE_MAPPING.get(t, t.value),
    the parser reads a type keyword back as exp.DType[<token>.name]."""
    hits = 0
    g = ctx.repo.cls("sqlglot.generator", "Generator")
    md = g.methods().get("datatype_sql")
    if md is not None and any(isinstance(c, ast.Call) and (call_name(c) or "") == "self.TYPE_MAPPING.get" for c in ast.walk(md)):
        hits += 1
    pm = ctx.repo.module("sqlglot.parser")
    for x in ast.walk(pm.tree):
        if isinstance(x, ast.Subscript) and norm(x.value) in ("exp.DType", "exp.DataType.Type") and isinstance(x.slice, ast.Attribute) and x.slice.attr == "name":
            hits += 1
            break
    return hits


def _own_statement_grammar(ctx: Ctx, d: dict) -> bool:
    """The first class on the parser MRO (before the base Parser) that defines _parse_statement never delegates to super()._parse_statement()."""
    for key in d["parser_mro"]:
        mod, _, qual = key.partition(":")
        if mod == "sqlglot.parser":
            return False
        try:
            c = ctx.repo.cls(mod, qual)
        except Exception:  # noqa: BLE001
            continue
        md = c.methods().get("_parse_statement")
        if md is None:
            continue
        return not any(isinstance(x, ast.Call) and norm(x.func) == "super()._parse_statement" for x in ast.walk(md))
    return False


def rule_f(ctx: Ctx) -> None:
    ctx.rule("C01.f", "type-name closure: a type T that a dialect can read (a keyword of its tokenizer whose token is one of the parser's TYPE_TOKENS) and prints as the "
                      "single word N = TYPE_MAPPING.get(T, T.value) must be read back from N as T, or as a type that is printed as N again — otherwise CAST(x AS T) "
                      "changes again on the second round trip")
    fx = facts(ctx.repo)
    anchors = _type_name_anchors(ctx)
    ctx.count("model_anchor_sites", anchors)
    ctx.min_instances("model_anchor_sites", anchors, 2)
    values: dict = fx.get("dtype_values") or {}
    n = und = 0
    skipped_languages: list[str] = []
    for name, d in sorted(fx["dialects"].items()):
        dn = name or "base"
        if name == "python":
            continue  # the executor's internal dialect: generates Python, not SQL
        if _own_statement_grammar(ctx, d):
            skipped_languages.append(name)
            continue  # the parser replaces the statement grammar (DAX, PRQL): SQL type syntax is not readable in this dialect, and what it generates is SQL
        kw: dict = d["tok"]["KEYWORDS"]
        type_tokens = set(d["parser_tables"].get("TYPE_TOKENS") or [])
        tm: dict = d.get("type_mapping") or {}
        if not type_tokens:
            raise AnalysisError(f"C01.f: no TYPE_TOKENS recorded for dialect {dn}")

        def read(word: str) -> str | None:
            tt = kw.get(word.upper())
            return tt if tt in type_tokens and tt in values else None

        constructible = sorted({tt for tt in kw.values() if tt in type_tokens and tt in values})
        bad = 0
        for T in constructible:
            N = tm.get(T, values[T])
            n += 1
            if not isinstance(N, str) or "(" in N:
                und += 1
                continue  # parameterised names are read by bespoke parser code: not decided (multi-word names are tokenizer keywords and are looked up whole)
            T2 = read(N)
            if T2 is None:
                und += 1
                continue
            if T2 == T:
                continue
            N2 = tm.get(T2, values[T2])
            if N2 != N:
                bad += 1
                ctx.fail(None, None, d["generator_class"], f"{dn}: type {T} printed as {N} re-parses as {T2} printed as {N2}",
                         f"dialect {dn}: CAST(x AS <{T}>) is generated as CAST(x AS {N}); the same dialect reads {N} as {T2}, which is generated as {N2}: "
                         f"the text changes again on the second round trip (no fixpoint)")
        if not bad:
            ctx.ok(f"dialect {dn}|type names closed ({len(constructible)} readable types)", None)
    ctx.count("type_name_obligations", n)
    ctx.count("dialects_with_their_own_statement_grammar_skipped", len(skipped_languages))
    ctx.count("multiword_or_unreadable_names_not_decided", und)
    ctx.min_instances("type_name_obligations", n, 2000)


def _strip_case(e: ast.AST) -> tuple[ast.AST, str]:
    case = ""
    while isinstance(e, ast.Call) and isinstance(e.func, ast.Attribute) and e.func.attr in ("upper", "lower") and not e.args:
        case = case or e.func.attr
        e = e.func.value
    return e, case


def rule_g(ctx: Ctx) -> None:
    ctx.rule("C01.g", "alias tables normalise in one lookup: a str->str table that is looked up with the name of a node (<node>.name.upper() / .lower()) and whose result is wrapped "
                      "back into a var / string literal (date parts, interval units) maps every value that is itself a key to itself — otherwise the printed alias is mapped again "
                      "when the output is re-parsed and the text changes on the second round trip")
    fx = facts(ctx.repo)
    WRAP = ("exp.var", "exp.Var", "exp.Literal.string", "var")
    sites = 0
    tables: list[tuple[str, str, dict, object, object]] = []  # (label, case, table, module, node)

    def module_table(m: Module, name: str) -> dict | None:
        for st in m.tree.body:
            tg = st.targets[0] if isinstance(st, ast.Assign) and len(st.targets) == 1 else st.target if isinstance(st, ast.AnnAssign) else None
            if isinstance(tg, ast.Name) and tg.id == name and isinstance(getattr(st, "value", None), ast.Dict):
                d = st.value
                if any(k is None for k in d.keys):
                    return None  # ** spread: not decided
                out = {}
                for k, v in zip(d.keys, d.values):
                    if not (isinstance(k, ast.Constant) and isinstance(v, ast.Constant) and isinstance(k.value, str) and isinstance(v.value, str)):
                        return None
                    out[k.value] = v.value
                return out
        return None

    for f in ctx.repo.all_funcs():
        m = f.module
        if not m.name.startswith(("sqlglot.dialects", "sqlglot.parsers", "sqlglot.parser", "sqlglot.generators", "sqlglot.generator")):
            continue
        for c in walk_no_nested(f.node):
            if not (isinstance(c, ast.Call) and isinstance(c.func, ast.Attribute) and c.func.attr == "get" and c.args):
                continue
            key, case = _strip_case(c.args[0])
            if not (case and isinstance(key, ast.Attribute) and key.attr == "name"):
                continue
            # the result is wrapped back into a node of the same kind: directly, or through a local
            par = m.parent(c)
            while isinstance(par, (ast.IfExp, ast.BoolOp)):
                par = m.parent(par)
            wrapped = isinstance(par, ast.Call) and (call_name(par) or "") in WRAP
            if not wrapped and isinstance(par, ast.Assign) and len(par.targets) == 1 and isinstance(par.targets[0], ast.Name):
                local = par.targets[0].id
                wrapped = any(isinstance(w, ast.Call) and (call_name(w) or "") in WRAP and any(isinstance(a, ast.Name) and a.id == local for a in w.args) for w in walk_no_nested(f.node))
            if not wrapped:
                continue
            sites += 1
            recv = c.func.value
            where = f.key
            if isinstance(recv, ast.Attribute) and recv.attr.isupper():
                for dn, d in sorted(fx["dialects"].items()):
                    t_ = (d.get("str_tables") or {}).get(recv.attr)
                    if t_:
                        tables.append((f"dialect {dn or 'base'}.{recv.attr}", case, t_, m, c))
            elif isinstance(recv, ast.Name):
                t_ = module_table(m, recv.id)
                if t_ is not None:
                    tables.append((f"{m.name}:{recv.id}", case, t_, m, c))
                    continue
                # a parameter of an enclosing builder factory: the tables handed in at its call sites
                outer = f.qualname.split(".<locals>")[0]
                found = False
                for g in ctx.repo.all_funcs():
                    for call in walk_no_nested(g.node):
                        if isinstance(call, ast.Call) and (call_name(call) or "").split(".")[-1] == outer.split(".")[-1]:
                            for k in call.keywords:
                                if k.arg == recv.id and isinstance(k.value, ast.Name):
                                    t2 = module_table(g.module, k.value.id)
                                    if t2 is not None:
                                        tables.append((f"{g.module.name}:{k.value.id}", case, t2, g.module, call))
                                        found = True
                if not found:
                    # class-body call sites (FUNCTIONS tables) are not inside functions: scan module trees
                    for mm in ctx.repo.modules.values():
                        for call in ast.walk(mm.tree):
                            if isinstance(call, ast.Call) and (call_name(call) or "").split(".")[-1] == outer.split(".")[-1]:
                                for k in call.keywords:
                                    if k.arg == recv.id and isinstance(k.value, ast.Name):
                                        t2 = module_table(mm, k.value.id)
                                        if t2 is not None:
                                            tables.append((f"{mm.name}:{k.value.id}", case, t2, mm, call))
    seen: set[tuple[str, str]] = set()
    n = 0
    for label, case, t_, m, node in tables:
        if (label, case) in seen:
            continue
        seen.add((label, case))
        n += 1
        fold = str.upper if case == "upper" else str.lower
        chains = [(k, v, t_[fold(v)]) for k, v in t_.items() if fold(v) in t_ and t_[fold(v)] != v]
        if not chains:
            ctx.ok(f"{label}|idempotent ({len(t_)} entries)", None)
            continue
        by_mid: dict[tuple[str, str], list[str]] = {}
        for k, v, w in chains:
            by_mid.setdefault((v, w), []).append(k)
        for (v, w), ks in sorted(by_mid.items()):
            ctx.fail(m if not label.startswith("dialect ") else None, node if not label.startswith("dialect ") else None, label, f"{label}: {sorted(ks)[0]} -> {v} -> {w}",
                     f"{label} maps {', '.join(sorted(ks))} to {v!r}, and {v!r} itself to {w!r}: the alias is printed as {v}, which the next parse maps to {w} — the text changes again "
                     f"on the second round trip")
    ctx.count("alias_lookup_sites", sites)
    ctx.count("alias_tables", n)
    ctx.min_instances("alias_lookup_sites", sites, 3)
    ctx.min_instances("alias_tables", n, 30)


def _version_gates(tree: ast.AST) -> list[tuple[ast.Compare, tuple, bool]]:
    """Comparisons of `<x>.version` with a tuple literal -> (node, cut point, strictly-after flag).
    `v < T` / `v >= T` cut at T; `v <= T` / `v > T` cut just after T (versions are padded to three components)."""
    out = []
    for c in ast.walk(tree):
        if isinstance(c, ast.Compare) and len(c.ops) == 1 and isinstance(c.left, ast.Attribute) and c.left.attr == "version" and isinstance(c.comparators[0], ast.Tuple):
            elts = c.comparators[0].elts
            if not all(isinstance(e, ast.Constant) and isinstance(e.value, int) for e in elts):
                continue
            t_ = tuple(e.value for e in elts) + (0,) * (3 - len(elts))
            op = c.ops[0]
            if isinstance(op, (ast.Lt, ast.GtE)):
                out.append((c, t_, False))
            elif isinstance(op, (ast.LtE, ast.Gt)):
                out.append((c, t_, True))
    return out


def rule_h(ctx: Ctx) -> None:
    ctx.rule("C01.h", "reader and writer of a versioned dialect switch at the same version: a version gate in a dialect's parser that marks the tree for the generator "
                      "(its branch sets an argument) cuts the version line at a point where the same dialect's generator has a gate too — with different cuts, the versions "
                      "between them are read one way and printed the other, and the output keeps changing")
    n = 0
    for name, m in sorted(ctx.repo.modules.items()):
        if not name.startswith("sqlglot.parsers."):
            continue
        stem = name.rsplit(".", 1)[1]
        gates = _version_gates(m.tree)
        if not gates:
            continue
        gen = ctx.repo.modules.get(f"sqlglot.generators.{stem}")
        gen_cuts = {(t_, after) for _, t_, after in _version_gates(gen.tree)} if gen is not None else set()
        for node, t_, after in gates:
            st = m.enclosing_stmt(node)
            marks = isinstance(st, ast.If) and any(isinstance(x, ast.Call) and isinstance(x.func, ast.Attribute) and x.func.attr == "set" for b in st.body + st.orelse for x in ast.walk(b))
            if not marks:
                continue
            n += 1
            cut = ("just after " if after else "") + ".".join(map(str, t_))
            if (t_, after) in gen_cuts:
                ctx.ok(f"{name}|{norm(node)}", {"parser_gate": norm(node), "cut": cut})
            else:
                others = sorted(("just after " if a else "") + ".".join(map(str, t2)) for t2, a in gen_cuts)
                ctx.fail(m, node, name, node, f"the parser marks the tree under `{norm(node)}` (cut at {cut}) but the generator of the same dialect switches at {others or 'no version'}: "
                                              f"for the versions between the cuts the parser and the generator of one configuration disagree")
    ctx.count("marking_parser_gates", n)
    ctx.min_instances("marking_parser_gates", n, 1)


RULES = [rule_a, rule_b, rule_c, rule_d, rule_e, rule_f, rule_g, rule_h]
EXPLANATION = (
    "Exhaustive table/shape checks over all dialect classes: (a) the set of expression classes each dialect's parser chain "
    "can construct (collected from the AST of the parser modules on its MRO) must be covered by that dialect's generator "
    "dispatch (mirrored read-only from the class tables); (b) parser operator tables, generator `self.binary(e, OP)` "
    "handlers and the dialect's tokenizer tables must close to a fixpoint; (c) the metaclass-merged time/format mapping "
    "tables must be idempotent on the generator's image. These are necessary conditions of the round-trip fixpoint; "
    "precedence, nesting and bespoke parse/print pairs are not decided."
)
ASSUMPTIONS = [
    "constructible classes are recognised syntactically (exp.X(...), exp.X.from_arg_list, table values, builder-factory arguments) in the modules of the parser MRO plus dialects/dialect.py and the dialect's own module",
    "operators not emitted by a plain self.binary(e, OP) handler or not tokenised as a single keyword/symbol are skipped, not guessed",
]
