"""C12 – Serialisation and copying reproduce the tree exactly.

  C12.a  wire-key agreement: the payload keys written by dump() are exactly the keys read by
         load()/_load() (module-level key constants, compared by name).
  C12.b  slot coverage: every slot of Expression is handled by dump, by load/_load and by
         __deepcopy__ (links through set/append; args/comments/_type/_meta read, restored and
         copied; _hash copied or recomputed). A new slot without all three treatments fails.
  C12.c  JSON-safety of what dump() emits verbatim: every value stored into x.meta[...] has a
         JSON-representable static type, or is an expression *and* dump() encodes
         expression-valued meta; non-expression constructor arguments are typed JSON-safe.
  C12.d  pickle delegates to the same pair: __reduce__ returns (load, (dump(self),)).
  C12.e  DType codec: dump writes .value <=> _load looks up by value.
  C12.f  no function memoised (lru_cache) on expression-typed parameters.
Does not decide: value round trips (tuple->list, empty list vs absent), equality of SQL.
"""

from __future__ import annotations

import ast

from ..core import Ctx, call_name, dotted, is_self_attr, norm, walk_no_nested
from ..facts import facts

SERDE = "sqlglot.serde"
CORE = "sqlglot.expressions.core"


def _key_constants(ctx: Ctx) -> dict[str, str]:
    m = ctx.repo.module(SERDE)
    out = {}
    for st in m.tree.body:
        if isinstance(st, ast.Assign) and len(st.targets) == 1 and isinstance(st.targets[0], ast.Name) and isinstance(st.value, ast.Constant) and isinstance(st.value.value, str):
            if st.targets[0].id.isupper():
                out[st.targets[0].id] = st.value.value
    return out


def rule_a(ctx: Ctx) -> None:
    ctx.rule("C12.a", "wire-key agreement: keys written into payload by dump() == keys read from payload by load()/_load(); key strings are pairwise distinct")
    consts = _key_constants(ctx)
    ctx.count("key_constants", len(consts))
    ctx.min_instances("key_constants", len(consts), 8)
    dump = ctx.repo.func(SERDE, "dump")
    readers = [ctx.repo.func(SERDE, "load"), ctx.repo.func(SERDE, "_load")]
    written: dict[str, ast.AST] = {}
    for n in walk_no_nested(dump.node):
        if isinstance(n, ast.Subscript) and isinstance(n.ctx, ast.Store) and isinstance(n.value, ast.Name) and n.value.id == "payload":
            k = norm(n.slice)
            written.setdefault(k, n)
        # payload.setdefault(KEY, <container>) creates the entry as well
        if isinstance(n, ast.Call) and isinstance(n.func, ast.Attribute) and n.func.attr == "setdefault" and isinstance(n.func.value, ast.Name) and n.func.value.id == "payload" and n.args:
            written.setdefault(norm(n.args[0]), n)
    read: dict[str, ast.AST] = {}
    for f in readers:
        for n in walk_no_nested(f.node):
            if isinstance(n, ast.Subscript) and isinstance(n.ctx, ast.Load) and isinstance(n.value, ast.Name) and n.value.id == "payload":
                read.setdefault(norm(n.slice), n)
            if isinstance(n, ast.Call) and isinstance(n.func, ast.Attribute) and n.func.attr == "get" and isinstance(n.func.value, ast.Name) and n.func.value.id == "payload" and n.args:
                read.setdefault(norm(n.args[0]), n)
            if isinstance(n, ast.Compare) and len(n.ops) == 1 and isinstance(n.ops[0], (ast.In, ast.NotIn)) and isinstance(n.comparators[0], ast.Name) and n.comparators[0].id == "payload":
                read.setdefault(norm(n.left), n)
    for k in sorted(set(written) | set(read)):
        if k in written and k in read:
            ctx.ok(f"{SERDE}|key {k}", {"key": k, "written_by": "dump", "read_by": "load/_load"})
        elif k in written:
            ctx.fail(dump.module, written[k], dump.key, f"payload[{k}]", f"dump() writes payload[{k}] but load()/_load() never read it: that part of the tree is lost on a round trip")
        else:
            ctx.fail(dump.module, read[k], "sqlglot.serde:load", f"payload[{k}]", f"load() reads payload[{k}] which dump() never writes")
        if not (k in consts):
            ctx.fail(dump.module, written.get(k) or read.get(k), dump.key, f"payload[{k}]", f"payload key {k} is not one of the module-level key constants")
    vals = list(consts.values())
    dup = {v for v in vals if vals.count(v) > 1}
    if dup:
        ctx.fail(dump.module, dump.node, SERDE, f"duplicate key strings {sorted(dup)}", "two wire keys share the same string")
    else:
        ctx.ok(f"{SERDE}|key strings distinct", {"keys": consts})


def rule_b(ctx: Ctx) -> None:
    ctx.rule("C12.b", "slot coverage: each Expression slot is read by dump, restored by load/_load (or by set/append for links) and copied by __deepcopy__")
    fx = facts(ctx.repo)
    slots = fx["expr_base_mro_slots"].get("Expression") or []
    ctx.count("slots", len(slots))
    ctx.min_instances("slots", len(slots), 8)
    dump = ctx.repo.func(SERDE, "dump")
    load = ctx.repo.func(SERDE, "load")
    _load = ctx.repo.func(SERDE, "_load")
    dc = ctx.repo.func(CORE, "Expression.__deepcopy__")
    setp = ctx.repo.func(CORE, "Expression._set_parent")

    def attrs_read(fn, recv_names: set[str]) -> set[str]:
        out = set()
        for n in walk_no_nested(fn.node):
            if isinstance(n, ast.Attribute) and isinstance(n.ctx, ast.Load) and isinstance(n.value, ast.Name) and n.value.id in recv_names:
                out.add(n.attr)
        return out

    def attrs_written(fn, recv_names: set[str]) -> set[str]:
        out = set()
        for n in walk_no_nested(fn.node):
            if isinstance(n, ast.Attribute) and isinstance(n.ctx, ast.Store) and isinstance(n.value, ast.Name) and n.value.id in recv_names:
                out.add(n.attr)
            if isinstance(n, ast.Subscript) and isinstance(n.ctx, ast.Store) and isinstance(n.value, ast.Attribute) and isinstance(n.value.value, ast.Name) and n.value.value.id in recv_names:
                out.add(n.value.attr)
        return out

    def calls(fn, names: set[str]) -> set[str]:
        return {c.func.attr for c in walk_no_nested(fn.node) if isinstance(c, ast.Call) and isinstance(c.func, ast.Attribute) and c.func.attr in names}

    dump_reads = attrs_read(dump, {"node"})
    # property aliases: node.type -> _type, node.comments, node._meta, node.args
    alias = {"type": "_type", "meta": "_meta"}
    dump_reads |= {alias[a] for a in dump_reads if a in alias}
    load_writes = attrs_written(_load, {"expression"}) | attrs_written(load, {"node", "root"})
    load_links = calls(load, {"set", "append"})
    dc_writes = attrs_written(dc, {"copy", "root"})
    dc_links = calls(dc, {"set", "append"})
    link_slots = attrs_written(setp, {"value", "v"})
    for s in slots:
        inst = f"Expression.{s}"
        if s in link_slots:
            ok = {"set", "append"} <= load_links and {"set", "append"} <= dc_links
            if ok:
                ctx.ok(inst, {"slot": s, "kind": "link", "restored_by": "set/append in load and __deepcopy__ (-> _set_parent)"})
            else:
                ctx.fail(load.module, load.node, load.key, f"slot {s}", f"link slot {s} is only maintained by set/append, which load()/__deepcopy__ no longer both use")
            continue
        if s == "_hash":
            if "_hash" in dc_writes:
                ctx.ok(inst, {"slot": s, "kind": "cache", "copy": "copied with identical args (C08.d)", "serde": "recomputed on demand"})
            else:
                ctx.ok(inst, {"slot": s, "kind": "cache", "copy": "recomputed", "serde": "recomputed"})
            continue
        if s == "args":
            ok = "args" in dump_reads and (load_links or "args" in load_writes) and ("args" in dc_writes or dc_links)
        else:
            ok = s in dump_reads and s in load_writes and s in dc_writes
        if ok:
            ctx.ok(inst, {"slot": s, "dump_reads": True, "load_writes": True, "deepcopy_copies": True})
        else:
            missing = [w for w, c in (("dump", s in dump_reads), ("load/_load", s in load_writes or s == "args"), ("__deepcopy__", s in dc_writes or s == "args")) if not c]
            ctx.fail(dump.module, dump.node, SERDE, f"slot {s}", f"Expression slot {s} is not handled by {', '.join(missing)}: the field is lost by dump/load, pickle or copy")


JSON_SAFE_ATOMS = {"str", "int", "float", "bool", "None", "builtins.str", "builtins.int", "builtins.float", "builtins.bool"}


def _split_top(t: str, sep: str) -> list[str]:
    out, depth, cur = [], 0, ""
    i = 0
    while i < len(t):
        ch = t[i]
        if ch in "[(":
            depth += 1
        elif ch in "])":
            depth -= 1
        if depth == 0 and t.startswith(sep, i):
            out.append(cur)
            cur = ""
            i += len(sep)
            continue
        cur += ch
        i += 1
    out.append(cur)
    return [x.strip() for x in out]


def _json_safe(t: str) -> str:
    """'safe' | 'expr' | 'unknown' | 'unsafe' for a mypy type string."""
    t = t.strip()
    parts = _split_top(t, " | ")
    if len(parts) > 1:
        vs = [_json_safe(p) for p in parts]
        if "unsafe" in vs:
            return "unsafe"
        if "expr" in vs:
            return "expr"
        return "unknown" if "unknown" in vs else "safe"
    if t in JSON_SAFE_ATOMS or t.startswith("Literal[") or t == "Never":
        return "safe"
    if t in ("Any", "object", "?"):
        return "unknown"
    for pre in ("list[", "builtins.list[", "typing.Sequence[", "typing.List[", "typing.Iterable["):
        if t.startswith(pre) and t.endswith("]"):
            return _json_safe(t[len(pre) : -1])
    for pre in ("dict[", "builtins.dict[", "typing.Dict[", "typing.Mapping["):
        if t.startswith(pre) and t.endswith("]"):
            kv = _split_top(t[len(pre) : -1], ", ")
            if len(kv) != 2 or _json_safe(kv[0]) not in ("safe", "unknown"):
                return "unsafe"
            return _json_safe(kv[1])
    if t.startswith("sqlglot.expressions.") and not t.endswith(".DType"):
        return "expr"
    if t.endswith(".DType"):
        return "safe"  # dump special-cases DType values
    if t.isidentifier() and len(t) <= 2:
        return "unknown"  # type variable (E, T, ...)
    return "unsafe"


# reviewed: (module:qualname, normalised value) -> reason
REVIEWED_VALUES: dict[tuple[str, str], str] = {}


def rule_c(ctx: Ctx) -> None:
    ctx.rule(
        "C12.c",
        "JSON-safety (typed): every value stored into x.meta[k] is JSON-representable, or an expression while dump() encodes "
        "expression-valued meta entries; dump() emits nothing else verbatim except comments and non-expression arg leaves",
    )
    from ..typed import types

    T = types(ctx.repo)
    dump = ctx.repo.func(SERDE, "dump")
    # does dump encode expression-valued meta? the value stored under META must not be the bare _meta mapping
    meta_store = None
    for n in walk_no_nested(dump.node):
        if isinstance(n, ast.Assign) and any(isinstance(tg, ast.Subscript) and norm(tg.slice) == "META" for tg in n.targets):
            meta_store = n
    ctx.require(meta_store is not None, "anchor vanished: dump() no longer stores payload[META]")
    encodes_expr = any(isinstance(c, ast.Call) and call_name(c) == "dump" for c in ast.walk(meta_store.value)) and any(
        isinstance(c, ast.Call) and call_name(c) == "isinstance" for c in ast.walk(meta_store.value)
    )
    # and _load decodes it
    _load = ctx.repo.func(SERDE, "_load")
    decodes = any(isinstance(c, ast.Call) and call_name(c) == "load" for c in walk_no_nested(_load.node) if True) and "META" in norm(_load.node, 4000)
    ctx.info.append(f"dump() encodes expression-valued meta: {encodes_expr}; _load decodes: {decodes}")
    n_sites = 0
    for m in ctx.repo.modules.values():
        for st in m.of_type(ast.Assign):
            for tg in st.targets:
                if not (isinstance(tg, ast.Subscript) and isinstance(tg.value, ast.Attribute) and tg.value.attr == "meta") and not (
                    isinstance(tg, ast.Subscript) and isinstance(tg.value, ast.Name) and tg.value.id == "meta" and m.name == CORE
                ):
                    continue
                n_sites += 1
                f = m.enclosing_func(st)
                where = f.key if f else f"{m.name}:<module>"
                ty = T.of(m, st.value) or "?"
                verdict = _json_safe(ty)
                inst = f"{where}|{norm(st, 90)}"
                if verdict == "safe":
                    ctx.ok(inst, {"store": norm(st, 80), "type": ty[:60], "json": "safe"})
                elif verdict == "unknown":
                    ctx.ok(inst, None)
                    ctx.count("any_typed_values_not_decided", 1)
                elif verdict == "expr":
                    if encodes_expr and decodes:
                        ctx.ok(inst, {"store": norm(st, 80), "type": ty[:60], "json": "expression, encoded by dump()/decoded by _load()"})
                    else:
                        ctx.fail(m, st, where, st,
                                 f"an expression ({ty[:60]}) is stored in meta, but dump() emits meta verbatim: json.dumps(tree.dump()) raises TypeError for such trees")
                else:
                    ctx.fail(m, st, where, st, f"value of static type {ty[:80]} stored in meta is not JSON-representable and dump() emits meta verbatim")
    ctx.count("meta_store_sites", n_sites)
    ctx.min_instances("meta_store_sites", n_sites, 18)


def _and_chain_type(m, T, v: ast.AST, depth: int = 2) -> str | None:
    """Static type of v, refined for the parser idiom `self._advance_any() and <str expr>` /
    `self._match(..) and ...`: an `and` chain evaluates to its last operand or to a *falsy* earlier
    operand; _advance_any() returns a truthy Token or None and _match*() return bool, so the earlier
    operands contribute only None / False (mypy keeps Token in the union because it cannot see
    Token.__bool__'s meaning)."""
    if isinstance(v, ast.BoolOp) and isinstance(v.op, ast.And):
        early_ok = all(
            isinstance(x, ast.Call) and (call_name(x) or "").startswith(("self._advance_any", "self._match"))
            for x in v.values[:-1]
        )
        if early_ok:
            last = T.of(m, v.values[-1])
            return f"{last} | None | bool" if last else None
    if isinstance(v, ast.Name) and depth > 0:
        f = m.enclosing_func(v)
        if f is not None:
            defs = [
                st.value for st in walk_no_nested(f.node)
                if isinstance(st, ast.Assign) and len(st.targets) == 1 and isinstance(st.targets[0], ast.Name) and st.targets[0].id == v.id
            ]
            if len(defs) == 1 and isinstance(defs[0], ast.BoolOp):
                return _and_chain_type(m, T, defs[0], depth - 1)
    return T.of(m, v)


def rule_c_args(ctx: Ctx) -> None:
    ctx.rule("C12.c.args", "JSON-safety (typed, thorough): non-expression keyword values passed to expression constructors / set() have JSON-representable static types")
    from ..typed import types

    T = types(ctx.repo)
    n = 0
    for m in ctx.repo.modules.values():
        for c in m.of_type(ast.Call):
            ft = T.of(m, c.func)
            is_ctor = bool(ft) and ft.startswith("def (**args: object)") and "-> sqlglot.expressions" in ft
            is_set = isinstance(c.func, ast.Attribute) and c.func.attr == "set" and len(c.args) >= 2 and (T.of(m, c.func.value) or "").startswith("sqlglot.expressions")
            vals = []
            if is_ctor:
                vals = [kw.value for kw in c.keywords if kw.arg]
            elif is_set:
                vals = [c.args[1]]
            for v in vals:
                ty = _and_chain_type(m, T, v)
                if ty is None:
                    continue
                n += 1
                verdict = _json_safe(ty)
                f = m.enclosing_func(c)
                where = f.key if f else f"{m.name}:<module/class body>"
                if verdict == "unsafe" and (where, norm(v)) not in REVIEWED_VALUES:
                    ctx.fail(m, v, where, f"{norm(c.func, 40)}(... {norm(v, 60)})", f"argument of static type {ty[:80]} is neither an expression nor JSON-representable; dump() would emit it verbatim")
                else:
                    ctx.ok(f"{where}|{norm(v, 60)}|{c.lineno}", None)
    ctx.count("typed_argument_values", n)
    ctx.min_instances("typed_argument_values", n, 3000)


def rule_d(ctx: Ctx) -> None:
    ctx.rule("C12.d", "pickle delegates to serde: Expression.__reduce__ returns (load, (dump(self),))")
    f = ctx.repo.func(CORE, "Expression.__reduce__")
    rets = [r for r in walk_no_nested(f.node) if isinstance(r, ast.Return)]
    ok = len(rets) == 1 and norm(rets[0].value) == "(load, (dump(self),))"
    imp = any(isinstance(n, ast.ImportFrom) and n.module == "sqlglot.serde" and {a.name for a in n.names} >= {"dump", "load"} for n in walk_no_nested(f.node))
    if ok and imp:
        ctx.ok(f"{f.key}|(load, (dump(self),))")
    else:
        ctx.fail(f.module, f.node, f.key, "__reduce__", "pickling no longer delegates to serde.load(serde.dump(self))")
    # Expr.dump / Expr.load wrappers delegate too
    for name, callee in (("dump", "dump"), ("load", "load")):
        g = ctx.repo.func(CORE, f"Expression.{name}") if f"Expression.{name}" in ctx.repo.module(CORE).funcs else ctx.repo.func(CORE, f"Expr.{name}")
        if any(isinstance(c, ast.Call) and (call_name(c) or "").split(".")[-1] == callee for c in walk_no_nested(g.node)):
            ctx.ok(f"{g.key}|delegates to serde.{callee}")
        else:
            ctx.fail(g.module, g.node, g.key, name, f"Expr.{name} no longer delegates to serde.{callee}")


def rule_e(ctx: Ctx) -> None:
    ctx.rule("C12.e", "enum codec agreement: what dump() writes for a DType member (.value or .name) is what _load() uses to look the member up (DType(v) by value, DType[v] by name)")
    m = ctx.repo.module(SERDE)
    dump = ctx.repo.func(SERDE, "dump")
    ld = ctx.repo.func(SERDE, "_load")
    written = [
        st.value.attr for st in walk_no_nested(dump.node)
        if isinstance(st, ast.Assign) and len(st.targets) == 1 and norm(st.targets[0]) == "payload[VALUE]" and isinstance(st.value, ast.Attribute) and st.value.attr in ("value", "name")
    ]
    ctx.require(len(written) == 1, "anchor vanished: dump() no longer stores payload[VALUE] = node.value|name for DType members")
    read = []
    for r in walk_no_nested(ld.node):
        if isinstance(r, ast.Return) and r.value is not None and "payload[VALUE]" in norm(r.value):
            v = r.value
            if isinstance(v, ast.Call) and len(v.args) == 1 and norm(v.args[0]) == "payload[VALUE]":
                read.append(("value", norm(v.func), r))
            elif isinstance(v, ast.Subscript) and norm(v.slice) == "payload[VALUE]":
                read.append(("name", norm(v.value), r))
            else:
                read.append(("?", norm(v), r))
    ctx.require(len(read) == 1, "anchor vanished: _load() no longer returns the DType member looked up from payload[VALUE]")
    how, cls_, node = read[0]
    if how == written[0] and cls_.split(".")[-1] == "DType":
        ctx.ok(f"{SERDE}|DType codec|by {how}", {"dump_writes": f"node.{written[0]}", "load_reads": norm(node.value)})
    else:
        ctx.fail(m, node, ld.key, node.value,
                 f"dump() writes a DType member's .{written[0]} but _load() looks it up by {how} ({norm(node.value)}): members whose name and value differ "
                 f"(DType.USERDEFINED = 'USER-DEFINED') no longer load")


def _memoised_on_trees(tree: ast.AST, expr_names: set[str]) -> list[tuple[ast.AST, str]]:
    """functions carrying a caching decorator whose parameters are annotated with an expression class"""
    out = []
    for fn in ast.walk(tree):
        if not isinstance(fn, (ast.FunctionDef, ast.AsyncFunctionDef)):
            continue
        deco = [d for d in fn.decorator_list if any(k in norm(d) for k in ("lru_cache", "functools.cache", "cached_property")) or norm(d) in ("cache", "functools.cache")]
        if not deco or "cached_property" in norm(deco[0]):
            continue
        for a in fn.args.posonlyargs + fn.args.args + fn.args.kwonlyargs:
            if a.annotation is None:
                continue
            toks = {x.attr if isinstance(x, ast.Attribute) else x.id if isinstance(x, ast.Name) else "" for x in ast.walk(a.annotation)}
            if isinstance(a.annotation, ast.Constant) and isinstance(a.annotation.value, str):
                toks |= set(a.annotation.value.replace("|", " ").replace("[", " ").replace("]", " ").replace(".", " ").split())
            hit = toks & expr_names
            if hit:
                out.append((fn, f"{norm(deco[0])} on parameter {a.arg}: {sorted(hit)[0]}"))
                break
    return out


def rule_f(ctx: Ctx) -> None:
    ctx.rule("C12.f", "no memoisation keyed on tree equality on the serialisation path: no lru_cache/cache-decorated function in sqlglot.serde (or a module it calls into) takes an expression-typed parameter "
                      "(Expression.__eq__/__hash__ ignore comments, meta, types and identifier case, so such a memo hands out a look-alike's result)")
    names = set(facts(ctx.repo)["expr_classes"]) | {"Expr", "Expression", "ExpOrStr", "E"}
    # positive control: the matcher must recognise the construct it forbids
    probe = ast.parse("from functools import lru_cache\n@lru_cache(maxsize=8)\ndef f(dtype: exp.DataType) -> list: ...\n")
    ctx.require(len(_memoised_on_trees(probe, names)) == 1, "internal: C12.f matcher no longer recognises its positive control")
    n = 0
    # scope: the serialisation module itself plus every function its dump/load/_load call by name (one level, resolved through imports)
    scope_mods = {SERDE}
    sm = ctx.repo.module(SERDE)
    for fn_ in sm.funcs.values():
        for c in walk_no_nested(fn_.node):
            if isinstance(c, ast.Call) and call_name(c):
                r = ctx.repo.resolve_name(sm, call_name(c))
                if r and r[1]:
                    scope_mods.add(r[0].name)
    for mname in sorted(scope_mods):
        m = ctx.repo.module(mname)
        n += sum(1 for fn in m.of_type(ast.FunctionDef))
        for fn, why in _memoised_on_trees(m.tree, names):
            f = m.func_for(fn) if hasattr(m, "func_for") else None
            where = f"{m.name}:{fn.name}"
            ctx.fail(m, fn, where, f"@{why}", f"{fn.name} is memoised on an expression argument ({why}): equal-but-different trees (case, comments, meta, type annotations) share one cached result")
    ctx.ok("serde|no function memoised on expression-typed parameters", {"functions_scanned": n, "modules": sorted(scope_mods)})
    ctx.count("functions_scanned", n)
    ctx.min_instances("functions_scanned", n, 3)


def rule_g(ctx: Ctx) -> None:
    ctx.rule("C12.g", "the type annotation is encoded whole: what dump() stores under TYPE is dump(<the node's type>) itself, never a projection of it "
                      "(node.type.this, a conditional compact form): scalar arguments of a parameterless type (nullable, kind) live on the DataType node")
    d = ctx.repo.func(SERDE, "dump")
    m = d.module
    stores = [st for st in walk_no_nested(d.node) if isinstance(st, ast.Assign) and len(st.targets) == 1 and norm(st.targets[0]) == "payload[TYPE]"]
    ctx.require(bool(stores), "anchor vanished: dump() no longer stores payload[TYPE]")
    aliases = {"node.type"}
    for st in walk_no_nested(d.node):
        if isinstance(st, ast.Assign) and len(st.targets) == 1 and isinstance(st.targets[0], ast.Name) and norm(st.value) == "node.type":
            aliases.add(st.targets[0].id)
    for st in stores:
        v = st.value
        inst = f"{d.key}|{norm(st, 80)}"
        if isinstance(v, ast.Call) and (call_name(v) or "").split(".")[-1] in ("dump", "_dump_type") and len(v.args) == 1:
            a = v.args[0]
            if norm(a) in aliases:
                ctx.ok(inst, {"encodes": norm(a)})
            elif any(isinstance(x, ast.Attribute) and norm(x.value) in aliases and x.attr not in ("copy",) for x in ast.walk(a)):
                ctx.fail(m, st, d.key, st, f"the TYPE payload encodes `{norm(a, 60)}`, a projection of the node's type: arguments kept on the DataType node itself "
                                           f"(nullable, kind, comments) are lost by load(dump(x))")
            else:
                ctx.ok(inst, {"decided": False, "note": "argument form not recognised"})
        else:
            ctx.ok(inst, {"decided": False, "note": "encoder form not recognised"})


def rule_h(ctx: Ctx) -> None:
    ctx.rule("C12.h", "no argument vanishes in dump(): in the loop over node.args the list branch records the argument's key also when the list is empty "
                      "(its items are the only carriers of the key otherwise), and the scalar branch skips nothing but None")
    d = ctx.repo.func(SERDE, "dump")
    m = d.module
    loops = [lp for lp in walk_no_nested(d.node) if isinstance(lp, ast.For) and "args.items()" in norm(lp.iter)]
    ctx.require(len(loops) == 1, "anchor vanished: dump() no longer iterates node.args.items() exactly once")
    lp = loops[0]
    tgt = [x.id for x in ast.walk(lp.target) if isinstance(x, ast.Name)]
    ctx.require(len(tgt) == 2, "anchor vanished: dump()'s args loop no longer unpacks (key, value)")
    k, vs = tgt
    branches = [st for st in lp.body if isinstance(st, ast.If)]
    ctx.require(bool(branches), "anchor vanished: dump()'s args loop has no list / scalar branches")
    top = branches[0]
    is_list_test = "list" in norm(top.test) and vs in norm(top.test)
    ctx.require(is_list_test, "anchor vanished: the first branch of dump()'s args loop no longer tests for a list value")
    # a statement of the list branch that mentions the key and is not inside the per-item loop
    def mentions_key_outside_item_loop(stmts: list[ast.stmt]) -> bool:
        for st in stmts:
            if isinstance(st, ast.For) and vs in norm(st.iter):
                continue
            if isinstance(st, ast.If):
                if mentions_key_outside_item_loop(st.body) or mentions_key_outside_item_loop(st.orelse):
                    return True
                continue
            if any(isinstance(x, ast.Name) and x.id == k for x in ast.walk(st)):
                return True
        return False

    if mentions_key_outside_item_loop(top.body):
        ctx.ok(f"{d.key}|empty list arguments keep their key", {"branch": norm(top.test)})
    else:
        ctx.fail(m, top, d.key, f"if {norm(top.test)}: ...", "an empty list argument leaves no trace in the payload (only the items of a list carry its key): load(dump(x)) drops the argument, "
                                                              "e.g. the empty argument list of IDENTIFIER('f')() — the reloaded tree prints different SQL")
    # the scalar branch: only `is not None` may be skipped
    rest = top.orelse
    if len(rest) == 1 and isinstance(rest[0], ast.If) and norm(rest[0].test) in (f"{vs} is not None",) and not rest[0].orelse:
        ctx.ok(f"{d.key}|scalar arguments skipped only when None", {"test": norm(rest[0].test)})
    elif not rest:
        ctx.fail(m, top, d.key, "missing else branch", "scalar arguments are no longer encoded")
    else:
        ctx.ok(f"{d.key}|scalar branch form not recognised", {"decided": False})


def rule_i(ctx: Ctx) -> None:
    ctx.rule("C12.i", "class-name codec agreement: dump() writes a class outside sqlglot.expressions as '<module>.<qualname>' and one inside it bare; _load() resolves every dotted "
                      "name through the module it records (unconditionally, in the branch that recognises the dot) and only bare names in sqlglot.expressions — a dotted name looked "
                      "up anywhere else loads a different class of the same name")
    m = ctx.repo.module(SERDE)
    dump = ctx.repo.func(SERDE, "dump")
    ld = ctx.repo.func(SERDE, "_load")
    # writer: klass = f"{node.__module__}.{klass}" under a test on the class's module
    qualified = [st for st in walk_no_nested(dump.node) if isinstance(st, ast.Assign) and isinstance(st.value, ast.JoinedStr) and "__module__" in norm(st.value)]
    ctx.require(len(qualified) == 1, "anchor vanished: dump() no longer qualifies foreign classes as f'{node.__module__}.{klass}'")
    # reader: the branch on the dot
    branches = [st for st in walk_no_nested(ld.node) if isinstance(st, ast.If) and isinstance(st.test, ast.Compare) and isinstance(st.test.left, ast.Constant) and st.test.left.value == "."
                and len(st.test.ops) == 1 and isinstance(st.test.ops[0], ast.In)]
    ctx.require(len(branches) == 1, "anchor vanished: _load() no longer branches on '.' in the class name")
    br = branches[0]

    def is_import_of_recorded(v: ast.AST) -> bool:
        return isinstance(v, ast.Call) and (call_name(v) or "") in ("__import__", "importlib.import_module", "import_module") and bool(v.args) and isinstance(v.args[0], ast.Name)

    # the variable the class is finally looked up in: getattr(<var>, class_name)
    lookups = [x for x in walk_no_nested(ld.node) if isinstance(x, ast.Call) and norm(x.func) == "getattr" and len(x.args) >= 2 and isinstance(x.args[0], ast.Name)]
    ctx.require(bool(lookups), "anchor vanished: _load() no longer looks the class up with getattr(<module>, <name>)")
    var = lookups[0].args[0].id
    direct = [st for st in br.body if isinstance(st, (ast.Assign, ast.AnnAssign)) and norm(st.targets[0] if isinstance(st, ast.Assign) else st.target) == var and st.value is not None]
    nested = [st for b in br.body for st in ast.walk(b) if st not in br.body and isinstance(st, (ast.Assign, ast.AnnAssign))
              and norm(st.targets[0] if isinstance(st, ast.Assign) else st.target) == var]
    if len(direct) == 1 and is_import_of_recorded(direct[0].value) and not nested:
        ctx.ok(f"{ld.key}|dotted names resolve through the recorded module", {"stmt": norm(direct[0])})
    else:
        bad = (nested or direct or [br])[0]
        ctx.fail(m, bad, ld.key, bad, f"in the branch for dotted class names `{var}` is not bound, unconditionally and only, to the import of the recorded module "
                                       f"(`{norm(bad, 80)}`): a class that dump() recorded as '<module>.<name>' may be looked up in another namespace and load as a different class of the same name")
    # bare names: every other binding of the variable is sqlglot.expressions
    others = [st for st in walk_no_nested(ld.node) if isinstance(st, (ast.Assign, ast.AnnAssign)) and st.value is not None
              and norm(st.targets[0] if isinstance(st, ast.Assign) else st.target) == var and st not in direct and st not in nested]
    for st in others:
        if norm(st.value) in ("exp", "sqlglot.expressions"):
            ctx.ok(f"{ld.key}|bare names resolve in sqlglot.expressions", {"stmt": norm(st)})
        else:
            ctx.fail(m, st, ld.key, st, f"`{norm(st)}`: bare class names are written by dump() only for classes of sqlglot.expressions, but are looked up elsewhere")


_SLOT_ALIASES = {"type": "type", "_type": "type", "comments": "comments", "_comments": "comments", "meta": "meta", "_meta": "meta", "args": "args"}


def _guarded_slot_stores(fn: ast.AST) -> list[tuple[ast.Assign, list[ast.AST], set[str]]]:
    """(store, guards, attributes of `node` the stored value reads) for every `payload[...] = <something read from node.<slot>>` in dump()."""
    parent: dict[int, ast.AST] = {}
    for x in ast.walk(fn):
        for c in ast.iter_child_nodes(x):
            parent[id(c)] = x
    out = []
    local = {st.targets[0].id: st.value.attr for st in ast.walk(fn) if isinstance(st, ast.Assign) and len(st.targets) == 1 and isinstance(st.targets[0], ast.Name)
             and isinstance(st.value, ast.Attribute) and isinstance(st.value.value, ast.Name) and st.value.value.id == "node"}
    for st in ast.walk(fn):
        if not (isinstance(st, ast.Assign) and len(st.targets) == 1 and isinstance(st.targets[0], ast.Subscript) and norm(st.targets[0].value) == "payload"):
            continue
        read = {_SLOT_ALIASES.get(a.attr, a.attr) for a in ast.walk(st.value) if isinstance(a, ast.Attribute) and isinstance(a.value, ast.Name) and a.value.id == "node"}
        read |= {_SLOT_ALIASES.get(local[a.id], local[a.id]) for a in ast.walk(st.value) if isinstance(a, ast.Name) and a.id in local}
        read -= {"__class__", "__module__", "value"}
        if not read:
            continue
        guards, cur = [], st
        while id(cur) in parent:
            up = parent[id(cur)]
            if isinstance(up, ast.If) and cur in up.body:
                guards.append(up.test)
            cur = up
        out.append((st, guards, read))
    return out


def rule_j(ctx: Ctx) -> None:
    ctx.rule("C12.j", "a slot is written for every kind of node: whether dump() stores a per-node slot (type annotation, comments, meta) depends only on that slot's own value "
                      "(`if node.type and node.type is not node`, `is not None`) and on the node being an expression — never on another attribute or the class of the node "
                      "(`node.is_cast`, isinstance): the slot would silently be lost for that class of nodes on every dump / load, JSON and pickle round trip")
    probe = ast.parse("def dump(e):\n while s:\n  if hasattr(node, 'parent'):\n   if node.type and not node.is_cast:\n    payload[T] = dump(node.type)\n   if node.comments:\n    payload[C] = node.comments\n")
    pc = [(st, g, r) for st, g, r in _guarded_slot_stores(probe)]
    ctx.require(len(pc) == 2, "internal: C12.j matcher no longer recognises its positive control")
    d = ctx.repo.func(SERDE, "dump")
    stores = _guarded_slot_stores(d.node)
    ctx.count("slot_stores", len(stores))
    ctx.min_instances("slot_stores", len(stores), 3)
    for st, guards, read in stores:
        inst = f"{d.key}|{norm(st.targets[0])}"
        bad = None
        for g in guards:
            if isinstance(g, ast.Call) and call_name(g) == "hasattr":
                continue  # expression / leaf discrimination of the walk
            for x in ast.walk(g):
                if isinstance(x, ast.Attribute) and isinstance(x.value, ast.Name) and x.value.id == "node" and _SLOT_ALIASES.get(x.attr, x.attr) not in read:
                    bad = bad or f"node.{x.attr}"
                if isinstance(x, ast.Call) and call_name(x) in ("isinstance", "type", "issubclass") and any(isinstance(n, ast.Name) and n.id == "node" for n in ast.walk(x)):
                    bad = bad or norm(x, 50)
        if bad:
            ctx.fail(d.module, st, d.key, st.targets[0], f"`{norm(st, 60)}` is skipped depending on `{bad}`, which is not the value being stored: nodes for which the test fails lose their "
                                                         f"{'/'.join(sorted(read))} on dump(), so load(dump(tree)) (and pickle, which goes through dump) is not equal in that slot to tree")
        else:
            ctx.ok(inst, {"slot": sorted(read), "guards": [norm(g, 60) for g in guards]})


RULES = [rule_a, rule_b, rule_c, rule_d, rule_e, rule_f, rule_g, rule_h, rule_i, rule_j]
THOROUGH_RULES = [rule_c_args]
EXPLANATION = (
    "Writer/reader agreement of the serialisation format decided from the source: set equality between payload keys "
    "written by dump and read by load/_load; per-slot coverage of Expression.__slots__ (from import introspection) by "
    "dump, load and __deepcopy__; a typed lint (mypy) over every meta store — and, in the thorough tier, every "
    "non-expression constructor/set argument — requiring JSON-representable static types or expression values that dump "
    "encodes; and delegation of pickle to the same pair. Decides field coverage and JSON-safety, not value round trips."
)
ASSUMPTIONS = [
    "payload is accessed only through the local name `payload` and module-level key constants in sqlglot/serde.py",
    "Any/object-typed values are not decided (counted as any_typed_values_not_decided)",
    "mypy's inferred types from the repo's own environment",
]
