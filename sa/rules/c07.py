"""C07 – Formatting and generator options never change the meaning of the SQL.

Decided clauses (structure only):
  C07.a  line-break sentinel: inserted at exactly one place and removed at exactly one place,
         both guarded by `self.pretty`; every return of generate() (and of overrides, which must
         delegate) is after the removal; no other code mentions the sentinel; the substitution is
         injective on user text (pre-existing sentinel text is neutralised).
  C07.b  comments=False emits no comment text: every read of <node>.comments in generator code
         flows only into maybe_comment(comments=...), add_comments/pop_comments, or a truth
         test; maybe_comment nulls its comment list when self.comments is false and returns the
         SQL unchanged in that case.
  C07.c  a comment cannot swallow following text: generator code emits block comments only
         (no `--` output), interpolating user comment text only through sanitize_comment, which
         rewrites both `*/` and `/*`.
  C07.d  text-bearing leaves: the text wrapped in quote delimiters has passed _replace_line_breaks.
Does not decide: that pretty/pad/indent/leading_comma/max_text_width influence whitespace only.
"""

from __future__ import annotations

import ast

from ..core import Ctx, Module, call_name, dotted, is_self_attr, norm, walk_no_nested

GEN = "sqlglot.generator"


def _gen_modules(ctx: Ctx) -> list[Module]:
    return [m for n, m in ctx.repo.modules.items() if n == GEN or n.startswith("sqlglot.generators") or n == "sqlglot.dialects.dialect" or n == "sqlglot.transforms"]


def rule_a(ctx: Ctx) -> None:
    ctx.rule("C07.a", "SENTINEL_LINE_BREAK: one guarded insertion, one guarded removal post-dominating every return of generate(); overrides delegate; no other mention; insertion is injective")
    repo = ctx.repo
    g = repo.cls(GEN, "Generator")
    val = g.body_assigns().get("SENTINEL_LINE_BREAK")
    ctx.require(isinstance(val, ast.Constant) and isinstance(val.value, str), "anchor vanished: Generator.SENTINEL_LINE_BREAK")
    sentinel = val.value
    mentions = []
    for m in repo.modules.values():
        for n in m.of_type(ast.Attribute):
            if n.attr == "SENTINEL_LINE_BREAK":
                mentions.append((m, n))
        for n in m.of_type(ast.Constant):
            if isinstance(n.value, str) and sentinel in n.value and n is not val:
                mentions.append((m, n))
    ins, rem, other = [], [], []
    for m, n in mentions:
        call = m.parent(n)
        f = m.enclosing_func(n)
        if isinstance(call, ast.Call) and isinstance(call.func, ast.Attribute) and call.func.attr == "replace" and len(call.args) == 2:
            if call.args[1] is n and norm(call.args[0]) == "'\\n'":
                ins.append((m, f, call))
                continue
            if call.args[0] is n and norm(call.args[1]) == "'\\n'":
                rem.append((m, f, call))
                continue
        other.append((m, f, n))
    ctx.count("sentinel_mentions", len(mentions))

    def guarded_by_pretty(m: Module, node: ast.AST) -> bool:
        p = m.parent(node)
        cur = node
        while p is not None and not isinstance(p, (ast.FunctionDef, ast.AsyncFunctionDef)):
            if isinstance(p, ast.If) and norm(p.test) == "self.pretty" and any(cur is s or cur in ast.walk(s) for s in p.body):
                return True
            cur, p = p, m.parent(p)
        return False

    if len(ins) == 1 and ins[0][1] is not None and ins[0][1].key == f"{GEN}:Generator._replace_line_breaks" and guarded_by_pretty(ins[0][0], ins[0][2]):
        ctx.ok("sentinel inserted once, in _replace_line_breaks, under `if self.pretty`")
    else:
        for m, f, c in ins or [(g.module, None, g.node)]:
            ctx.fail(m, c, f.key if f else GEN, c if isinstance(c, ast.Call) else "sentinel insertion", "the sentinel must be inserted at exactly one place (_replace_line_breaks) guarded by `if self.pretty`")
    if len(rem) == 1 and rem[0][1] is not None and rem[0][1].key == f"{GEN}:Generator.generate" and guarded_by_pretty(rem[0][0], rem[0][2]):
        ctx.ok("sentinel removed once, in generate(), under `if self.pretty`")
    else:
        for m, f, c in rem or [(g.module, None, g.node)]:
            ctx.fail(m, c, f.key if f else GEN, c if isinstance(c, ast.Call) else "sentinel removal", "the sentinel must be removed at exactly one place (generate) guarded by the same `if self.pretty`: otherwise pretty output leaks the sentinel or plain output is altered")
    for m, f, n in other:
        ctx.fail(m, n, f.key if f else m.name, m.enclosing_stmt(n) or n, "unexpected mention of the line-break sentinel outside its insertion/removal pair")
    # every return of generate() comes after the removal statement
    gen = repo.func(GEN, "Generator.generate")
    if rem:
        rm_stmt = gen.module.enclosing_stmt(rem[0][2])
        # climb to top-level statement
        top = rm_stmt
        while gen.module.parent(top) is not gen.node:
            top = gen.module.parent(top)
        idx = gen.node.body.index(top)
        early = [r for st in gen.node.body[:idx] for r in ast.walk(st) if isinstance(r, ast.Return)]
        if early:
            ctx.fail(gen.module, early[0], gen.key, early[0], "generate() can return before the sentinel is removed")
        else:
            ctx.ok("every return of generate() follows the sentinel removal")
        # the removal applies to the variable that is returned
        rets = [r for st in gen.node.body[idx:] for r in ast.walk(st) if isinstance(r, ast.Return)]
        tgt = norm(gen.module.enclosing_stmt(rem[0][2]).targets[0]) if isinstance(gen.module.enclosing_stmt(rem[0][2]), ast.Assign) else None
        if tgt and rets and all(norm(r.value) == tgt for r in rets):
            ctx.ok(f"generate() returns the cleaned variable `{tgt}` on every path")
        else:
            ctx.fail(gen.module, gen.node, gen.key, "return of generate()", "generate() returns something other than the string from which the sentinel was removed")
    # overrides of generate delegate
    n_over = 0
    for c in repo.subclasses(g):
        md = c.methods().get("generate")
        if md is None:
            continue
        n_over += 1
        rets = [r for r in walk_no_nested(md) if isinstance(r, ast.Return)]
        ok = bool(rets) and all(isinstance(r.value, ast.Call) and (call_name(r.value) or "").endswith(".generate") for r in rets)
        if ok:
            ctx.ok(f"{c.key}.generate delegates to another generate()", {"override": c.key})
        else:
            ctx.fail(c.module, md, f"{c.key}.generate", md.name, "an override of generate() must delegate every return to Generator.generate (which removes the sentinel and applies unsupported-level handling)")
    ctx.count("generate_overrides", n_over)
    # injectivity: pre-existing sentinel text in user strings must be neutralised by the insertion function
    rl = repo.func(GEN, "Generator._replace_line_breaks")
    neutralises = any(
        isinstance(c, ast.Call) and isinstance(c.func, ast.Attribute) and c.func.attr in ("replace", "sub") and c.args and "SENTINEL_LINE_BREAK" in norm(c.args[0])
        for c in walk_no_nested(rl.node)
    )
    if neutralises:
        ctx.ok(f"{rl.key}|pre-existing sentinel text is neutralised")
    else:
        ctx.fail(rl.module, rl.node, rl.key, "string.replace('\\n', self.SENTINEL_LINE_BREAK) without neutralising existing sentinel text",
                 "the sentinel substitution is not injective: user text that already contains the sentinel is turned into a line break by generate() under pretty=True")


def rule_b(ctx: Ctx) -> None:
    ctx.rule("C07.b", "comments=False: node comment text reaches output only through maybe_comment, which drops it when self.comments is false")
    repo = ctx.repo
    n = 0
    for m in _gen_modules(ctx):
        for a in m.of_type(ast.Attribute):
            if a.attr != "comments" or not isinstance(a.ctx, ast.Load) or is_self_attr(a):
                continue
            f = m.enclosing_func(a)
            where = f.key if f else m.name
            n += 1
            p = m.parent(a)
            st = m.enclosing_stmt(a) or a
            ok = False
            why = ""
            if isinstance(p, ast.keyword) and p.arg == "comments":
                call = m.parent(p)
                if isinstance(call, ast.Call) and (call_name(call) or "").endswith("maybe_comment"):
                    ok, why = True, "maybe_comment(comments=...)"
                elif isinstance(call, ast.Call) and (call_name(call) or "").split(".")[-1][:1].isupper():
                    ok, why = True, "carried into a new node (tree-to-tree)"
                elif isinstance(call, ast.Call) and (call_name(call) or "").endswith("self.expression"):
                    ok, why = True, "carried into a new node (tree-to-tree)"
            elif isinstance(p, ast.Call) and a in p.args and (call_name(p) or "").split(".")[-1] in ("add_comments",):
                ok, why = True, "add_comments (tree-to-tree)"
            else:
                # truth test: climb through and/or/not/comparisons; the value must end up in a test position
                cur, q = a, p
                while isinstance(q, (ast.BoolOp, ast.UnaryOp, ast.Compare)):
                    cur, q = q, m.parent(q)
                if isinstance(q, (ast.If, ast.IfExp, ast.While)) and q.test is cur:
                    ok, why = True, "truth test"
                elif isinstance(q, ast.comprehension) and cur in q.ifs:
                    ok, why = True, "truth test"
            if f is not None and f.key == f"{GEN}:Generator.maybe_comment":
                ok, why = True, "inside maybe_comment"
            if ok:
                ctx.ok(f"{where}|{norm(st, 90)}", {"read": norm(a), "flows_to": why})
            else:
                ctx.fail(m, a, where, st, f"comment text read from {norm(a)} flows somewhere other than maybe_comment/add_comments: it can reach the output even with comments=False")
    ctx.count("comment_reads", n)
    ctx.min_instances("comment_reads", n, 4)
    # maybe_comment: comments := (...) if self.comments else None ; `if not comments ...: return sql`
    mc = repo.func(GEN, "Generator.maybe_comment")
    first = mc.node.body[0]
    sel_ok = isinstance(first, ast.Assign) and norm(first.targets[0]) == "comments" and isinstance(first.value, ast.IfExp) and norm(first.value.test) == "self.comments" and isinstance(first.value.orelse, ast.Constant) and first.value.orelse.value is None
    nxt = mc.node.body[1] if len(mc.node.body) > 1 else None
    ret_ok = isinstance(nxt, ast.If) and "not comments" in norm(nxt.test) and len(nxt.body) == 1 and isinstance(nxt.body[0], ast.Return) and norm(nxt.body[0].value) == "sql"
    if sel_ok and ret_ok:
        ctx.ok(f"{mc.key}|comments nulled when self.comments is false; returns sql unchanged")
    else:
        ctx.fail(mc.module, mc.node, mc.key, "comments = (...) if self.comments else None; if not comments: return sql",
                 "maybe_comment no longer drops comment text when the generator was created with comments=False")


def rule_c(ctx: Ctx) -> None:
    ctx.rule("C07.c", "comments cannot swallow text: only block comments are emitted, user comment text passes through sanitize_comment (which rewrites both */ and /*)")
    repo = ctx.repo
    n_open = 0
    for m in _gen_modules(ctx):
        for js in m.of_type(ast.JoinedStr):
            parts = js.values
            texts = [v.value for v in parts if isinstance(v, ast.Constant) and isinstance(v.value, str)]
            f = m.enclosing_func(js)
            where = f.key if f else m.name
            if any(t.lstrip().startswith("--") for t in texts[:1]) or any(" --" in t or t.startswith("--") for t in texts):
                # SQL `--` as output
                ctx.fail(m, js, where, js, "generator emits a line comment (`--`): everything after it on the line, including following SQL, is swallowed")
            if any("/*" in t for t in texts):
                n_open += 1
                fvs = [v for v in parts if isinstance(v, ast.FormattedValue)]
                hint = any("/*+" in t for t in texts)
                ok = True
                for v in fvs:
                    src = norm(v.value)
                    if hint:
                        if not src.startswith(("self.expressions(", "self.sql(")):
                            ok = False
                    else:
                        if "self.sanitize_comment(" not in src:
                            ok = False
                if ok:
                    ctx.ok(f"{where}|{norm(js, 80)}", {"emitter": norm(js, 70), "kind": "hint (generated SQL only)" if hint else "comment via sanitize_comment"})
                else:
                    ctx.fail(m, js, where, js, "a block comment is opened around text that does not pass through sanitize_comment (a `*/` inside it would close the comment early)")
        for c in m.of_type(ast.Constant):
            if isinstance(c.value, str) and (c.value.startswith("-- ") or c.value == "--") and not isinstance(m.parent(c), ast.JoinedStr):
                p = m.parent(c)
                if isinstance(p, ast.Expr):
                    continue  # docstring
                f = m.enclosing_func(c)
                ctx.fail(m, c, f.key if f else m.name, m.enclosing_stmt(c) or c, "generator code contains a line-comment marker as output text")
    ctx.count("block_comment_emitters", n_open)
    ctx.min_instances("block_comment_emitters", n_open, 3)
    sc = repo.func(GEN, "Generator.sanitize_comment")
    reps = [(norm(c.args[0]), norm(c.args[1])) for c in walk_no_nested(sc.node) if isinstance(c, ast.Call) and isinstance(c.func, ast.Attribute) and c.func.attr == "replace" and len(c.args) == 2]
    for needle in ("'*/'", "'/*'"):
        hit = [r for r in reps if r[0] == needle]
        if hit and needle.strip("'") not in hit[0][1].strip("'"):
            ctx.ok(f"{sc.key}|rewrites {needle}", {"replace": hit[0]})
        else:
            ctx.fail(sc.module, sc.node, sc.key, f"replace({needle}, ...)", f"sanitize_comment no longer breaks up {needle}: comment text can close or nest the block comment")
    # positive fixture: the `--` detector must fire on a tiny example
    import ast as _a
    t = _a.parse("def f(self, c):\n    return f'-- {c}'\n")
    js = [x for x in _a.walk(t) if isinstance(x, _a.JoinedStr)][0]
    texts = [v.value for v in js.values if isinstance(v, _a.Constant)]
    if not any(tt.startswith("--") for tt in texts):
        from ..core import AnalysisError
        raise AnalysisError("C07.c positive fixture for line-comment detection did not match")
    ctx.count("fixture_hits", 1)


TEXT_LEAF_EMITTERS = ("literal_sql", "identifier_sql", "rawstring_sql", "unicodestring_sql", "bytestring_sql", "national_sql")
NEUTRALISERS = ("self._replace_line_breaks", "self.escape_str")


def _is_delim(e: ast.AST) -> bool:
    t_ = norm(e).lower()
    return isinstance(e, (ast.Name, ast.Attribute)) and any(k in t_ for k in ("quote", "_start", "_end", "identifier_start", "identifier_end")) and "(" not in t_


def rule_d(ctx: Ctx) -> None:
    ctx.rule(
        "C07.d",
        "multi-line user text in pretty mode: in every emitter of a text-bearing leaf (literal/identifier/raw/unicode/byte/national string) the text placed "
        "between quote delimiters has passed through _replace_line_breaks (directly or via escape_str) on every path, so indentation never pads the "
        "continuation lines of a literal",
    )
    from ..cfg import CFG, forward

    repo = ctx.repo
    g0 = repo.cls(GEN, "Generator")
    n = 0
    for c in [g0] + repo.subclasses(g0):
        for name, md in c.methods().items():
            if name not in TEXT_LEAF_EMITTERS:
                continue
            where = f"{c.key}.{name}"
            m = c.module
            sites = []
            for js in walk_no_nested(md):
                if not isinstance(js, ast.JoinedStr):
                    continue
                fv = [v.value for v in js.values if isinstance(v, ast.FormattedValue)]
                if len(fv) >= 3 and _is_delim(fv[0]) and any(_is_delim(x) for x in fv[2:]):
                    last = max(i for i, x in enumerate(fv) if _is_delim(x))
                    for mid in fv[1:last]:
                        if not _is_delim(mid):
                            sites.append((js, mid))
            if not sites:
                ctx.ok(f"{where}|no delimiter-wrapping f-string (delegates)")
                continue
            g = CFG(md)

            def neutral(e: ast.AST, facts: frozenset) -> bool:
                if isinstance(e, ast.Call):
                    if call_name(e) in NEUTRALISERS:
                        return True
                    # v.replace(..) / v.strip() ... of an already neutral value keeps it neutral
                    if isinstance(e.func, ast.Attribute) and e.func.attr in ("replace", "strip", "lower", "upper", "sub"):
                        return neutral(e.func.value, facts) or any(neutral(a, facts) for a in e.args[-1:]) if e.func.attr == "sub" else neutral(e.func.value, facts)
                    return False
                if isinstance(e, ast.Name):
                    return e.id in facts
                if isinstance(e, ast.JoinedStr):
                    return all(neutral(v.value, facts) or _is_delim(v.value) for v in e.values if isinstance(v, ast.FormattedValue))
                if isinstance(e, ast.IfExp):
                    return neutral(e.body, facts) and neutral(e.orelse, facts)
                if isinstance(e, ast.Constant):
                    return True
                return False

            def tr(nd, lab, s):
                a = nd.ast
                if nd.kind in ("stmt", "with") and isinstance(a, ast.Assign) and len(a.targets) == 1 and isinstance(a.targets[0], ast.Name):
                    v = a.targets[0].id
                    return (s | {v}) if neutral(a.value, s) else (s - {v})
                return s

            IN = forward(g, frozenset(), tr, lambda p, q: p & q)
            for js, mid in sites:
                n += 1
                nodes = g.nodes_for(js)
                facts = frozenset.intersection(*[IN[q] for q in nodes if IN.get(q) is not None]) if nodes else frozenset()
                inst = f"{where}|{norm(js, 70)}|{norm(mid, 40)}"
                if neutral(mid, facts):
                    ctx.ok(inst, {"emitter": where, "text": norm(mid, 40), "neutralised": True})
                else:
                    ctx.fail(m, js, where, js,
                             f"`{norm(mid, 40)}` is wrapped in quote delimiters without having passed through _replace_line_breaks / escape_str on every path: "
                             f"with pretty=True a line break inside the literal is indented like SQL text, changing the literal's value")
    ctx.count("delimited_text_sites", n)
    ctx.min_instances("delimited_text_sites", n, 4)


def rule_e(ctx: Ctx) -> None:
    ctx.rule("C07.e", "line-break agreement of the pretty printer: every character sequence Generator.indent treats as a line boundary is one that "
                      "_replace_line_breaks hides behind the sentinel (otherwise that character inside a literal is re-indented and rewritten)")
    import re._parser as sre  # regex AST of the standard library (no matching is performed)

    g = ctx.repo.cls(GEN, "Generator")
    meths = g.methods()
    ind, rep = meths.get("indent"), meths.get("_replace_line_breaks")
    ctx.require(ind is not None and rep is not None, "anchor vanished: Generator.indent / Generator._replace_line_breaks")
    hidden = {c.args[0].value for c in walk_no_nested(rep) if isinstance(c, ast.Call) and isinstance(c.func, ast.Attribute) and c.func.attr == "replace"
              and c.args and isinstance(c.args[0], ast.Constant) and isinstance(c.args[0].value, str)}
    ctx.require(bool(hidden), "anchor vanished: _replace_line_breaks no longer replaces a constant line break")
    m = g.module
    consts = {t_.id: st.value for st in m.tree.body if isinstance(st, ast.Assign) for t_ in st.targets if isinstance(t_, ast.Name)}

    def literal_alternatives(pattern: str) -> set[str] | None:
        try:
            tree = sre.parse(pattern)
        except Exception:  # noqa: BLE001
            return None
        def seqs(items) -> set[str] | None:
            out = {""}
            for op, av in items:
                name = str(op)
                if name == "LITERAL":
                    out = {x + chr(av) for x in out}
                elif name == "BRANCH":
                    alts: set[str] = set()
                    for alt in av[1]:
                        r = seqs(alt)
                        if r is None:
                            return None
                        alts |= r
                    out = {x + y for x in out for y in alts}
                elif name == "IN":
                    chars = set()
                    for o2, a2 in av:
                        if str(o2) != "LITERAL":
                            return None
                        chars.add(chr(a2))
                    out = {x + y for x in out for y in chars}
                elif name == "MAX_REPEAT" and av[0] == 0 and av[1] == 1:
                    r = seqs(av[2])
                    if r is None:
                        return None
                    out = out | {x + y for x in out for y in r}
                else:
                    return None
            return out
        return seqs(tree)

    splits: list[tuple[ast.AST, set[str] | None]] = []
    for c in walk_no_nested(ind):
        if not (isinstance(c, ast.Call) and isinstance(c.func, ast.Attribute)):
            continue
        if c.func.attr == "split" and (call_name(c) or "") == "re.split" and c.args and isinstance(c.args[0], ast.Constant):
            splits.append((c, literal_alternatives(c.args[0].value)))
        elif c.func.attr == "split" and c.args and isinstance(c.args[0], ast.Constant) and isinstance(c.args[0].value, str):
            splits.append((c, {c.args[0].value}))
        elif c.func.attr == "split" and len(c.args) == 1 and isinstance(c.args[0], ast.Name) and isinstance(c.func.value, ast.Name) and c.func.value.id not in consts:
            # separator held in a local: resolve a single constant binding, otherwise not decided
            binds = [st.value for st in walk_no_nested(ind) if isinstance(st, ast.Assign) and len(st.targets) == 1 and norm(st.targets[0]) == c.args[0].id]
            if len(binds) == 1 and isinstance(binds[0], ast.Constant) and isinstance(binds[0].value, str):
                splits.append((c, {binds[0].value}))
            else:
                splits.append((c, None))
        elif c.func.attr == "splitlines":
            splits.append((c, {"\n", "\r", "\r\n", "\x0b", "\x0c", "\x1c", "\x1d", "\x1e", "\x85", "\u2028", "\u2029"}))
        elif c.func.attr == "split" and isinstance(c.func.value, ast.Name) and c.func.value.id in consts:
            v = consts[c.func.value.id]
            pat = v.args[0].value if isinstance(v, ast.Call) and (call_name(v) or "").endswith("compile") and v.args and isinstance(v.args[0], ast.Constant) else None
            splits.append((c, literal_alternatives(pat) if isinstance(pat, str) else None))
    ctx.require(bool(splits), "anchor vanished: Generator.indent no longer splits its input into lines")
    for c, seps in splits:
        inst = f"{g.key}.indent|{norm(c, 60)}"
        if seps is None:
            ctx.ok(inst, {"split": norm(c, 60), "decided": False, "note": "separator form not recognised; agreement not decided"})
            ctx.notes.append("C07.e: line separator of Generator.indent not recognised; agreement not decided")
            continue
        extra = sorted(x for x in seps if x and x not in hidden)
        if extra:
            ctx.fail(m, c, f"{g.key}.indent", c,
                     f"indent() treats {extra!r} as line boundaries but _replace_line_breaks only hides {sorted(hidden)!r}: such a character inside quoted text is "
                     f"re-indented (and rewritten to a newline) under pretty=True, changing the literal")
        else:
            ctx.ok(inst, {"split_on": sorted(seps), "hidden": sorted(hidden)})


def rule_f(ctx: Ctx) -> None:
    ctx.rule("C07.f", "no implicit str() of a node in generator code: an f-string of a generator method never interpolates a value whose static type is an expression class "
                      "(str(node) renders it with a *fresh default* generator: the caller's options — comments, identify, pretty, dialect — do not reach it); "
                      "nodes are rendered through self.sql(...)")
    from ..typed import types
    from ..facts import facts

    T = types(ctx.repo)
    names = set(facts(ctx.repo)["expr_classes"]) | {"Expr", "Expression"}

    def is_node(ty: str | None) -> bool:
        if not ty:
            return False
        parts = [p_.strip() for p_ in ty.replace("builtins.", "").split(" | ") if p_.strip() != "None"]
        # fully qualified only: `Any` and typing's `Literal['x']` share their names with the expression classes Any and Literal
        return bool(parts) and all(p_.startswith("sqlglot.expressions.") and p_.split(".")[-1].split("[")[0] in names for p_ in parts)

    ctx.require(is_node("sqlglot.expressions.core.Literal | None") and not is_node("str") and not is_node("Any") and not is_node("Literal['NOT ']?"),
                "internal: C07.f type classifier broken")
    n = n_fv = 0
    for m in _gen_modules(ctx):
        if m.name == "sqlglot.generators.python" or not (m.name == GEN or m.name.startswith("sqlglot.generators")):
            continue
        for js in m.of_type(ast.JoinedStr):
            n += 1
            # messages (unsupported / logging / exceptions) are not SQL
            p_ = m.parent(js)
            msg = False
            while p_ is not None and not isinstance(p_, ast.stmt):
                if isinstance(p_, ast.Call) and ((call_name(p_) or "").split(".")[-1] in ("unsupported", "warning", "error", "debug", "info") or (call_name(p_) or "").endswith("Error")):
                    msg = True
                p_ = m.parent(p_)
            if msg or isinstance(m.enclosing_stmt(js), ast.Raise):
                continue
            for v in js.values:
                if not isinstance(v, ast.FormattedValue):
                    continue
                n_fv += 1
                ty = T.of(m, v.value)
                if ty is None and hasattr(v.value, "lineno"):
                    # mypy reports positions inside f-strings one column to the left of ast's
                    d_ = T.mods.get(m.name, {})
                    e_ = v.value
                    for dc, de in ((-1, 0), (-1, -1), (1, 1), (1, 0)):
                        ty = d_.get(f"{e_.lineno}:{e_.col_offset + dc}:{e_.end_lineno}:{e_.end_col_offset + de}")
                        if ty:
                            break
                if is_node(ty):
                    f = m.enclosing_func(js)
                    where = f.key if f else m.name
                    ctx.fail(m, js, where, f"{norm(js, 60)} interpolates {norm(v.value, 30)}: {ty[:50]}",
                             f"`{norm(v.value, 30)}` is an expression node ({ty.split('.')[-1][:30]}) formatted with str(): it is rendered by a new default Generator, so comments=False, "
                             f"identify, normalize_functions and the target dialect are ignored for this sub-tree — use self.sql(...)")
    ctx.ok("generators|no f-string interpolates a node", {"f_strings": n, "interpolations_typed": n_fv})
    ctx.count("generator_f_strings", n)
    ctx.min_instances("generator_f_strings", n, 1000)


# (function, normalised comparison) -> why the rendered operand cannot carry option-dependent text
REVIEWED_RENDERED_TESTS: dict[tuple[str, str], str] = {
    ("sqlglot.generators.singlestore:SingleStoreGenerator.datatype_sql", "type_name in self.dialect.INVERSE_VECTOR_TYPE_ALIASES"):
        "only chooses between two spellings of the same element type (TINYINT / I8 ...): probed, SingleStore reads VECTOR(3, TINYINT /* c */) and VECTOR(3, I8) as equal trees",
    ("sqlglot.generators.tsql:TSQLGenerator.queryoption_sql", "option in OPTIONS_THAT_REQUIRE_EQUAL"):
        "only decides whether the optional `=` is printed: probed, the T-SQL parser reads OPTION(LABEL /* c */ 'x') and OPTION(LABEL = 'x') as equal trees",
}

PLAIN_STRING_ARGS = {
    # argument keys that the parser fills with plain strings / keywords (never a node): self.sql(e, key) returns the string itself
    "kind": "Create.kind / Select.kind / SetItem.kind / RecursiveWithSearch.kind are keyword strings set by the parser",
    "position": "Trim.position is a keyword string (LEADING / TRAILING / BOTH)",
}


def _renders(e: ast.AST, clean_format_time: bool) -> str | None:
    """How `e` renders a node with the generator's current options, or None."""
    if not (isinstance(e, ast.Call) and isinstance(e.func, ast.Attribute) and isinstance(e.func.value, ast.Name) and e.func.value.id == "self"):
        return None
    name = e.func.attr
    if name == "sql":
        if any(k.arg == "comment" and isinstance(k.value, ast.Constant) and k.value.value is False for k in e.keywords):
            return None
        if len(e.args) >= 2 and isinstance(e.args[1], ast.Constant) and e.args[1].value in PLAIN_STRING_ARGS:
            return None
        return "self.sql(...)"
    if name == "format_time":
        return None if clean_format_time else "self.format_time(...)"
    if name in ("func", "expressions", "binary", "function_fallback_sql") or name.endswith("_sql"):
        return f"self.{name}(...)"
    return None


def rule_g(ctx: Ctx) -> None:
    ctx.rule("C07.g", "no decision on rendered text: in generator code a value rendered from a node with the current options (self.sql(node) without comment=False, self.func, "
                      "self.expressions, *_sql handlers, and format_time unless every format_time renders its format with comment=False) is never compared (==, !=, in, not in) "
                      "with a constant or a class setting — the rendered text carries the node's comments (and quoting / case / line breaks chosen by the options), so the branch "
                      "taken, and with it the structure of the output, would depend on comments=, identify=, pretty=")
    repo = ctx.repo
    # are all format_time methods clean?
    ft_defs = [f for f in repo.all_funcs() if f.name == "format_time" and f.module.name.startswith(("sqlglot.generator", "sqlglot.generators."))]
    ctx.require(bool(ft_defs), "anchor vanished: no Generator.format_time")
    clean_ft = True
    for f in ft_defs:
        for c in walk_no_nested(f.node):
            if isinstance(c, ast.Call) and norm(c.func) == "self.sql":
                if not any(k.arg == "comment" and isinstance(k.value, ast.Constant) and k.value.value is False for k in c.keywords):
                    clean_ft = False
                    ctx.fail(f.module, c, f.key, c, f"`{norm(c, 70)}` renders the time format with its comments: the text is translated and then compared with the dialect's default "
                                                     f"formats by the callers of format_time, so a comment on the format changes which function is generated")
                else:
                    ctx.ok(f"{f.key}|{norm(c, 60)}", None)
    probe = ast.parse("def f(self, e):\n    base = self.sql(e)\n    if base in ('2', '10'):\n        return 1\n").body[0]
    n = 0

    def scan(fn: ast.AST, where: str, m: Module | None, record: bool) -> int:
        hits = 0
        tainted: dict[str, str] = {}
        for st in ast.walk(fn):
            if isinstance(st, ast.Assign) and len(st.targets) == 1 and isinstance(st.targets[0], ast.Name):
                how = _renders(st.value, clean_ft)
                if how:
                    tainted.setdefault(st.targets[0].id, how)
        for c in ast.walk(fn):
            if not (isinstance(c, ast.Compare) and any(isinstance(op, (ast.Eq, ast.NotEq, ast.In, ast.NotIn)) for op in c.ops)):
                continue
            operands = [c.left] + list(c.comparators)
            rendered = None
            for o in operands:
                how = _renders(o, clean_ft) or (tainted.get(o.id) if isinstance(o, ast.Name) else None)
                if how:
                    rendered = (o, how)
            if rendered is None:
                continue
            others = [o for o in operands if o is not rendered[0]]

            def fixed(o: ast.AST) -> bool:
                if isinstance(o, ast.Constant):
                    return o.value != ""  # comparison with "" is a truthiness test
                if isinstance(o, (ast.Tuple, ast.Set, ast.List)):
                    return all(fixed(x) or isinstance(x, ast.Attribute) for x in o.elts) and bool(o.elts)
                if isinstance(o, ast.Attribute):
                    return o.attr.isupper()
                if isinstance(o, ast.Name):
                    return o.id.isupper()
                return False

            if not any(fixed(o) for o in others):
                continue
            hits += 1
            if record:
                txt = norm(c, 90)
                if (where, txt) in REVIEWED_RENDERED_TESTS:
                    ctx.ok(f"{where}|{txt}", {"reviewed": REVIEWED_RENDERED_TESTS[(where, txt)]})
                else:
                    ctx.fail(m, c, where, c, f"`{txt}` branches on text rendered by {rendered[1]}: a comment attached to that node (or identify= / pretty=) changes the text and with it the "
                                             f"branch taken, so the output's structure depends on a generator option; compare the node's own value (.name, .this) instead")
        return hits

    def scan_quoted(fn: ast.AST, where: str, m: Module | None) -> int:
        """rendered SQL handed to escape_str: it ends up inside a string literal, whose content then depends on identify= / pretty= / comments="""
        hits = 0
        for c in ast.walk(fn):
            if isinstance(c, ast.Call) and norm(c.func) == "self.escape_str" and c.args:
                inner = next((x for x in ast.walk(c.args[0]) if _renders(x, True)), None)
                if inner is not None:
                    hits += 1
                    if m is not None:
                        ctx.fail(m, c, where, c, f"`{norm(c, 90)}` puts SQL rendered with the current options ({norm(inner, 40)}) inside a string literal: the literal's content — a value of "
                                                 f"the tree that is parsed back — changes with identify= / pretty= / comments=")
        return hits

    def scan_fquoted(fn: ast.AST, where: str, m: Module | None) -> int:
        """rendered SQL interpolated between hand-written single quotes of an f-string"""
        from .c04 import _quoted_interpolations

        hits = 0
        bindings: dict[str, list[tuple[int, str | None]]] = {}
        for st in ast.walk(fn):
            if isinstance(st, ast.Assign) and len(st.targets) == 1 and isinstance(st.targets[0], ast.Name):
                how = _renders(st.value, True) or ("self.format_args(...)" if isinstance(st.value, ast.Call) and norm(st.value.func) == "self.format_args" else None)
                bindings.setdefault(st.targets[0].id, []).append((st.lineno, how))
        MSG_CALLS = ("unsupported", "warning", "error", "debug", "info", "raise_error")
        parents: dict[int, ast.AST] = {}
        for x in ast.walk(fn):
            for ch in ast.iter_child_nodes(x):
                parents[id(ch)] = x

        def nearest(name: str, line: int) -> str | None:
            prev = [b for b in bindings.get(name, []) if b[0] <= line]
            return max(prev)[1] if prev else None

        for js in ast.walk(fn):
            if not isinstance(js, ast.JoinedStr):
                continue
            par = parents.get(id(js))
            if isinstance(par, ast.Call) and (call_name(par) or "").split(".")[-1] in MSG_CALLS:
                continue  # a message, not SQL
            if isinstance(par, ast.Raise) or (isinstance(par, ast.Call) and isinstance(parents.get(id(par)), ast.Raise)):
                continue
            for v in _quoted_interpolations(js):
                how = _renders(v, True) or ("self.format_args(...)" if isinstance(v, ast.Call) and norm(v.func) == "self.format_args" else None) \
                    or (nearest(v.id, js.lineno) if isinstance(v, ast.Name) else None)
                if how:
                    hits += 1
                    if m is not None:
                        ctx.fail(m, js, where, js, f"`{norm(js, 80)}` interpolates SQL rendered with the current options ({how}) between hand-written quotes: the string literal's "
                                                   f"content changes with identify= / pretty= / comments=")
        return hits

    ctx.require(scan(probe, "probe", None, False) == 1, "positive control failed: comparison of rendered text not recognised")
    probe2 = ast.parse("def f(self, e):\n    return self.escape_str(e.name or self.sql(e))\n").body[0]
    ctx.require(scan_quoted(probe2, "probe", None) == 1, "positive control failed: rendered SQL inside escape_str not recognised")
    for f in repo.all_funcs():
        m = f.module
        if not (m.name.startswith(("sqlglot.generator", "sqlglot.generators.")) or (m.name == "sqlglot.dialects.dialect" and f.params[:1] == ["self"])):
            continue
        n += 1
        before = len(ctx.findings) if hasattr(ctx, "findings") else 0
        scan(f.node, f.key, m, True)
        scan_quoted(f.node, f.key, m)
        if m.name != "sqlglot.generators.python" and ".<locals>." not in f.qualname:
            scan_fquoted(f.node, f.key, m)
    ctx.count("generator_functions_scanned", n)
    ctx.min_instances("generator_functions_scanned", n, 800)


def _suffix_surgery(fn: ast.AST) -> list[tuple[ast.AST, ast.Call]]:
    """(surgery node, render call) for `self.sql(node).rstrip(..)`, `self.sql(node)[:-k]`, `.removesuffix(..)` — directly or through a local bound once from the render."""
    def render_of(e: ast.AST, local: dict[str, ast.Call]) -> ast.Call | None:
        if isinstance(e, ast.Call) and norm(e.func) == "self.sql":
            return e
        if isinstance(e, ast.Name):
            return local.get(e.id)
        return None

    local: dict[str, ast.Call] = {}
    for st in ast.walk(fn):
        if isinstance(st, ast.Assign) and len(st.targets) == 1 and isinstance(st.targets[0], ast.Name) and isinstance(st.value, ast.Call) and norm(st.value.func) == "self.sql":
            local.setdefault(st.targets[0].id, st.value)
    out = []
    for x in ast.walk(fn):
        if isinstance(x, ast.Call) and isinstance(x.func, ast.Attribute) and x.func.attr in ("rstrip", "removesuffix"):
            r = render_of(x.func.value, local)
            if r is not None:
                out.append((x, r))
        elif isinstance(x, ast.Subscript) and isinstance(x.slice, ast.Slice) and x.slice.lower is None and isinstance(x.slice.upper, ast.UnaryOp) and isinstance(x.slice.upper.op, ast.USub):
            r = render_of(x.value, local)
            if r is not None:
                out.append((x, r))
    return out


def rule_h(ctx: Ctx) -> None:
    ctx.rule("C07.h", "the end of rendered SQL is cut only when it was rendered without comments: comments are appended after a node's SQL, so `self.sql(node).rstrip(')')`, "
                      "`self.sql(node)[:-1]` or `.removesuffix(..)` (opening a rendered call again to add arguments) operate on `... ) /* c */` when the node carries a comment — "
                      "the render must pass comment=False")
    ctx.require(len(_suffix_surgery(ast.parse("def f(self, e):\n    t = self.sql(e, 'this').rstrip(')')\n").body[0])) == 1, "positive control failed: suffix surgery not recognised")
    n = 0
    for f in ctx.repo.all_funcs():
        m = f.module
        if not (m.name.startswith(("sqlglot.generator", "sqlglot.generators.")) or m.name == "sqlglot.dialects.dialect"):
            continue
        if ".<locals>." in f.qualname:
            continue
        for node, render in _suffix_surgery(f.node):
            n += 1
            clean = any(k.arg == "comment" and isinstance(k.value, ast.Constant) and k.value.value is False for k in render.keywords)
            # self.sql(e, "key") of a plain-string argument returns the string itself
            plain = len(render.args) >= 2 and isinstance(render.args[1], ast.Constant) and render.args[1].value in PLAIN_STRING_ARGS
            if clean or plain:
                ctx.ok(f"{f.key}|{norm(node, 70)}", {"render": norm(render, 60)})
            else:
                ctx.fail(m, node, f.key, node, f"`{norm(node, 80)}` cuts the end of `{norm(render, 50)}`, which is rendered with the node's comments: with a comment on that node the text "
                                               f"ends in `/* ... */` and the cut removes nothing (or the wrong characters), so comments=True produces malformed SQL")
    ctx.count("suffix_cuts_of_rendered_sql", n)
    ctx.min_instances("suffix_cuts_of_rendered_sql", n, 2)


RULES = [rule_a, rule_b, rule_c, rule_d, rule_e, rule_f, rule_g, rule_h]
EXPLANATION = (
    "Pairing and confinement rules on the generator: the sentinel's single guarded insertion/removal pair with "
    "post-domination of generate()'s returns and delegation of overrides, injectivity of the substitution, flow of "
    "node comment text only into maybe_comment / tree-to-tree moves, maybe_comment's comments=False short-circuit, and "
    "block-comment-only emission through sanitize_comment. Decides these mechanisms; whitespace-only influence of the "
    "other formatting options is semantic and not decided."
)
ASSUMPTIONS = ["generator code lives in sqlglot/generator.py, sqlglot/generators/*, sqlglot/dialects/dialect.py, sqlglot/transforms.py"]
