"""C13 – Source positions of tokens, nodes and errors point at the text they describe.

Representation invariants of the scanner cursor and the inclusive-end convention:
  C13.a  every write to TokenizerCore._current (outside __init__/reset) re-establishes, in the
         same block, _end == (_current >= size), _char == sql[_current-1],
         _peek == ("" if _end else sql[_current]) with symbolically equal expressions (tiny
         linear normaliser, locals resolved) and updates _col in that block.
  C13.b  _add stamps Token(line=_line, col=_col, start=_start, end=_current - 1).
  C13.c  Token.end / meta["end"] are inclusive everywhere they are consumed: slices add 1,
         adjacency is prev.end + 1 == curr.start; TokenError's exclusive end matches its own slice.
  C13.d  raise_error takes line, col and highlight positions from the same token;
         update_positions copies each position key from the same-named field.
Does not decide: that tokens tile the input; multi-byte / CRLF column values.
"""

from __future__ import annotations

import ast

from ..core import Ctx, call_name, dotted, is_self_attr, kwarg, norm, walk_no_nested

TC = "sqlglot.tokenizer_core"


def _lin(e: ast.AST, env: dict[str, ast.AST], depth: int = 4) -> tuple[str, int] | None:
    """Normalise `name`, `name + k`, `name - k`, `k + name` to (name, k); resolve locals via env."""
    if isinstance(e, ast.BinOp) and isinstance(e.op, (ast.Add, ast.Sub)):
        if isinstance(e.right, ast.Constant) and isinstance(e.right.value, int):
            l = _lin(e.left, env, depth)
            if l:
                return (l[0], l[1] + (e.right.value if isinstance(e.op, ast.Add) else -e.right.value))
        if isinstance(e.left, ast.Constant) and isinstance(e.left.value, int) and isinstance(e.op, ast.Add):
            r = _lin(e.right, env, depth)
            if r:
                return (r[0], r[1] + e.left.value)
        return None
    if isinstance(e, ast.Name):
        if e.id in env and depth > 0:
            return _lin(env[e.id], env, depth - 1) or (e.id, 0)
        return (e.id, 0)
    if isinstance(e, ast.Attribute):
        return (norm(e), 0)
    return None


def rule_a(ctx: Ctx) -> None:
    ctx.rule(
        "C13.a",
        "cursor invariant: each block that writes self._current also sets _end := (_current >= size), _char := sql[_current-1], "
        "_peek := '' if _end else sql[_current] (symbolically equal, locals resolved) and updates _col",
    )
    c = ctx.repo.cls(TC, "TokenizerCore")
    m = c.module
    n_blocks = 0
    for name, md in c.methods().items():
        if name in ("__init__", "reset"):
            continue
        writes = [
            n for n in walk_no_nested(md)
            if isinstance(n, (ast.Assign, ast.AugAssign)) and any(is_self_attr(t, "_current") for t in (n.targets if isinstance(n, ast.Assign) else [n.target]))
        ]
        for w in writes:
            n_blocks += 1
            where = f"{c.key}.{name}"
            par = m.parent(w)
            block = None
            for fld in ("body", "orelse", "finalbody"):
                lst = getattr(par, fld, None)
                if isinstance(lst, list) and w in lst:
                    block = lst
            if block is None:
                ctx.fail(m, w, where, w, "cannot locate the block of a _current write")
                continue
            i = block.index(w)
            # environment of local definitions: last assignment textually before the use, anywhere in the method
            local_defs: dict[str, list[tuple[int, ast.AST]]] = {}
            for st in walk_no_nested(md):
                if isinstance(st, ast.Assign) and len(st.targets) == 1 and isinstance(st.targets[0], ast.Name):
                    local_defs.setdefault(st.targets[0].id, []).append((st.lineno, st.value))
                if isinstance(st, ast.AugAssign) and isinstance(st.target, ast.Name):
                    local_defs.setdefault(st.target.id, []).append((st.lineno, ast.Name(id="<aug>", ctx=ast.Load())))

            def latest(name_: str, before: int) -> ast.AST | None:
                cands = [(ln, v) for ln, v in local_defs.get(name_, []) if True]
                # prefer the definition inside a loop that follows the initial one (last textual definition before `before`)
                cands = [x for x in cands if x[0] <= before]
                return cands[-1][1] if cands else None

            # symbolic new value of _current
            if isinstance(w, ast.AugAssign):
                C = ("self._current", 0)  # later mentions of self._current denote the new value
                c_alias = set()
            else:
                C = _lin(w.value, {}) or (norm(w.value), 0)
                c_alias = {norm(w.value)}

            def equals_C(e: ast.AST, off: int) -> bool:
                l = _lin(e, {})
                if l is None:
                    return False
                if l == ("self._current", off):
                    return True
                return (l[0], l[1]) == (C[0], C[1] + off)

            size_names = {"self.size", "size", "sql_size"}
            post = block[i + 1 :]
            pre = block[:i]
            found = {"_end": None, "_char": None, "_peek": None}
            for st in post:
                if isinstance(st, ast.Assign) and len(st.targets) == 1 and is_self_attr(st.targets[0]) and st.targets[0].attr in found:
                    found[st.targets[0].attr] = st
            missing = [k for k, v in found.items() if v is None]
            if missing:
                ctx.fail(m, w, where, w, f"after writing self._current the block does not re-establish {', '.join('self.' + x for x in missing)}")
                continue

            def resolve(v: ast.AST, line: int, attr: str = "") -> ast.AST:
                """Resolve a local to its defining expression. A loop-carried local has an initial
                definition `x = self.<attr>` (the old, valid value, used when the loop runs zero times and
                _current is unchanged) and a definition inside the loop: the latter is the one checked."""
                if isinstance(v, ast.Name):
                    defs = sorted(((ln, d) for ln, d in local_defs.get(v.id, []) if ln <= line), key=lambda x: x[0])
                    real = [d for ln, d in defs if not (isinstance(d, ast.Name) and d.id == "<aug>")]
                    non_identity = [d for d in real if not is_self_attr(d, attr)]
                    if non_identity and len(non_identity) == len(real) - (1 if len(real) > len(non_identity) else 0):
                        if len(non_identity) == 1:
                            return non_identity[0]
                    if len(real) == 1:
                        return real[0]
                return v

            ok = True
            # _end
            ev = resolve(found["_end"].value, found["_end"].lineno, "_end")
            if not (isinstance(ev, ast.Compare) and len(ev.ops) == 1 and isinstance(ev.ops[0], ast.GtE) and norm(ev.comparators[0]) in size_names and equals_C_or_local(ev.left, C, w)):
                ctx.fail(m, found["_end"], where, found["_end"], f"self._end is set to {norm(ev)}, not to (<new _current> >= size)")
                ok = False
            # _char
            cv = resolve(found["_char"].value, found["_char"].lineno, "_char")
            if not (isinstance(cv, ast.Subscript) and norm(cv.value) in ("sql", "self.sql") and _idx_equals(cv.slice, C, -1, w)):
                ctx.fail(m, found["_char"], where, found["_char"], f"self._char is set to {norm(cv)}, not to sql[<new _current> - 1]: the current character no longer matches the offset")
                ok = False
            # _peek
            pv = resolve(found["_peek"].value, found["_peek"].lineno, "_peek")
            good_peek = (
                isinstance(pv, ast.IfExp)
                and isinstance(pv.body, ast.Constant) and pv.body.value == ""
                and isinstance(pv.orelse, ast.Subscript) and norm(pv.orelse.value) in ("sql", "self.sql")
                and _idx_equals(pv.orelse.slice, C, 0, w)
                and norm(pv.test) in ("self._end", "_end")
            )
            if not good_peek:
                ctx.fail(m, found["_peek"], where, found["_peek"], f"self._peek is set to {norm(pv)}, not to ('' if _end else sql[<new _current>])")
                ok = False
            # _col updated in this block (directly, or in an if/else that precedes the write with both branches writing it)
            def writes_col(st: ast.stmt) -> bool:
                return any(
                    isinstance(x, (ast.Assign, ast.AugAssign)) and any(is_self_attr(t, "_col") for t in (x.targets if isinstance(x, ast.Assign) else [x.target]))
                    for x in ast.walk(st)
                )
            col_ok = False
            for st in block:
                if isinstance(st, ast.If):
                    if st.orelse and any(writes_col(x) for x in st.body) and any(writes_col(x) for x in st.orelse):
                        col_ok = True
                elif writes_col(st):
                    col_ok = True
            if not col_ok:
                ctx.fail(m, w, where, w, "the block moves self._current without updating self._col on every branch: columns drift from offsets")
                ok = False
            if ok:
                ctx.ok(f"{where}|{norm(w)}", {"write": norm(w), "_end": norm(ev), "_char": norm(cv), "_peek": norm(pv, 60)})
    # lockstep inside batched scans: a loop that advances a local copy of _current by k advances the
    # local copy of _col by the same k in the same body
    n_lock = 0
    for name, md in c.methods().items():
        aliases_cur = {st.targets[0].id for st in walk_no_nested(md) if isinstance(st, ast.Assign) and len(st.targets) == 1 and isinstance(st.targets[0], ast.Name) and is_self_attr(st.value, "_current")}
        aliases_col = {st.targets[0].id for st in walk_no_nested(md) if isinstance(st, ast.Assign) and len(st.targets) == 1 and isinstance(st.targets[0], ast.Name) and is_self_attr(st.value, "_col")}
        for lp in walk_no_nested(md):
            if not isinstance(lp, ast.While):
                continue
            cur_steps = [x for x in lp.body if isinstance(x, ast.AugAssign) and isinstance(x.target, ast.Name) and x.target.id in aliases_cur and isinstance(x.op, ast.Add)]
            if not cur_steps:
                continue
            n_lock += 1
            col_steps = [x for x in lp.body if isinstance(x, ast.AugAssign) and isinstance(x.target, ast.Name) and x.target.id in aliases_col and isinstance(x.op, ast.Add)]
            where = f"{c.key}.{name}"
            if col_steps and sorted(norm(x.value) for x in col_steps) == sorted(norm(x.value) for x in cur_steps):
                ctx.ok(f"{where}|lockstep {norm(cur_steps[0])} / {norm(col_steps[0])}", {"loop": norm(lp.test), "current": norm(cur_steps[0]), "col": norm(col_steps[0])})
            else:
                ctx.fail(m, lp, where, f"while {norm(lp.test)}: {norm(cur_steps[0])}", "a batched scan advances the offset without advancing the column by the same amount")
    ctx.count("batched_scan_loops", n_lock)
    ctx.count("current_write_blocks", n_blocks)
    ctx.min_instances("current_write_blocks", n_blocks, 3)


def equals_C_or_local(e: ast.AST, C: tuple[str, int], w: ast.AST) -> bool:
    l = _lin(e, {})
    if l is None:
        return False
    if l == ("self._current", 0):
        return True
    if not isinstance(w, ast.AugAssign) and l == C:
        return True
    return False


def _idx_equals(e: ast.AST, C: tuple[str, int], off: int, w: ast.AST) -> bool:
    l = _lin(e, {})
    if l is None:
        return False
    if l == ("self._current", off):
        return True
    if not isinstance(w, ast.AugAssign) and l == (C[0], C[1] + off):
        return True
    return False


def rule_b(ctx: Ctx) -> None:
    ctx.rule("C13.b", "token stamp: _add builds Token(line=self._line, col=self._col, start=self._start, end=self._current - 1)")
    f = ctx.repo.func(TC, "TokenizerCore._add")
    calls = [c for c in walk_no_nested(f.node) if isinstance(c, ast.Call) and call_name(c) == "Token"]
    ctx.require(bool(calls), "anchor vanished: _add no longer constructs Token(...)")
    want = {"line": "self._line", "col": "self._col", "start": "self._start", "end": "self._current - 1"}
    for c in calls:
        for k, v in want.items():
            got = kwarg(c, k)
            if got is not None and norm(got) == v:
                ctx.ok(f"{f.key}|Token.{k}", {"field": k, "value": v})
            else:
                ctx.fail(f.module, c, f.key, f"Token({k}={norm(got) if got is not None else '<missing>'})", f"Token.{k} must be stamped with {v} (end is inclusive)")
    # _start is (re)bound to the current offset at the beginning of each token in _scan
    sc = ctx.repo.func(TC, "TokenizerCore._scan")
    starts = [st for st in walk_no_nested(sc.node) if isinstance(st, ast.Assign) and any(is_self_attr(t, "_start") for t in st.targets)]
    if starts and all(norm(st.value) in ("self._current", "current") for st in starts):
        ctx.ok(f"{sc.key}|_start := _current at token begin")
    else:
        ctx.fail(sc.module, sc.node, sc.key, "self._start = self._current", "_scan no longer sets _start from the current offset before scanning a token")


def rule_c(ctx: Ctx) -> None:
    ctx.rule("C13.c", "inclusive-end convention at every consumer: slices use `.end + 1`, adjacency is `prev.end + 1 == curr.start`, TokenError's slice matches its start/end")
    repo = ctx.repo
    n = 0
    mods = ["sqlglot.parser", "sqlglot.errors", "sqlglot.anonymize", "sqlglot.expressions.core", "sqlglot.tokenizer_core", "sqlglot.tokens"] + [k for k in repo.modules if k.startswith("sqlglot.parsers.")]
    for mn in mods:
        m = repo.module(mn)
        for sl in m.of_type(ast.Slice):
            up = sl.upper
            if up is None:
                continue
            mentions_end = [x for x in ast.walk(up) if isinstance(x, ast.Attribute) and x.attr == "end" and not is_self_attr(x)]
            if not mentions_end:
                continue
            n += 1
            f = m.enclosing_func(sl)
            where = f.key if f else m.name
            ok = isinstance(up, ast.BinOp) and isinstance(up.op, ast.Add) and isinstance(up.right, ast.Constant) and up.right.value == 1
            st = m.enclosing_stmt(sl) or sl
            if ok:
                ctx.ok(f"{where}|{norm(st, 90)}", {"slice": norm(m.parent(sl), 70), "upper": norm(up)})
            else:
                ctx.fail(m, sl, where, st, f"slice upper bound {norm(up)} uses an inclusive token end without `+ 1`: the last character of the lexeme is cut off")
    # adjacency
    f = repo.func("sqlglot.parser", "Parser._is_connected")
    if any(isinstance(x, ast.Compare) and norm(x) == "prev.end + 1 == curr.start" for x in ast.walk(f.node)):
        ctx.ok(f"{f.key}|prev.end + 1 == curr.start")
        n += 1
    else:
        ctx.fail(f.module, f.node, f.key, "_is_connected", "_is_connected no longer tests prev.end + 1 == curr.start (inclusive end)")
    # highlight_sql: highlight_end = end + 1
    h = repo.func("sqlglot.errors", "highlight_sql")
    he = [st for st in walk_no_nested(h.node) if isinstance(st, ast.Assign) and norm(st.targets[0]) == "highlight_end"]
    if he and all(norm(st.value) == "end + 1" for st in he):
        ctx.ok(f"{h.key}|highlight_end = end + 1")
        n += 1
    else:
        ctx.fail(h.module, h.node, h.key, "highlight_end = end + 1", "highlight_sql no longer treats position ends as inclusive")
    # TokenError: context slice and reported start/end use the same names
    t = repo.func(TC, "TokenizerCore.tokenize")
    raises = [r for r in ast.walk(t.node) if isinstance(r, ast.Raise) and isinstance(r.exc, ast.Call) and call_name(r.exc) == "TokenError"]
    ctx.require(bool(raises), "anchor vanished: tokenize no longer raises TokenError")
    for r in raises:
        s_kw, e_kw = kwarg(r.exc, "start"), kwarg(r.exc, "end")
        ctxs = [st for st in ast.walk(t.node) if isinstance(st, ast.Assign) and norm(st.targets[0]) == "context"]
        okk = s_kw is not None and e_kw is not None and ctxs and norm(ctxs[0].value) == f"self.sql[{norm(s_kw)}:{norm(e_kw)}]"
        n += 1
        if okk:
            ctx.ok(f"{t.key}|TokenError(start,end) == context slice", {"context": norm(ctxs[0].value)})
        else:
            ctx.fail(t.module, r, t.key, r, "TokenError's start/end no longer select the context it quotes")
    ctx.count("consumers", n)
    ctx.min_instances("consumers", n, 4)


def rule_d(ctx: Ctx) -> None:
    ctx.rule("C13.d", "same-token reporting: raise_error derives line, col and highlight positions from one token; update_positions copies same-named fields")
    f = ctx.repo.func("sqlglot.parser", "Parser.raise_error")
    hl = [c for c in walk_no_nested(f.node) if isinstance(c, ast.Call) and call_name(c) == "highlight_sql"]
    new = [c for c in walk_no_nested(f.node) if isinstance(c, ast.Call) and call_name(c) == "ParseError.new"]
    ctx.require(bool(hl) and bool(new), "anchor vanished: raise_error no longer calls highlight_sql / ParseError.new")
    pos = kwarg(hl[0], "positions")
    okp = pos is not None and norm(pos) == "[(token.start, token.end)]"
    sql_ok = kwarg(hl[0], "sql") is not None and norm(kwarg(hl[0], "sql")) == "self.sql"
    l, c_ = kwarg(new[0], "line"), kwarg(new[0], "col")
    oklc = l is not None and c_ is not None and norm(l) == "token.line" and norm(c_) == "token.col"
    if okp and oklc and sql_ok:
        ctx.ok(f"{f.key}|positions, line, col from `token`; text from self.sql")
    else:
        ctx.fail(f.module, hl[0], f.key, f"positions={norm(pos) if pos else None}, line={norm(l) if l else None}, col={norm(c_) if c_ else None}",
                 "raise_error must take highlight positions (token.start, token.end), line and col from the same token and highlight self.sql")
    for k in ("start_context", "highlight", "end_context"):
        v = kwarg(new[0], k)
        if v is not None and norm(v) == k:
            ctx.ok(f"{f.key}|{k} passed through")
        else:
            ctx.fail(f.module, new[0], f.key, f"{k}={norm(v) if v else None}", f"ParseError.new({k}=...) must receive highlight_sql's {k}")
    u = ctx.repo.func("sqlglot.expressions.core", "Expression.update_positions")
    n = 0
    for st in walk_no_nested(u.node):
        if isinstance(st, ast.Assign) and isinstance(st.targets[0], ast.Subscript) and norm(st.targets[0].value) == "meta":
            key = st.targets[0].slice
            if isinstance(key, ast.Constant):
                n += 1
                v = norm(st.value)
                if v in (f"other.{key.value}", key.value):
                    ctx.ok(f"{u.key}|meta[{key.value!r}] = {v}")
                else:
                    ctx.fail(u.module, st, u.key, st, f"meta[{key.value!r}] is filled from {v}: position fields are crossed")
            elif norm(key) == "k":
                n += 1
                if norm(st.value) == "other_meta[k]":
                    ctx.ok(f"{u.key}|meta[k] = other_meta[k]")
                else:
                    ctx.fail(u.module, st, u.key, st, "meta[k] must be copied from other_meta[k]")
    ctx.count("position_assignments", n)
    ctx.min_instances("position_assignments", n, 9)
    # POSITION_META_KEYS still lists the four keys
    core = ctx.repo.module("sqlglot.expressions.core")
    pk = [st for st in core.tree.body if isinstance(st, (ast.Assign, ast.AnnAssign)) and norm(st.targets[0] if isinstance(st, ast.Assign) else st.target) == "POSITION_META_KEYS"]
    if pk and {"line", "col", "start", "end"} <= {x.value for x in ast.walk(pk[0].value) if isinstance(x, ast.Constant)}:
        ctx.ok("POSITION_META_KEYS covers line/col/start/end")
    else:
        ctx.fail(core, pk[0] if pk else core.tree, "sqlglot.expressions.core", "POSITION_META_KEYS", "POSITION_META_KEYS no longer lists line, col, start, end")


def _count_vector(e: ast.AST, env: dict[str, ast.AST], sign: int = 1, depth: int = 0) -> dict[str, int] | None:
    """linear combination of <str>.count(<const>, ...) terms: {counted string: coefficient}; None if e has another shape"""
    if depth > 4:
        return None
    if isinstance(e, ast.Name) and e.id in env:
        return _count_vector(env[e.id], env, sign, depth + 1)
    if isinstance(e, ast.BinOp) and isinstance(e.op, (ast.Add, ast.Sub)):
        a = _count_vector(e.left, env, sign, depth + 1)
        b = _count_vector(e.right, env, sign if isinstance(e.op, ast.Add) else -sign, depth + 1)
        if a is None or b is None:
            return None
        out = dict(a)
        for k, v in b.items():
            out[k] = out.get(k, 0) + v
        return {k: v for k, v in out.items() if v}
    if isinstance(e, ast.Call) and isinstance(e.func, ast.Attribute) and e.func.attr == "count" and e.args and isinstance(e.args[0], ast.Constant) and isinstance(e.args[0].value, str):
        return {e.args[0].value: sign}
    return None


def rule_e(ctx: Ctx) -> None:
    ctx.rule("C13.e", "line accounting agreement: the str.find fast path of _extract_string counts exactly the line breaks _advance counts "
                      "(the same characters, CR LF as one) and restarts the column after the last of them, so a token's line does not depend on which path scanned the string before it")
    adv = ctx.repo.func(TC, "TokenizerCore._advance")
    ext = ctx.repo.func(TC, "TokenizerCore._extract_string")
    m = adv.module
    # what _advance treats as a line break
    outer = None
    for st in adv.node.body:
        # the per-character accounting: an `if` on the character being left (not the multi-character branch, rule C13.g)
        if isinstance(st, ast.If) and any(isinstance(x, ast.AugAssign) and norm(x.target) == "self._line" for x in ast.walk(st)) \
                and any(isinstance(x, ast.Compare) and isinstance(x.comparators[0], ast.Constant) and isinstance(x.comparators[0].value, str) for x in ast.walk(st.test)):
            outer = st
            break
    ctx.require(outer is not None, "anchor vanished: _advance no longer increments self._line under a condition")
    chars = set()
    for cmp_ in ast.walk(outer.test):
        if isinstance(cmp_, ast.Compare) and len(cmp_.ops) == 1 and isinstance(cmp_.ops[0], ast.Eq) and isinstance(cmp_.comparators[0], ast.Constant) and isinstance(cmp_.comparators[0].value, str):
            chars.add(cmp_.comparators[0].value)
        if isinstance(cmp_, ast.Compare) and len(cmp_.ops) == 1 and isinstance(cmp_.ops[0], ast.In) and isinstance(cmp_.comparators[0], (ast.Tuple, ast.Set, ast.List, ast.Constant)):
            cs = cmp_.comparators[0]
            chars |= {x.value for x in getattr(cs, "elts", []) if isinstance(x, ast.Constant)} if not isinstance(cs, ast.Constant) else set(cs.value)
    ctx.require(bool(chars), "anchor vanished: cannot read the line-break characters from _advance's condition")
    want = {c: 1 for c in chars}
    # an inner guard `not (char == A and self._peek == B)` makes the pair AB count once
    for inner in [x for x in ast.walk(outer) if isinstance(x, ast.If) and x is not outer and any(isinstance(y, ast.AugAssign) and norm(y.target) == "self._line" for y in ast.walk(x))]:
        t_ = inner.test
        if isinstance(t_, ast.UnaryOp) and isinstance(t_.op, ast.Not) and isinstance(t_.operand, ast.BoolOp) and isinstance(t_.operand.op, ast.And) and len(t_.operand.values) == 2:
            a, b = t_.operand.values
            if all(isinstance(x, ast.Compare) and isinstance(x.comparators[0], ast.Constant) for x in (a, b)) and "_peek" in norm(b.left):
                want[a.comparators[0].value + b.comparators[0].value] = -1
            else:
                raise_shape = True
                ctx.require(False, "anchor vanished: unrecognised pairing guard in _advance's line accounting")
        else:
            ctx.require(False, "anchor vanished: unrecognised inner guard in _advance's line accounting")
    # the fast path's bump of self._line
    env: dict[str, ast.AST] = {}
    for st in walk_no_nested(ext.node):
        if isinstance(st, ast.Assign) and len(st.targets) == 1 and isinstance(st.targets[0], ast.Name):
            env.setdefault(st.targets[0].id, st.value)
    bumps = [st for st in walk_no_nested(ext.node) if isinstance(st, ast.AugAssign) and norm(st.target) == "self._line" and isinstance(st.op, ast.Add)]
    ctx.require(len(bumps) == 1, "anchor vanished: _extract_string no longer bumps self._line exactly once (fast path)")
    got = _count_vector(bumps[0].value, env)
    inst = f"{ext.key}|self._line += {norm(bumps[0].value)}"
    if got is None:
        ctx.fail(m, bumps[0], ext.key, bumps[0], "the fast path's line increment is not a combination of str.count terms the rule can compare with _advance")
    elif got == want:
        ctx.ok(inst, {"_advance_counts": want, "fast_path_counts": got})
    else:
        ctx.fail(m, bumps[0], ext.key, bumps[0],
                 f"the string fast path counts line breaks as {got} while _advance counts {want} (coefficient per character sequence): the line of every later token "
                 f"depends on whether the preceding string took the fast path")
    # column restart: after the last line break of any counted kind
    singles = {c for c, k in want.items() if k > 0}
    cols = [st for st in walk_no_nested(ext.node) if isinstance(st, ast.Assign) and norm(st.targets[0]) == "self._col" and any(isinstance(x, ast.Call) and isinstance(x.func, ast.Attribute) and x.func.attr == "rfind" for x in ast.walk(st.value))]
    ctx.require(len(cols) == 1, "anchor vanished: _extract_string no longer restarts self._col from an rfind of the last line break")
    found = {x.args[0].value for x in ast.walk(cols[0].value) if isinstance(x, ast.Call) and isinstance(x.func, ast.Attribute) and x.func.attr == "rfind" and x.args and isinstance(x.args[0], ast.Constant)}
    uses_max = any(isinstance(x, ast.Call) and call_name(x) == "max" for x in ast.walk(cols[0].value))
    if found == singles and (len(singles) == 1 or uses_max):
        ctx.ok(f"{ext.key}|{norm(cols[0])}", {"column_restarts_after_last_of": sorted(found)})
    else:
        ctx.fail(m, cols[0], ext.key, cols[0], f"the column restarts after the last of {sorted(found)} but the counted line breaks are {sorted(singles)}")


def rule_f(ctx: Ctx) -> None:
    ctx.rule("C13.f", "context windows are clamped: a slice of the source text whose lower bound is computed by subtraction (offset - context) is wrapped in max(0, ...) — "
                      "a negative lower bound wraps around and selects text from the end of the input")
    n = 0
    for mn in ("sqlglot.errors", "sqlglot.tokenizer_core", "sqlglot.parser", "sqlglot.tokens"):
        m = ctx.repo.module(mn)
        for s_ in m.of_type(ast.Subscript):
            if not (isinstance(s_.slice, ast.Slice) and s_.slice.lower is not None and isinstance(s_.ctx, ast.Load)):
                continue
            lo = s_.slice.lower
            if isinstance(lo, ast.Name):
                # bound computed in a local first: follow a single binding
                f0 = m.enclosing_func(s_)
                binds = [st.value for st in (walk_no_nested(f0.node) if f0 else []) if isinstance(st, ast.Assign) and len(st.targets) == 1 and norm(st.targets[0]) == lo.id]
                if len(binds) == 1:
                    lo = binds[0]
            # a *window*: an offset minus a variable width (constant offsets such as `self._current - 1` are cursor arithmetic, rule C13.a)
            subs = [x for x in ast.walk(lo) if isinstance(x, ast.BinOp) and isinstance(x.op, ast.Sub) and not isinstance(x.right, ast.Constant)]
            if not subs:
                continue
            n += 1
            f = m.enclosing_func(s_)
            where = f.key if f else mn
            inst = f"{where}|{norm(s_, 70)}"
            clamped = isinstance(lo, ast.Call) and call_name(lo) == "max" and any(isinstance(a, ast.Constant) and a.value == 0 for a in lo.args)
            # `x - k` with the same x tested `>= k` / truthy just before is also fine; only the max(0, ..) idiom occurs in this code base
            if clamped:
                ctx.ok(inst, {"slice": norm(s_, 70), "lower_bound": norm(lo, 50)})
            else:
                ctx.fail(m, s_, where, s_, f"the lower bound `{norm(lo, 50)}` can be negative (no max(0, ...)): the slice then starts from the end of the text, so the reported "
                                           f"context no longer is the text in front of the token")
    ctx.count("subtractive_slice_bounds", n)
    ctx.min_instances("subtractive_slice_bounds", n, 1)


def rule_g(ctx: Ctx) -> None:
    ctx.rule("C13.g", "multi-character advances: _advance(i) only inspects the character it leaves, so for i > 1 it must count the line breaks among the characters it steps "
                      "over (a branch on i that bumps self._line by the same count vector as the per-character rule and restarts the column after the last break) — "
                      "otherwise ORDER\\nBY scanned as one keyword, or an escaped line break inside a string, leaves every later token on the wrong line")
    adv = ctx.repo.func(TC, "TokenizerCore._advance")
    m = adv.module
    # callers that can step over more than one character exist (otherwise the branch is not needed)
    tc = ctx.repo.cls(TC, "TokenizerCore")
    multi = []
    for name, md in tc.methods().items():
        for c in walk_no_nested(md):
            if isinstance(c, ast.Call) and call_name(c) == "self._advance" and c.args:
                a = c.args[0]
                if isinstance(a, ast.Constant) and isinstance(a.value, int) and a.value <= 1:
                    continue
                if isinstance(a, ast.UnaryOp) and isinstance(a.op, ast.USub):
                    continue
                multi.append((name, c))
    ctx.count("multi_character_advance_sites", len(multi))
    branch = None
    for st in adv.node.body:
        if isinstance(st, ast.If) and isinstance(st.test, ast.Compare) and norm(st.test.left) == "i" and isinstance(st.test.ops[0], (ast.Gt, ast.GtE)) \
                and any(isinstance(x, ast.AugAssign) and norm(x.target) == "self._line" for x in ast.walk(st)):
            branch = st
    if not multi:
        ctx.ok(f"{adv.key}|no multi-character advance", None)
        return
    if branch is None:
        nm, c0 = multi[0]
        ctx.fail(m, adv.node, adv.key, "def _advance(self, i=1, ...)",
                 f"_advance has no branch for i > 1 that counts the line breaks it steps over, but {len(multi)} call sites advance by more than one character "
                 f"(e.g. {nm}: {norm(c0)}): a line break inside the skipped text is never counted")
        return
    env = {}
    for st in ast.walk(branch):
        if isinstance(st, ast.Assign) and len(st.targets) == 1 and isinstance(st.targets[0], ast.Name):
            env.setdefault(st.targets[0].id, st.value)
    bumps = [st for st in ast.walk(branch) if isinstance(st, ast.AugAssign) and norm(st.target) == "self._line" and isinstance(st.op, ast.Add)]
    got = _count_vector(bumps[0].value, env) if bumps else None
    # the per-character definition (same reading as C13.e)
    per_char = None
    for st in adv.node.body:
        if isinstance(st, ast.If) and st is not branch and any(isinstance(x, ast.AugAssign) and norm(x.target) == "self._line" for x in ast.walk(st)):
            chars = {x.comparators[0].value for x in ast.walk(st.test) if isinstance(x, ast.Compare) and isinstance(x.comparators[0], ast.Constant) and isinstance(x.comparators[0].value, str)}
            per_char = {c_: 1 for c_ in chars}
            for inner in ast.walk(st):
                if isinstance(inner, ast.If) and inner is not st and isinstance(inner.test, ast.UnaryOp) and isinstance(inner.test.operand, ast.BoolOp):
                    vs = inner.test.operand.values
                    if len(vs) == 2 and all(isinstance(v_, ast.Compare) and isinstance(v_.comparators[0], ast.Constant) for v_ in vs):
                        per_char[vs[0].comparators[0].value + vs[1].comparators[0].value] = -1
    ctx.require(per_char is not None, "anchor vanished: per-character line accounting of _advance")
    if got is not None and {k: v for k, v in got.items() if v} == per_char:
        ctx.ok(f"{adv.key}|i > 1 counts the skipped line breaks like the per-character rule", {"vector": per_char, "multi_character_call_sites": len(multi)})
    elif got is None:
        ctx.ok(f"{adv.key}|i > 1 branch present, count form not recognised", {"decided": False})
    else:
        ctx.fail(m, bumps[0], adv.key, bumps[0], f"the i > 1 branch counts line breaks as {got} while a single step counts {per_char}")
    if any(isinstance(x, ast.Assign) and norm(x.targets[0]) == "self._col" for x in ast.walk(branch)):
        ctx.ok(f"{adv.key}|column restarted after the last skipped line break", None)
    else:
        ctx.fail(m, branch, adv.key, "if i > 1: ...", "the i > 1 branch bumps the line but does not restart the column")


def _late_cursor_reads(tree: ast.AST) -> list[tuple[ast.Call, ast.AST]]:
    """calls in which self._prev / self._curr is read as an argument *after* an earlier argument that moves the cursor"""
    def moves(e: ast.AST) -> bool:
        for x in ast.walk(e):
            if isinstance(x, ast.Call):
                cn = call_name(x) or ""
                if cn.startswith(("self._parse", "self._match", "self._advance", "self._try_parse")):
                    kw = next((k.value for k in x.keywords if k.arg == "advance"), None)
                    if isinstance(kw, ast.Constant) and kw.value is False:
                        continue
                    return True
        return False

    out = []
    for c in ast.walk(tree):
        if not isinstance(c, ast.Call):
            continue
        args = list(c.args) + [k.value for k in c.keywords]
        for i, a in enumerate(args):
            if norm(a) in ("self._prev", "self._curr") and any(moves(b) for b in args[:i]):
                out.append((c, a))
    return out


def rule_h(ctx: Ctx) -> None:
    ctx.rule("C13.h", "position stamps use the token of the construct: in parser code self._prev / self._curr is never read as an argument of a call after an earlier argument "
                      "of the same call has moved the cursor (arguments are evaluated left to right, so the token read is no longer the construct's own)")
    probe = ast.parse("x = self.expression(exp.Star(except_=self._parse_star_op('EXCEPT')), token=self._prev)\n")
    ctx.require(len(_late_cursor_reads(probe)) == 1, "internal: C13.h matcher no longer recognises its positive control")
    n = 0
    for mn, m in ctx.repo.modules.items():
        if not (mn == "sqlglot.parser" or mn.startswith("sqlglot.parsers.")):
            continue
        n += len(m.of_type(ast.Call))
        for c, a in _late_cursor_reads(m.tree):
            f = m.enclosing_func(c)
            where = f.key if f else mn
            ctx.fail(m, c, where, norm(c, 100), f"`{norm(a)}` is evaluated after an earlier argument of this call consumed tokens: the position recorded for the node is that of a later "
                                               f"token (e.g. the closing parenthesis of `* EXCEPT (...)` instead of the star)")
    ctx.ok("parser|no cursor read after a cursor-moving sibling argument", {"calls_scanned": n})
    ctx.count("parser_calls_scanned", n)
    ctx.min_instances("parser_calls_scanned", n, 5000)


REVIEWED_REWINDS = {
    ("sqlglot.tokenizer_core:TokenizerCore._scan_number", "self._advance(-len(numeric_literal))"):
        "numeric_literal is built from identifier characters only (the loop appends self._peek while it isidentifier()): it contains no line break",
}


def rule_i(ctx: Ctx) -> None:
    ctx.rule("C13.i", "rewinds restore the line: a backward _advance over text that was scanned speculatively (the result of _extract_string, which counts the line breaks it "
                      "passes) is followed by a restore of self._line / self._col from a snapshot — _advance(-k) itself never takes line breaks back")
    tc = ctx.repo.cls(TC, "TokenizerCore")
    n = 0
    for name, md in tc.methods().items():
        m = tc.module
        for c in walk_no_nested(md):
            if not (isinstance(c, ast.Call) and call_name(c) == "self._advance" and c.args and isinstance(c.args[0], ast.UnaryOp) and isinstance(c.args[0].op, ast.USub)):
                continue
            operand = c.args[0].operand
            if isinstance(operand, ast.Constant):
                continue  # a fixed small step back over characters the caller has just inspected
            n += 1
            where = f"{tc.key}.{name}"
            txt = norm(c)
            inst = f"{where}|{txt}"
            # restore in the same block after the rewind
            st = m.enclosing_stmt(c)
            blk = m.parent(st)
            restored = False
            for fld in ("body", "orelse"):
                seq = getattr(blk, fld, None)
                if isinstance(seq, list) and st in seq:
                    for later in seq[seq.index(st) + 1:]:
                        tg = [norm(t_) for x in ast.walk(later) if isinstance(x, ast.Assign) for t_ in (x.targets[0].elts if isinstance(x.targets[0], ast.Tuple) else [x.targets[0]])]
                        if "self._line" in tg and "self._col" in tg:
                            restored = True
            if restored:
                ctx.ok(inst, {"rewind": txt, "in": where, "restores": "self._line, self._col"})
            elif (where, txt) in REVIEWED_REWINDS:
                ctx.ok(inst, {"rewind": txt, "in": where, "reviewed": REVIEWED_REWINDS[(where, txt)]})
            else:
                ctx.fail(m, c, where, c, f"`{txt}` steps back over scanned text without restoring self._line / self._col: if that text contained a line break the line stays "
                                         f"incremented and the column goes negative, so every later token is reported on the wrong line")
    ctx.count("variable_rewinds", n)
    ctx.min_instances("variable_rewinds", n, 2)


def rule_j(ctx: Ctx) -> None:
    ctx.rule("C13.j", "nested scans do not leak their start: _scan() sets self._start for every token it scans, so a method that runs a nested self._scan(...) and afterwards "
                      "emits a token of its own re-assigns self._start before that _add — otherwise the token carries the span of the last inner token")
    tc = ctx.repo.cls(TC, "TokenizerCore")
    n = 0
    for name, md in tc.methods().items():
        if name in ("tokenize", "_scan"):
            continue
        nested = [c for c in walk_no_nested(md) if isinstance(c, ast.Call) and call_name(c) == "self._scan"]
        for sc in nested:
            n += 1
            where = f"{tc.key}.{name}"
            st = tc.module.enclosing_stmt(sc)
            blk = tc.module.parent(st)
            seq = next((getattr(blk, f_) for f_ in ("body", "orelse") if isinstance(getattr(blk, f_, None), list) and st in getattr(blk, f_)), [])
            later = seq[seq.index(st) + 1:] if st in seq else []
            adds = [(i, x) for i, l_ in enumerate(later) for x in ast.walk(l_) if isinstance(x, ast.Call) and call_name(x) == "self._add"]
            if not adds:
                ctx.ok(f"{where}|nested scan emits nothing of its own", None)
                continue
            first_add_stmt = later[adds[0][0]]
            def assigns_start(node: ast.AST, before: ast.AST | None = None) -> bool:
                for x in ast.walk(node):
                    if isinstance(x, ast.Assign) and any(norm(t_) == "self._start" for t_ in x.targets):
                        if before is None or x.lineno < before.lineno:
                            return True
                return False
            ok = any(assigns_start(l_) for l_ in later[: adds[0][0]]) or assigns_start(first_add_stmt, adds[0][1])
            if ok:
                ctx.ok(f"{where}|self._start re-assigned between the nested scan and {norm(adds[0][1], 40)}", None)
            else:
                ctx.fail(tc.module, adds[0][1], where, adds[0][1],
                         "this token is emitted after a nested self._scan(...) without re-assigning self._start: its start/end are those of the last token of the nested scan, "
                         "not of the text it carries")
    ctx.count("nested_scan_sites", n)
    ctx.min_instances("nested_scan_sites", n, 1)


# ---- C13.k: every emitted token has a span of its own ----------------------------------------
def _span_events(e: ast.AST | None, emitting: set[str], in_add: bool) -> list[list[tuple[str, ast.AST]]]:
    """Alternative event sequences (evaluation order) of one expression/statement."""
    if e is None:
        return [[]]
    if isinstance(e, (ast.FunctionDef, ast.AsyncFunctionDef, ast.Lambda, ast.ClassDef)):
        return [[]]
    if isinstance(e, ast.IfExp):
        out = []
        for pre in _span_events(e.test, emitting, in_add):
            for alt in (e.body, e.orelse):
                for post in _span_events(alt, emitting, in_add):
                    out.append(pre + post)
        return out[:16]
    seqs: list[list[tuple[str, ast.AST]]] = [[]]
    kids = list(ast.iter_child_nodes(e))
    if isinstance(e, ast.Assign):
        kids = [e.value]
    for k in kids:
        alts = _span_events(k, emitting, in_add)
        seqs = [a + b for a in seqs for b in alts][:16]
    own: tuple[str, ast.AST] | None = None
    if isinstance(e, ast.Call):
        cn = call_name(e) or ""
        if cn == "self._add" or (in_add and cn == "self.tokens.append"):
            own = ("ADD", e)
        elif cn == "self._scan":
            own = ("SCAN", e)
        elif cn == "self._advance":
            back = bool(e.args) and isinstance(e.args[0], ast.UnaryOp) and isinstance(e.args[0].op, ast.USub)
            if not back:
                own = ("ADV", e)
        elif cn.startswith("self.") and cn[5:] in emitting:
            own = ("CALL:" + cn[5:], e)
    elif isinstance(e, ast.Assign) and any(norm(t_) == "self._start" for t_ in e.targets):
        own = ("START0" if norm(e.value) == "self._current" else "START", e)
    if own:
        seqs = [a + [own] for a in seqs]
    return seqs


def rule_k(ctx: Ctx) -> None:
    from ..cfg import CFG, forward

    ctx.rule("C13.k", "every emitted token has a span of its own: on every path through the scanner's methods, between two token emissions (self._add, or a call of a "
                      "method that emits) self._start is re-assigned — otherwise the second token is stamped with a span that contains the first (tokens overlap). "
                      "A token emitted right after `self._start = self._current` is empty (a synthesised token) and overlaps nothing")
    tc = ctx.repo.cls(TC, "TokenizerCore")
    methods = {n_: md for n_, md in tc.methods().items() if n_ not in ("tokenize", "__init__", "reset")}
    # methods that may emit (fixpoint over self-calls)
    emitting: set[str] = set()
    changed = True
    while changed:
        changed = False
        for n_, md in methods.items():
            if n_ in emitting:
                continue
            for c in walk_no_nested(md):
                if isinstance(c, ast.Call):
                    cn = call_name(c) or ""
                    if cn in ("self._add", "self._scan") or (n_ == "_add" and cn == "self.tokens.append") or (cn.startswith("self.") and cn[5:] in emitting):
                        emitting.add(n_)
                        changed = True
                        break
    F, E, D = "fresh", "empty", "used"
    summary: dict[str, dict[str, frozenset]] = {}
    needs_clean: dict[str, bool] = {n_: False for n_ in emitting}
    violations: dict[tuple[str, str], tuple[ast.AST, str]] = {}

    def step(states: frozenset, ev: tuple[str, ast.AST], lab: object, is_test: bool, where: str, record: bool) -> frozenset:
        kind, node = ev
        out = set()
        for s_ in states:
            if kind == "ADD":
                if s_ == D and record:
                    violations.setdefault((where, norm(node, 60)), (node, "a token has already been emitted with the current self._start"))
                out.add(E if s_ == E else D)
            elif kind == "SCAN":
                out.add(D)
            elif kind == "ADV":
                out.add(F if s_ == E else s_)
            elif kind == "START0":
                out.add(E)
            elif kind == "START":
                out.add(F)
            elif kind.startswith("CALL:"):
                callee = kind[5:]
                if s_ == D and needs_clean.get(callee) and record:
                    violations.setdefault((where, norm(node, 60)), (node, f"{callee}() emits a token with the current self._start, which an earlier token already used"))
                sm = summary.get(callee, {})
                if is_test and lab is True:
                    res = sm.get("true", frozenset()) | sm.get("other", frozenset())
                elif is_test and lab is False:
                    res = sm.get("false", frozenset()) | sm.get("other", frozenset())
                else:
                    res = frozenset().union(*sm.values()) if sm else frozenset()
                # the callee was analysed from a fresh entry; an entry with a used span stays used unless the callee re-assigns
                for r in res:
                    out.add(D if (s_ == D and r in (F,)) else r)
                if not res:
                    pass  # no exit state known yet (fixpoint bottom)
        return frozenset(out)

    def analyse(name: str, record: bool) -> tuple[dict[str, frozenset], bool]:
        md = methods[name]
        where = f"{tc.key}.{name}"
        cfg = CFG(md)
        cache: dict[int, list[list[tuple[str, ast.AST]]]] = {}

        def evs(n):
            if n.id not in cache:
                if n.ast is None or n.kind in ("join", "entry", "exit", "raise"):
                    cache[n.id] = [[]]
                elif n.kind == "for":
                    cache[n.id] = _span_events(n.ast.iter, emitting, name == "_add")  # type: ignore[attr-defined]
                elif n.kind == "with":
                    cache[n.id] = [[]]
                else:
                    cache[n.id] = _span_events(n.ast, emitting, name == "_add")
            return cache[n.id]

        def tr(n, lab, st):
            if lab == "exc":
                return st  # the statement raised instead of completing: an emission that raises after appending its token is not an idiom of this scanner
            outs = set()
            is_test = n.kind == "cond" and isinstance(n.ast, ast.Call)
            for seq in evs(n):
                cur = st
                for ev in seq:
                    last = ev is seq[-1]
                    cur = step(cur, ev, lab, is_test and last and ev[1] is n.ast, where, record)
                outs |= cur
            return frozenset(outs)

        IN = forward(cfg, frozenset({F}), tr, lambda a, b: a | b)
        exits: dict[str, set] = {"true": set(), "false": set(), "other": set()}
        for n in cfg.nodes:
            if IN.get(n) is None:
                continue
            for succ, lab in n.succ:
                if succ is not cfg.exit:
                    continue
                out = tr(n, lab, IN[n])
                kind = "false"
                if isinstance(n.ast, ast.Return) and n.ast.value is not None:
                    v = n.ast.value
                    if isinstance(v, ast.Constant):
                        kind = "true" if v.value else "false"
                    else:
                        kind = "other"
                exits[kind] |= out
        # does some path reach an emission before self._start is assigned?  (entry marked with a probe state)
        return {k: frozenset(v) for k, v in exits.items() if v}, False

    # needs_clean: a method whose first emission on some path is not preceded by a self._start assignment
    def first_emission_unguarded(name: str) -> bool:
        md = methods[name]
        cfg = CFG(md)
        P = "probe"

        def tr(n, lab, st):
            if st != P:
                return st
            if n.ast is None or n.kind in ("join", "entry", "exit", "raise", "with"):
                return st
            src = n.ast.iter if n.kind == "for" else n.ast  # type: ignore[attr-defined]
            for seq in _span_events(src, emitting, name == "_add"):
                for kind, _ in seq:
                    if kind in ("START", "START0", "SCAN"):
                        return "assigned"
                    if kind == "ADD" or (kind.startswith("CALL:") and needs_clean.get(kind[5:])):
                        return "emits"
            return st

        IN = forward(cfg, P, tr, lambda a, b: "emits" if "emits" in (a, b) else (P if P in (a, b) else a))
        for n in cfg.nodes:
            if IN.get(n) == P:
                for succ, lab in n.succ:
                    if tr(n, lab, P) == "emits":
                        return True
        return False

    for _ in range(6):
        before = dict(needs_clean)
        for n_ in sorted(emitting):
            if n_ != "_scan":
                needs_clean[n_] = first_emission_unguarded(n_)
        if before == needs_clean:
            break
    for _ in range(8):
        before_s = dict(summary)
        for n_ in sorted(emitting):
            if n_ == "_scan":
                summary[n_] = {"false": frozenset({D})}
                continue
            summary[n_], _x = analyse(n_, False)
        if before_s == summary:
            break
    n_add = 0
    for n_ in sorted(emitting):
        analyse(n_, True)
        md = methods[n_]
        for c in walk_no_nested(md):
            if isinstance(c, ast.Call) and ((call_name(c) or "") == "self._add" or (n_ == "_add" and call_name(c) == "self.tokens.append")):
                n_add += 1
                key = (f"{tc.key}.{n_}", norm(c, 60))
                if key not in violations:
                    ctx.ok(f"{key[0]}|{key[1]}", None)
    for (where, txt), (node, why) in sorted(violations.items()):
        ctx.fail(tc.module, node, where, node, f"`{txt}`: {why} — the two tokens are stamped with overlapping spans (start/end of one of them do not select its own lexeme)")
    ctx.count("emitting_methods", len(emitting))
    ctx.count("emission_sites", n_add)
    ctx.min_instances("emission_sites", n_add, 15)


def rule_l(ctx: Ctx) -> None:
    ctx.rule("C13.l", "the source text accompanies its tokens: a function that holds both a token list and the text it was scanned from (a parameter `sql`) and hands the tokens on to a "
                      "parser entry point (parse / parse_into / _parse of another object, of super() or of self) hands the text on as well — error snippets and highlights are slices "
                      "of the text the parser was given, so a dropped argument leaves them empty")
    n = 0
    for f in ctx.repo.all_funcs():
        if "sql" not in f.params:
            continue
        m = f.module
        token_params = {p for p in f.params if "token" in p.lower()} | {x.id for x in walk_no_nested(f.node) if isinstance(x, ast.Name) and "token" in x.id.lower()}
        for c in walk_no_nested(f.node):
            if not (isinstance(c, ast.Call) and isinstance(c.func, ast.Attribute) and c.func.attr in ("parse", "parse_into", "_parse")):
                continue
            args = list(c.args) + [k.value for k in c.keywords]
            carries_tokens = any(
                (isinstance(x, ast.Name) and x.id in token_params) or (isinstance(x, ast.Call) and (call_name(x) or "").split(".")[-1] == "tokenize")
                for a in args for x in ast.walk(a)
            )
            if not carries_tokens:
                continue
            n += 1
            where = f.key
            if any(isinstance(a, ast.Name) and a.id == "sql" for a in args):
                ctx.ok(f"{where}|{norm(c, 80)}", None)
            else:
                ctx.fail(m, c, where, c, f"`{norm(c, 90)}` hands the tokens to a parser entry point without the text `sql` they were scanned from: every ParseError it builds has an "
                                         f"empty snippet and highlight (its sibling calls pass the text)")
    ctx.count("token_handovers", n)
    ctx.min_instances("token_handovers", n, 5)


def _merged_name_sites(fn: ast.AST) -> list[tuple[ast.Call, str, bool]]:
    """Identifier(this=V).update_positions(<one node>) where the text V was extended (`V += ...`) with the text of further tokens; flag = a later call gives an explicit end."""
    grown = set()
    for st in ast.walk(fn):
        if isinstance(st, ast.AugAssign) and isinstance(st.op, ast.Add) and isinstance(st.target, ast.Name) and any(
            (isinstance(x, ast.Attribute) and norm(x.value) in ("self._prev", "self._curr") and x.attr == "text") or (isinstance(x, ast.Call) and norm(x.func) == "self._find_sql")
            for x in ast.walk(st.value)
        ):
            grown.add(st.target.id)
    out = []
    for c in ast.walk(fn):
        if not (isinstance(c, ast.Call) and isinstance(c.func, ast.Attribute) and c.func.attr == "update_positions" and isinstance(c.func.value, ast.Call)
                and norm(c.func.value.func).split(".")[-1] == "Identifier"):
            continue
        ctor = c.func.value
        name_arg = next((k.value for k in ctor.keywords if k.arg == "this"), ctor.args[0] if ctor.args else None)
        if not (isinstance(name_arg, ast.Name) and name_arg.id in grown):
            continue
        explicit_here = any(k.arg == "end" for k in c.keywords)
        # the statement `T = Identifier(...).update_positions(first)` and the statements that follow it in the same block
        later_explicit = False
        for blk in ast.walk(fn):
            for fld in ("body", "orelse", "finalbody"):
                seq = getattr(blk, fld, None)
                if not isinstance(seq, list):
                    continue
                for i, st in enumerate(seq):
                    if isinstance(st, ast.Assign) and st.value is c and len(st.targets) == 1 and isinstance(st.targets[0], ast.Name):
                        tname = st.targets[0].id
                        for later in seq[i + 1:]:
                            for x in ast.walk(later):
                                if isinstance(x, ast.Call) and isinstance(x.func, ast.Attribute) and x.func.attr == "update_positions" and norm(x.func.value) == tname \
                                        and any(k.arg == "end" for k in x.keywords):
                                    later_explicit = True
        out.append((c, name_arg.id, explicit_here or later_explicit))
    return out


def rule_m(ctx: Ctx) -> None:
    ctx.rule("C13.m", "a name merged from several tokens records the span of all of them: when a parser builds an Identifier from a text that it extended with the text of further "
                      "tokens (`name += self._prev.text` / `self._find_sql(...)`) and copies the positions of the first fragment, it also states the end of the last one "
                      "(update_positions(..., end=...)) — otherwise meta start/end select only the first fragment of the name")
    probe = ast.parse("def f(self, this):\n    n = this.name\n    n += self._prev.text\n    return exp.Identifier(this=n).update_positions(this)\n").body[0]
    ctx.require(len(_merged_name_sites(probe)) == 1 and not _merged_name_sites(probe)[0][2], "positive control failed: merged name site not recognised")
    n = 0
    for m in ctx.repo.modules.values():
        if not (m.name == "sqlglot.parser" or m.name.startswith("sqlglot.parsers.")):
            continue
        for f in m.funcs.values():
            if ".<locals>." in f.qualname:
                continue
            for c, var, ok in _merged_name_sites(f.node):
                n += 1
                if ok:
                    ctx.ok(f"{f.key}|{norm(c, 70)}", {"merged_text": var, "end": "explicit"})
                else:
                    ctx.fail(m, c, f.key, c, f"`{norm(c, 80)}`: `{var}` was extended with the text of further tokens, but the identifier takes line / col / start / end from the first "
                                             f"fragment only: the recorded span does not select the whole name")
    ctx.count("merged_name_sites", n)
    ctx.min_instances("merged_name_sites", n, 2)


def _shared_position_loops(tree: ast.AST) -> list[tuple[ast.For, ast.Call]]:
    """`for part in (...): part.update_positions(E)` where E does not depend on the loop variable: every part gets the span of one node."""
    out = []
    for lp in ast.walk(tree):
        if not (isinstance(lp, ast.For) and isinstance(lp.target, ast.Name)):
            continue
        v = lp.target.id
        for c in ast.walk(lp):
            if isinstance(c, ast.Call) and isinstance(c.func, ast.Attribute) and c.func.attr == "update_positions" and isinstance(c.func.value, ast.Name) and c.func.value.id == v \
                    and c.args and not any(isinstance(x, ast.Name) and x.id == v for a in c.args for x in ast.walk(a)):
                out.append((lp, c))
    return out


def rule_n(ctx: Ctx) -> None:
    ctx.rule("C13.n", "several identifiers do not share one recorded span: a loop that stamps each of several rebuilt identifiers with update_positions(<node>) chooses the node per "
                      "identifier (the argument depends on the loop variable) — with one loop-invariant node every part claims the text of that node, e.g. the `region` of "
                      "region.`INFORMATION_SCHEMA.X` pointing at the quoted name")
    ctx.require(len(_shared_position_loops(ast.parse("for part in (a, b):\n    part.update_positions(table.this)\n"))) == 1, "positive control failed")
    ctx.require(len(_shared_position_loops(ast.parse("for part in (a, b):\n    part.update_positions(written.get(part.name, table.this))\n"))) == 0, "negative control failed")
    n = 0
    for m in ctx.repo.modules.values():
        if not (m.name == "sqlglot.parser" or m.name.startswith("sqlglot.parsers.")):
            continue
        loops = [lp for lp in m.of_type(ast.For) if any(isinstance(c, ast.Call) and isinstance(c.func, ast.Attribute) and c.func.attr == "update_positions" for c in ast.walk(lp))]
        n += len(loops)
        bad = _shared_position_loops(m.tree)
        flagged = {id(lp) for lp, _ in bad}
        for lp in loops:
            if id(lp) not in flagged:
                f = m.enclosing_func(lp)
                ctx.ok(f"{f.key if f else m.name}|positions chosen per identifier in `for {norm(lp.target)} in {norm(lp.iter, 40)}`", None)
        for lp, c in bad:
            f = m.enclosing_func(c)
            ctx.fail(m, c, f.key if f else m.name, c, f"`{norm(c, 70)}` stamps every `{norm(lp.target)}` of the loop with the positions of the same node: identifiers that were written on their "
                                                      f"own in the source then claim the text of that node instead of their own")
    ctx.count("position_stamping_loops", n)
    ctx.min_instances("position_stamping_loops", n, 1)


RULES = [rule_a, rule_b, rule_c, rule_d, rule_e, rule_f, rule_g, rule_h, rule_i, rule_j, rule_k, rule_l, rule_m, rule_n]
EXPLANATION = (
    "Representation invariants of the scanner cursor checked symbolically on every block that writes _current (linear "
    "normal form of offsets with local resolution, so the str.find and alnum fast paths are covered), the token stamp, "
    "the inclusive-end convention at each consumer (slices, adjacency, highlighting, TokenError) and same-token error "
    "reporting. A one-off in a fast path or consumer breaks one of the symbolic equalities. Does not decide tiling."
)
ASSUMPTIONS = [
    "cursor fields are written only as self._current/_end/_char/_peek/_col/_line in TokenizerCore methods",
    "size names: self.size, size, sql_size",
]
