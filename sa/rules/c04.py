"""C04 – Quoting of strings, identifiers and comments is lossless and inescapable.

Writer/reader table agreement for all dialect classes (tables from import introspection;
the reader's acceptance conditions mirror TokenizerCore._extract_string, each predicate
tied to the branch it encodes), plus emitter funnels:

  R1  the generator's escaped quote (STRING_ESCAPES[0] + QUOTE_END) is accepted by the reader
      as an escaped delimiter and is not hijacked by an unescape sequence.
  R2  every reader escape character that is not a quote char is itself escaped by the writer
      (otherwise text ending in it swallows the closing quote).
  R3  every writer escape sequence decodes back to its character and begins with a reader
      escape; no unescape sequence starts with an unescaped reader escape.
  R4  identifiers: every IDENTIFIER_ESCAPES char (other than the closing delimiter) is escaped
      by identifier_sql and decodes back; the doubled closing delimiter is accepted.
  R5  emitter funnel: overrides of literal_sql / identifier_sql / escape_str /
      sanitize_comment / maybe_comment delegate to the base on every return path; no
      TRANSFORMS entry replaces the Literal / Identifier emitters.
  R6  comments = C07.c (block comments only, sanitised) — evaluated here as well.
  R8  delegating dialects (Athena): the first-pass tokenizer's escape characters are escaped by each
      delegate writer (Hive / Trino generators).
  R7  the reader shape the predicates mirror is still there (anchor conditions of
      _extract_string / _scan_identifier / Generator.__init__).
Does not decide: byte/raw/national/heredoc kinds, UNICODE escapes, the full "for all v" trip.
"""

from __future__ import annotations

import ast

from ..core import Ctx, call_name, is_self_attr, norm, walk_no_nested
from ..facts import facts
from . import c07

GEN = "sqlglot.generator"
TC = "sqlglot.tokenizer_core"


def rule_tables(ctx: Ctx) -> None:
    fx = facts(ctx.repo)
    ctx.rule("C04.R1", "string literal: generator's escaped quote esc0+QUOTE_END is read back as one quote character")
    ctx.rule("C04.R2", "string literal: each non-quote reader escape char is escaped by the writer (ESCAPED_SEQUENCES applied)")
    ctx.rule("C04.R3", "string literal: writer escape table decodes (UNESCAPED_SEQUENCES[seq] == ch, seq[0] a reader escape); no unescape sequence starts with an unescaped escape char")
    ctx.rule("C04.R4", "identifier: doubled closing delimiter accepted; every other identifier escape char is escaped by identifier_sql and decodes back")
    n = 0
    # how identifier_sql escapes characters (per generator class, resolved through the AST MRO)
    ident_rules: dict[str, list[tuple[str, str, str | None]]] = {}

    def ident_replacements(gen_key: str) -> list[tuple[str, str, str | None]]:
        """[(char, replacement, guard attribute or None)] for constant-char replaces in the resolved identifier_sql."""
        if gen_key in ident_rules:
            return ident_rules[gen_key]
        mod, qn = gen_key.split(":")
        out: list[tuple[str, str, str | None]] = []
        c = ctx.repo.modules.get(mod).classes.get(qn) if ctx.repo.modules.get(mod) else None
        if c is not None:
            chain = []
            r = ctx.repo.lookup_method(c, "identifier_sql")
            while r is not None:
                chain.append(r)
                # follow super().identifier_sql
                if any(isinstance(x, ast.Call) and norm(x.func) == "super().identifier_sql" for x in ast.walk(r[1])):
                    nxt = None
                    mro = ctx.repo.mro(r[0])
                    for k in mro[1:]:
                        md = k.methods().get("identifier_sql")
                        if md is not None:
                            nxt = (k, md)
                            break
                    r = nxt
                else:
                    r = None
            for k, md in chain:
                for call in ast.walk(md):
                    if isinstance(call, ast.Call) and isinstance(call.func, ast.Attribute) and call.func.attr == "replace" and len(call.args) == 2:
                        a0, a1 = call.args
                        if isinstance(a0, ast.Constant) and isinstance(a1, ast.Constant) and isinstance(a0.value, str):
                            guard = None
                            p = k.module.parent(call)
                            while p is not None and p is not md:
                                if isinstance(p, ast.If) and is_self_attr(p.test):
                                    guard = p.test.attr
                                p = k.module.parent(p)
                            out.append((a0.value, a1.value, guard))
        ident_rules[gen_key] = out
        return out

    # guard attribute definitions in Generator.__init__: attr -> (char, table)
    init = ctx.repo.func(GEN, "Generator.__init__")
    guard_defs: dict[str, tuple[str, str]] = {}
    for st in walk_no_nested(init.node):
        if isinstance(st, ast.Assign) and len(st.targets) == 1 and is_self_attr(st.targets[0]) and isinstance(st.value, ast.Compare):
            cmp_ = st.value
            if len(cmp_.ops) == 1 and isinstance(cmp_.ops[0], ast.In) and isinstance(cmp_.left, ast.Constant) and isinstance(cmp_.comparators[0], ast.Attribute):
                guard_defs[st.targets[0].attr] = (cmp_.left.value, cmp_.comparators[0].attr)

    for name, d in sorted(fx["dialects"].items()):
        dn = name or "base"
        t, a = d["tok"], d["attrs"]
        Q, QS = a["QUOTE_END"], a["QUOTE_START"]
        ESC = list(t["STRING_ESCAPES"])
        QU = set(t["_QUOTES"])
        SUP = a["STRINGS_SUPPORT_ESCAPED_SEQUENCES"]
        ES = a["ESCAPED_SEQUENCES"] or {}
        UN = a["UNESCAPED_SEQUENCES"] or {}
        n += 1
        # ---- R1
        ctx._cur_rule = "C04.R1"
        if not ESC:
            ctx.fail(None, None, d["class"], f"{dn}: STRING_ESCAPES == []", f"dialect {dn}: no string escape character: a quote inside a string literal cannot be represented")
        elif len(Q) != 1 or QS != Q:
            ctx.ok(f"{dn}|multi-char or asymmetric quote {QS!r}/{Q!r}: not decided", None)
        else:
            esc0 = ESC[0]
            problems = []
            if esc0 not in ESC:
                problems.append("esc0 not a reader escape")
            # branch condition: (self._char not in quotes or self._char == self._peek)
            if esc0 in QU and esc0 != Q:
                problems.append(f"escape char {esc0!r} is a quote char different from the delimiter, so the reader's `(char not in quotes or char == peek)` test rejects {esc0 + Q!r}")
            # UN step runs first: `unescaped_sequences.get(char + peek)` when char in escapes
            hij = UN.get(esc0 + Q) if UN else None
            if hij is not None and hij != Q:
                problems.append(f"UNESCAPED_SEQUENCES maps {esc0 + Q!r} to {hij!r}")
            # writer replaces Q by esc0+Q *after* applying ESCAPED_SEQUENCES: if esc0 is not the quote itself it must be escaped by ES
            if esc0 != Q and not (SUP and esc0 in ES):
                problems.append(f"escape char {esc0!r} is not itself escaped by the writer (text ending in {esc0!r} would escape the closing quote)")
            if problems:
                ctx.fail(None, None, d["class"], f"{dn}: escaped quote {esc0 + Q!r}", f"dialect {dn}: " + "; ".join(problems))
            else:
                ctx.ok(f"{dn}|escaped quote {esc0 + Q!r} accepted", {"dialect": dn, "esc0": esc0, "quote": Q})
        # ---- R2
        ctx._cur_rule = "C04.R2"
        for c in ESC:
            if c == Q or c in QU:
                # quote chars as escapes only act when doubled (char == peek) and then emit both chars or the delimiter
                ctx.ok(f"{dn}|escape {c!r} is a quote char", None)
                continue
            if SUP and c in ES:
                ctx.ok(f"{dn}|escape {c!r} written as {ES[c]!r}", {"dialect": dn, "escape": c, "written_as": ES[c]})
            else:
                ctx.fail(None, None, d["class"], f"{dn}: reader escape {c!r} not escaped by the writer",
                         f"dialect {dn}: the tokenizer treats {c!r} as a string escape but the generator emits it verbatim "
                         f"(STRINGS_SUPPORT_ESCAPED_SEQUENCES={SUP}, ESCAPED_SEQUENCES has no entry): a string ending in {c!r} swallows its closing quote")
        # ---- R3
        ctx._cur_rule = "C04.R3"
        if SUP:
            for ch, seq in ES.items():
                ok = UN.get(seq) == ch and len(seq) == 2 and seq[0] in ESC
                if ok:
                    ctx.ok(f"{dn}|{ch!r}->{seq!r}", None)
                else:
                    ctx.fail(None, None, d["class"], f"{dn}: ESCAPED_SEQUENCES[{ch!r}] = {seq!r}",
                             f"dialect {dn}: the generator writes {ch!r} as {seq!r} but the tokenizer decodes that as {UN.get(seq)!r} (escape char {seq[:1]!r} in STRING_ESCAPES: {seq[:1] in ESC})")
            for seq, ch in UN.items():
                if seq[:1] in ESC and seq[:1] not in ES and seq[:1] != Q:
                    ctx.fail(None, None, d["class"], f"{dn}: UNESCAPED_SEQUENCES[{seq!r}]",
                             f"dialect {dn}: text containing {seq!r} literally is decoded to {ch!r} because {seq[:1]!r} is not escaped by the writer")
            ctx.ok(f"{dn}|{len(ES)} writer sequences decodable", {"dialect": dn, "sequences": len(ES)})
        else:
            ctx.ok(f"{dn}|no escape sequences written (backslash is not a string escape)", None)
        # ---- R4
        ctx._cur_rule = "C04.R4"
        IE = list(t["IDENTIFIER_ESCAPES"])
        Iend = a["IDENTIFIER_END"]
        if len(Iend) != 1:
            ctx.fail(None, None, d["class"], f"{dn}: IDENTIFIER_END {Iend!r}", "multi-character identifier delimiter is not handled by identifier_sql's doubling")
        else:
            # doubled delimiter: reader escapes = identifier_escapes | {identifier_end}; branch needs (char not in quotes or char == peek): char == peek holds
            ctx.ok(f"{dn}|doubled {Iend!r} accepted", {"dialect": dn, "identifier_end": Iend})
        reps = ident_replacements(d["generator_class"])
        for c in IE:
            if c == Iend:
                continue
            # writer side
            hit = [(ch, rep, g) for ch, rep, g in reps if ch == c]
            active = []
            for ch, rep, g in hit:
                if g is None:
                    active.append(rep)
                elif g in guard_defs and guard_defs[g] == (c, "IDENTIFIER_ESCAPES"):
                    active.append(rep)  # flag is `c in tokenizer.IDENTIFIER_ESCAPES`, true for this dialect
            if not active:
                ctx.fail(None, None, d["class"], f"{dn}: IDENTIFIER_ESCAPES contains {c!r}",
                         f"dialect {dn}: the tokenizer treats {c!r} as an escape inside quoted identifiers but identifier_sql emits it verbatim: "
                         f"an identifier ending in {c!r} (or containing {c + Iend!r}) terminates its own quoting and the rest of the name becomes SQL")
                continue
            rep = active[0]
            # reader side: decode of rep back to c. Step 1 (unescape table) applies because c is in the identifier escapes.
            if UN.get(rep) == c or (rep == c + c and UN.get(c + c) == c):
                ctx.ok(f"{dn}|identifier escape {c!r} written as {rep!r} and decoded", {"dialect": dn, "escape": c, "written_as": rep})
            else:
                ctx.fail(None, None, d["class"], f"{dn}: identifier escape {c!r} -> {rep!r}",
                         f"dialect {dn}: identifier_sql writes {c!r} as {rep!r} but the tokenizer does not decode that back to {c!r} (UNESCAPED_SEQUENCES.get({rep!r}) = {UN.get(rep)!r})")
    for r in ("C04.R1", "C04.R2", "C04.R3", "C04.R4"):
        ctx.count("dialects", n, r)
    ctx._cur_rule = "C04.R1"
    ctx.min_instances("dialects", n, 30)


def rule_anchor(ctx: Ctx) -> None:
    ctx.rule("C04.R7", "anchors: the reader/writer shapes that R1-R4 mirror are still present in _extract_string, _scan_identifier, Generator.__init__ / escape_str / identifier_sql")
    repo = ctx.repo
    es = repo.func(TC, "TokenizerCore._extract_string")
    src = norm(es.node, 100000)
    need = {
        "unescape first": "unescaped_sequences.get(self._char + self._peek)",
        "escape branch: char in escapes": "self._char in escapes",
        "escape branch: quote rule": "(self._char not in quotes or self._char == self._peek)",
        "escaped delimiter": "escaped_delimiter = self._peek == delimiter",
    }
    for k, frag in need.items():
        # structural presence of the condition (normalised unparse of the sub-expression)
        found = any(norm(x, 400) == frag or frag in norm(x, 400) for x in ast.walk(es.node) if isinstance(x, (ast.Compare, ast.BoolOp, ast.Call, ast.Assign)))
        if found:
            ctx.ok(f"{es.key}|{k}")
        else:
            ctx.fail(es.module, es.node, es.key, k, f"the reader condition `{frag}` that the table predicates mirror is gone from _extract_string: re-derive rules R1-R4")
    si = repo.func(TC, "TokenizerCore._scan_identifier")
    if any(isinstance(c, ast.Call) and call_name(c) == "self._extract_string" and any(kw.arg == "escapes" and norm(kw.value) == "self.identifier_escapes | {identifier_end}" for kw in c.keywords) for c in ast.walk(si.node)):
        ctx.ok(f"{si.key}|escapes = identifier_escapes | {{identifier_end}}")
    else:
        ctx.fail(si.module, si.node, si.key, "_extract_string(identifier_end, escapes=self.identifier_escapes | {identifier_end})", "_scan_identifier no longer accepts the doubled closing delimiter as an escape")
    init = repo.func(GEN, "Generator.__init__")
    want = {
        "_escaped_quote_end": "self.dialect.tokenizer_class.STRING_ESCAPES[0] + self.dialect.QUOTE_END",
        "_escaped_identifier_end": "self.dialect.IDENTIFIER_END * 2",
    }
    for attr, val in want.items():
        sts = [st for st in walk_no_nested(init.node) if isinstance(st, (ast.Assign, ast.AnnAssign)) and is_self_attr(st.targets[0] if isinstance(st, ast.Assign) else st.target, attr)]
        if sts and norm(sts[-1].value) == val:
            ctx.ok(f"{init.key}|{attr} = {val}")
        else:
            ctx.fail(init.module, init.node, init.key, f"self.{attr}", f"Generator.{attr} is no longer {val}")
    esc = repo.func(GEN, "Generator.escape_str")
    rets = [r for r in walk_no_nested(esc.node) if isinstance(r, ast.Return)]
    if len(rets) == 1 and norm(rets[0].value) == "self._replace_line_breaks(text).replace(delimiter, escaped_delimiter)":
        ctx.ok(f"{esc.key}|escapes the delimiter last")
    else:
        ctx.fail(esc.module, esc.node, esc.key, "return ...replace(delimiter, escaped_delimiter)", "escape_str no longer ends by escaping the delimiter")
    if any("self.dialect.ESCAPED_SEQUENCES.get(ch, ch)" in norm(x, 300) for x in ast.walk(esc.node) if isinstance(x, ast.IfExp)):
        ctx.ok(f"{esc.key}|applies ESCAPED_SEQUENCES per character")
    else:
        ctx.fail(esc.module, esc.node, esc.key, "ESCAPED_SEQUENCES.get(ch, ch)", "escape_str no longer applies the dialect's ESCAPED_SEQUENCES")
    lit = repo.func(GEN, "Generator.literal_sql")
    if any(isinstance(x, ast.JoinedStr) and norm(x) == "f'{self.dialect.QUOTE_START}{self.escape_str(text)}{self.dialect.QUOTE_END}'" for x in ast.walk(lit.node)):
        ctx.ok(f"{lit.key}|QUOTE_START + escape_str(text) + QUOTE_END")
    else:
        ctx.fail(lit.module, lit.node, lit.key, "f'{QUOTE_START}{escape_str(text)}{QUOTE_END}'", "literal_sql no longer wraps escape_str(text) in the dialect's quotes")
    ident = repo.func(GEN, "Generator.identifier_sql")
    if any(isinstance(c, ast.Call) and norm(c) == "text.replace(self._identifier_end, self._escaped_identifier_end)" for c in ast.walk(ident.node)):
        ctx.ok(f"{ident.key}|doubles the closing delimiter")
    else:
        ctx.fail(ident.module, ident.node, ident.key, "text.replace(self._identifier_end, self._escaped_identifier_end)", "identifier_sql no longer doubles the closing delimiter inside the name")
    # the doubling must apply on every path that adds the delimiters: the replace precedes the quoting `if`
    body = ident.node.body
    idx_rep = next((i for i, st in enumerate(body) if isinstance(st, ast.Assign) and "self._escaped_identifier_end" in norm(st.value, 300)), None)
    idx_quote = next((i for i, st in enumerate(body) if isinstance(st, ast.If) and "self._identifier_start" in norm(st, 600)), None)
    if idx_rep is not None and idx_quote is not None and idx_rep < idx_quote:
        ctx.ok(f"{ident.key}|escaping precedes quoting")
    else:
        ctx.fail(ident.module, ident.node, ident.key, "escape before quoting", "identifier text is quoted before (or without) being escaped on some path: the doubling of the closing delimiter must be an unconditional statement preceding the quoting")


def rule_funnel(ctx: Ctx) -> None:
    ctx.rule("C04.R5", "emitter funnel: overrides of literal_sql/identifier_sql/escape_str/sanitize_comment/maybe_comment delegate to the base on every return path; no TRANSFORMS entry for Literal/Identifier")
    repo = ctx.repo
    g = repo.cls(GEN, "Generator")
    names = ("literal_sql", "identifier_sql", "escape_str", "sanitize_comment", "maybe_comment")
    n = 0
    for c in repo.subclasses(g):
        for name in names:
            md = c.methods().get(name)
            if md is None:
                continue
            n += 1
            where = f"{c.key}.{name}"
            # a local bound from super().name(...) counts as delegation
            delegated_locals = {
                st.targets[0].id for st in walk_no_nested(md)
                if isinstance(st, ast.Assign) and len(st.targets) == 1 and isinstance(st.targets[0], ast.Name)
                and any(isinstance(x, ast.Call) and norm(x.func) == f"super().{name}" for x in ast.walk(st.value))
            }
            bad = None
            for r in walk_no_nested(md):
                if isinstance(r, ast.Return):
                    v = r.value
                    ok = v is not None and (
                        any(isinstance(x, ast.Call) and norm(x.func) == f"super().{name}" for x in ast.walk(v))
                        or any(isinstance(x, ast.Name) and x.id in delegated_locals for x in ast.walk(v))
                    )
                    if not ok:
                        bad = r
            if bad is None:
                ctx.ok(where, {"override": where, "delegates": True})
            else:
                ctx.fail(c.module, bad, where, bad, f"{name} override returns text that does not come from the base implementation: escaping of the dialect's delimiters is bypassed")
        # TRANSFORMS entries
        tr = c.body_assigns().get("TRANSFORMS")
        if isinstance(tr, ast.Dict):
            for k in tr.keys:
                if k is not None and norm(k) in ("exp.Literal", "exp.Identifier"):
                    ctx.fail(c.module, k, f"{c.key}.TRANSFORMS", norm(k), "a TRANSFORMS entry replaces the base emitter of string literals / identifiers")
    ctx.count("overrides", n)
    # handler facts (S2): Literal/Identifier are dispatched to literal_sql/identifier_sql methods for every generator class
    fx = facts(repo)
    for gk, handled in fx["gen_handlers"].items():
        for cls_name, meth in (("Literal", "literal_sql"), ("Identifier", "identifier_sql")):
            h = handled.get(cls_name, "")
            if h.startswith("method:") and h.endswith("." + meth):
                ctx.ok(f"{gk}|{cls_name} -> {meth}")
            else:
                ctx.fail(None, None, gk, f"{cls_name} handled by {h}", f"generator {gk} does not dispatch {cls_name} to {meth}")
    ctx.count("generator_classes", len(fx["gen_handlers"]))
    ctx.min_instances("generator_classes", len(fx["gen_handlers"]), 30)


def rule_delegation(ctx: Ctx) -> None:
    ctx.rule(
        "C04.R8",
        "delegating dialects: when a dialect's generator hands generation to other dialects' generators, every string/identifier escape "
        "character of the dialect's own (first-pass) tokenizer is escaped by each delegate writer",
    )
    repo = ctx.repo
    fx = facts(repo)
    g = repo.cls(GEN, "Generator")
    n = 0
    for c in repo.subclasses(g):
        gen = c.methods().get("generate")
        init = c.methods().get("__init__")
        if gen is None or init is None:
            continue
        delegates = sorted({
            x.func.value.attr for x in walk_no_nested(gen)
            if isinstance(x, ast.Call) and isinstance(x.func, ast.Attribute) and x.func.attr == "generate" and is_self_attr(x.func.value)
        })
        if not delegates:
            continue
        # which dialects use this generator class?
        users = [dn for dn, d in fx["dialects"].items() if d["generator_class"] == c.key]
        for attr in delegates:
            ctor = next((st.value for st in walk_no_nested(init) if isinstance(st, (ast.Assign, ast.AnnAssign)) and is_self_attr(st.targets[0] if isinstance(st, ast.Assign) else st.target, attr) and isinstance(st.value, ast.Call)), None)
            wname = None
            if ctor is not None:
                dv = next((kw.value for kw in ctor.keywords if kw.arg == "dialect"), None)
                exprs = [dv] if dv is not None else []
                if isinstance(dv, ast.Name):
                    exprs = [st.value for st in walk_no_nested(init) if isinstance(st, ast.Assign) and len(st.targets) == 1 and norm(st.targets[0]) == dv.id]
                for e in exprs:
                    for x in ast.walk(e):
                        if isinstance(x, ast.Call):
                            nm = (call_name(x) or "").split(".")[-1]
                            if nm[:1].isupper() and nm.lower() in fx["dialects"]:
                                wname = nm.lower()
            if wname is None:
                ctx.fail(c.module, init, f"{c.key}.__init__", f"self.{attr}", f"cannot determine which dialect the delegate generator self.{attr} writes for")
                continue
            W = fx["dialects"][wname]
            for dn in users:
                D = fx["dialects"][dn]
                t = D["tok"]
                QU = set(t["_QUOTES"])
                for cch in t["STRING_ESCAPES"]:
                    if cch in QU:
                        continue
                    n += 1
                    wa = W["attrs"]
                    if wa["STRINGS_SUPPORT_ESCAPED_SEQUENCES"] and cch in (wa["ESCAPED_SEQUENCES"] or {}):
                        ctx.ok(f"{dn} via {wname}|string escape {cch!r} escaped by the delegate writer", {"dialect": dn, "delegate": wname, "escape": cch})
                    else:
                        ctx.fail(None, None, D["class"], f"{dn}: tokenizer string escape {cch!r} vs delegate writer {wname}",
                                 f"dialect {dn} tokenizes its input first with its own tokenizer, which treats {cch!r} as a string escape, but SQL generated for it "
                                 f"by the {wname} generator leaves {cch!r} verbatim: a string literal ending in {cch!r} does not lex back (unterminated string)")
                Iend = W["attrs"]["IDENTIFIER_END"]
                for cch in t["IDENTIFIER_ESCAPES"]:
                    if cch == Iend:
                        continue
                    n += 1
                    ctx.fail(None, None, D["class"], f"{dn}: tokenizer identifier escape {cch!r} vs delegate writer {wname}",
                             f"dialect {dn}'s tokenizer treats {cch!r} as an identifier escape; the delegate writer {wname} is not known to escape it")
    ctx.count("delegate_escape_obligations", n)
    ctx.min_instances("delegate_escape_obligations", n, 1)


def rule_comments(ctx: Ctx) -> None:
    c07.rule_c(ctx)
    ctx.rules["C04.R6"] = ctx.rules.pop("C07.c")
    ctx.analysed["C04.R6"] = ctx.analysed.pop("C07.c", {})
    for f in ctx.findings:
        if f.rule == "C07.c":
            f.rule = "C04.R6"
    ctx.instances = {i.replace("C07.c|", "C04.R6|") for i in ctx.instances}
    for s in ctx.samples:
        if s.get("rule") == "C07.c":
            s["rule"] = "C04.R6"


# (module:qualname, normalised interpolated value) -> reason raw text inside quotes cannot carry a quote
REVIEWED_RAW_QUOTED: dict[tuple[str, str], str] = {
    ("sqlglot.generators.duckdb:DuckDBGenerator.numbertostr_sql", "fmt.name"):
        "guarded by `fmt.is_int` in the same statement's condition: the text is an integer literal (digits only)",
}


def _quoted_interpolations(js: ast.JoinedStr) -> list[ast.AST]:
    """values interpolated while the f-string's constant text has an odd number of single quotes open"""
    out = []
    open_ = False
    for v in js.values:
        if isinstance(v, ast.Constant) and isinstance(v.value, str):
            if v.value.count("'") % 2 == 1:
                open_ = not open_
        elif isinstance(v, ast.FormattedValue) and open_:
            out.append(v.value)
    return out


def rule_raw_quotes(ctx: Ctx) -> None:
    ctx.rule(
        "C04.R9",
        "no raw text between hand-written quotes: in generator code an f-string that opens a single quote and interpolates a value inside it must interpolate an "
        "escaped value (escape_str / an explicit quote replacement), rendered SQL of a non-text node, or a constant — raw node text (.name / .this / .text() / "
        "args.get) between literal quotes lets the value terminate its own quoting",
    )
    repo = ctx.repo
    mods = [m for n, m in repo.modules.items() if (n == "sqlglot.generator" or n.startswith("sqlglot.generators.") or n == "sqlglot.dialects.dialect") and n != "sqlglot.generators.python"]
    MSG_CALLS = ("unsupported", "warning", "error", "debug", "info", "raise_error")
    n = 0
    for m in mods:
        for js in m.of_type(ast.JoinedStr):
            vals = _quoted_interpolations(js)
            if not vals:
                continue
            # messages are not SQL
            p_ = m.parent(js)
            in_msg = False
            while p_ is not None and not isinstance(p_, ast.stmt):
                if isinstance(p_, ast.Call) and ((call_name(p_) or "").split(".")[-1] in MSG_CALLS or (call_name(p_) or "").endswith(("Error", "Warning"))):
                    in_msg = True
                p_ = m.parent(p_)
            st = m.enclosing_stmt(js)
            if in_msg or isinstance(st, ast.Raise):
                continue
            f = m.enclosing_func(js)
            c = m.enclosing_class(js)
            where = f.key if f else (c.key if c else m.name)
            binds: dict[str, list[ast.AST]] = {}
            if f is not None:
                for a_ in walk_no_nested(f.node):
                    if isinstance(a_, ast.Assign) and len(a_.targets) == 1 and isinstance(a_.targets[0], ast.Name):
                        binds.setdefault(a_.targets[0].id, []).append(a_.value)

            def classify(e: ast.AST, depth: int = 0) -> str:
                """escaped | sql | const | raw | unknown"""
                if isinstance(e, ast.Constant):
                    return "const"
                if isinstance(e, ast.Call):
                    cn = call_name(e) or ""
                    last = cn.split(".")[-1] if cn else (e.func.attr if isinstance(e.func, ast.Attribute) else "")
                    if last in ("escape_str", "_replace_line_breaks"):
                        return "escaped"
                    if last == "replace" and e.args and isinstance(e.args[0], ast.Constant) and "'" in str(e.args[0].value):
                        return "escaped"
                    if last in ("sql", "expressions", "func", "format_time", "format_args", "json_path_part", "no_identify"):
                        return "sql"
                    if last in ("text",):
                        return "raw"
                    if last in ("lower", "upper", "strip", "replace", "format", "get", "join") and isinstance(e.func, ast.Attribute):
                        inner = classify(e.func.value, depth + 1)
                        if last == "get":
                            return "raw"
                        return inner
                    return "unknown"
                if isinstance(e, ast.Attribute) and e.attr in ("name", "this", "alias", "alias_or_name", "value", "output_name"):
                    return "raw"
                if isinstance(e, ast.Name) and e.id in binds and depth < 3:
                    # the binding that textually precedes the f-string most closely
                    prev = [b_ for b_ in binds[e.id] if b_.lineno <= js.lineno]
                    if prev:
                        return classify(max(prev, key=lambda b_: (b_.lineno, b_.col_offset)), depth + 1)
                    return "unknown"
                if isinstance(e, ast.IfExp):
                    ks = {classify(e.body, depth + 1), classify(e.orelse, depth + 1)}
                    for k_ in ("raw", "unknown", "sql", "escaped", "const"):
                        if k_ in ks:
                            return k_
                if isinstance(e, ast.BoolOp):
                    ks = {classify(v_, depth + 1) for v_ in e.values}
                    return "raw" if "raw" in ks else sorted(ks)[0]
                return "unknown"

            for v in vals:
                n += 1
                kind = classify(v)
                inst = f"{where}|{norm(js, 70)}|{norm(v, 40)}"
                if kind in ("escaped", "const"):
                    ctx.ok(inst, {"value": norm(v, 40), "kind": kind})
                elif kind == "raw":
                    if (where, norm(v, 40)) in REVIEWED_RAW_QUOTED:
                        ctx.ok(inst, {"value": norm(v, 40), "reviewed": REVIEWED_RAW_QUOTED[(where, norm(v, 40))]})
                    else:
                        ctx.fail(m, js, where, f"{norm(js, 70)}",
                                 f"`{norm(v, 40)}` is raw node text placed between hand-written single quotes: a value containing a quote ends the literal early "
                                 f"(the rest is read as SQL) — pass it through self.escape_str(...) or build a Literal")
                else:
                    ctx.ok(inst, {"value": norm(v, 40), "kind": kind, "decided": kind == "sql"})
    ctx.count("quoted_interpolations", n)
    ctx.min_instances("quoted_interpolations", n, 8)


ALIAS_TEXT = {"alias_or_name", "alias", "output_name"}
REVIEWED_REBUILT_IDENTIFIERS: dict[tuple[str, str], str] = {
    ("sqlglot.generator:Generator._update_from_joins_sql", "exp.to_identifier(target_table.alias_or_name)"):
        "reached only for dialects without UPDATE ... FROM (the MySQL family), whose generators quote reserved words themselves and do not fold case: probed with tables named "
        "\"select\", \"from\" and \"Tbl\" — the qualifier is written `select` / `from` / Tbl and re-parses to the same name",
    ("sqlglot.generator:Generator.pivotalias_sql", "exp.to_identifier(alias.output_name)"):
        "under `literal_alias`: the alias is a string literal there, not an identifier, so there is no quoted flag to carry; to_identifier quotes unsafe text itself",
}


def rule_rebuilt_identifiers(ctx: Ctx) -> None:
    ctx.rule("C04.R10", "an identifier rebuilt from another identifier's text keeps its quoting: in generator-time code (generator modules, transforms, dialect helpers) a call of "
                        "exp.column / exp.to_identifier / exp.Identifier whose name argument is the alias text of an existing node (<node>.alias_or_name / .alias / .output_name, "
                        "directly or through a local) passes `quoted=` — without it the quoting is re-derived from the characters alone and a reserved word or a case-sensitive "
                        "name is written bare, i.e. as a different token")
    BUILDERS = {"exp.column", "exp.to_identifier", "exp.Identifier", "to_identifier", "column"}
    probe = ast.parse("def f(e):\n    n = e.alias_or_name\n    return exp.column(n)\n").body[0]

    def scan(fn: ast.AST) -> list[tuple[ast.Call, ast.AST]]:
        local: dict[str, ast.AST] = {}
        for st in ast.walk(fn):
            if isinstance(st, ast.Assign) and len(st.targets) == 1 and isinstance(st.targets[0], ast.Name) and isinstance(st.value, ast.Attribute) and st.value.attr in ALIAS_TEXT:
                local.setdefault(st.targets[0].id, st.value)
        out = []
        for c in ast.walk(fn):
            if isinstance(c, ast.Call) and norm(c.func) in BUILDERS:
                args = list(c.args[:1]) + [k.value for k in c.keywords if k.arg in ("this", "col", "name")]
                if not args:
                    continue
                a = args[0]
                src = a if isinstance(a, ast.Attribute) and a.attr in ALIAS_TEXT else local.get(a.id) if isinstance(a, ast.Name) else None
                if src is not None:
                    out.append((c, src))
        return out

    ctx.require(len(scan(probe)) == 1, "positive control failed: identifier rebuilt from alias text not recognised")
    n = 0
    for f in ctx.repo.all_funcs():
        m = f.module
        if not (m.name.startswith(("sqlglot.generator", "sqlglot.generators.")) or m.name in ("sqlglot.transforms", "sqlglot.dialects.dialect")):
            continue
        if ".<locals>." in f.qualname:
            continue  # scanned with the enclosing function
        for c, src in scan(f.node):
            n += 1
            txt = norm(c, 90)
            if any(k.arg == "quoted" for k in c.keywords):
                ctx.ok(f"{f.key}|{txt}", {"call": txt, "quoted": "passed"})
            elif (f.key, txt) in REVIEWED_REBUILT_IDENTIFIERS:
                ctx.ok(f"{f.key}|{txt}", {"call": txt, "reviewed": REVIEWED_REBUILT_IDENTIFIERS[(f.key, txt)]})
            else:
                ctx.fail(m, c, f.key, c, f"`{txt}` rebuilds an identifier from `{norm(src)}` without `quoted=`: a quoted reserved word (\"from\") or case-sensitive name (\"MixedCase\") is "
                                         f"written bare by the generator and is read back as a keyword or as a different name")
    ctx.count("identifiers_rebuilt_from_alias_text", n)
    ctx.min_instances("identifiers_rebuilt_from_alias_text", n, 3)


def _safe_re_facts(pattern: str) -> tuple[set[str], bool, bool]:
    """(literal characters the pattern admits besides word characters, anchored at the very end?, recognised?)"""
    import re._parser as sre  # type: ignore[import-not-found]
    import re._constants as sc  # type: ignore[import-not-found]

    extra: set[str] = set()
    end_ok = False
    recognised = True
    parsed = sre.parse(pattern)
    items = list(parsed)
    for op, av in items:
        if op is sc.AT:
            if av is sc.AT_END_STRING:
                end_ok = True
            elif av is sc.AT_END:
                end_ok = False
            continue
        sets = []
        if op is sc.IN:
            sets = [av]
        elif op in (sc.MAX_REPEAT, sc.MIN_REPEAT):
            for op2, av2 in av[2]:
                if op2 is sc.IN:
                    sets.append(av2)
                elif op2 is sc.LITERAL:
                    extra.add(chr(av2))
                else:
                    recognised = False
        elif op is sc.LITERAL:
            extra.add(chr(av))
        else:
            recognised = False
        for st in sets:
            for k, v in st:
                if k is sc.LITERAL:
                    extra.add(chr(v))
                elif k is sc.RANGE:
                    lo, hi = v
                    for ch in range(lo, hi + 1):
                        extra.add(chr(ch))
                elif k is sc.CATEGORY:
                    if v is not sc.CATEGORY_WORD and v is not sc.CATEGORY_DIGIT:
                        recognised = False
                else:
                    recognised = False
    extra = {c for c in extra if not (c.isalnum() or c == "_")}
    return extra, end_ok, recognised


def rule_safe_identifier(ctx: Ctx) -> None:
    ctx.rule("C04.R11", "what the builders call a safe bare word is a bare word for every tokenizer: SAFE_IDENTIFIER_RE (it decides whether to_identifier / exp.column quote a name) "
                        "admits only letters, digits and `_` plus characters that no dialect's tokenizer treats specially (single tokens, keyword symbols, delimiters), and is "
                        "anchored at the very end of the string (`\\Z`, or used with fullmatch) — `$` matches before a trailing line break")
    m = ctx.repo.module("sqlglot.expressions.core")
    pat = None
    node = None
    for st in m.tree.body:
        tg = st.target if isinstance(st, ast.AnnAssign) else st.targets[0] if isinstance(st, ast.Assign) and len(st.targets) == 1 else None
        if isinstance(tg, ast.Name) and tg.id == "SAFE_IDENTIFIER_RE" and isinstance(getattr(st, "value", None), ast.Call) and st.value.args and isinstance(st.value.args[0], ast.Constant):
            pat, node = st.value.args[0].value, st
    ctx.require(isinstance(pat, str), "anchor vanished: SAFE_IDENTIFIER_RE = re.compile(<literal>) in sqlglot/expressions/core.py")
    ctx.require(_safe_re_facts(r"^[_a-zA-Z][\w$]*$")[0] == {"$"} and not _safe_re_facts(r"^[_a-zA-Z][\w]*$")[1] and _safe_re_facts(r"^[_a-zA-Z][\w]*\Z")[1],
                "positive control failed: regex facts")
    extra, end_ok, recognised = _safe_re_facts(pat)
    if not recognised:
        ctx.ok("SAFE_IDENTIFIER_RE|not decided: pattern uses constructs this rule does not model", {"pattern": pat})
        return
    fx = facts(ctx.repo)
    special: dict[str, list[str]] = {}
    for dn, d in fx["dialects"].items():
        tok = d["tok"]
        chars = set()
        for tbl in ("SINGLE_TOKENS", "KEYWORDS"):
            for k in tok.get(tbl) or {}:
                if not k.replace("_", "").replace(" ", "").isalnum():
                    chars |= {c for c in k if not (c.isalnum() or c in "_ ")}
        for tbl in ("_QUOTES", "_IDENTIFIERS", "_COMMENTS", "_FORMAT_STRINGS"):
            v = tok.get(tbl) or {}
            for k, e in v.items():
                for txt in (k, e if isinstance(e, str) else (e[0] if isinstance(e, list) and e and isinstance(e[0], str) else "")):
                    chars |= {c for c in (txt or "") if not (c.isalnum() or c == "_")}
        for c in chars:
            special.setdefault(c, []).append(dn or "base")
    bad = sorted(c for c in extra if c in special)
    if bad:
        for c in bad:
            ctx.fail(m, node, "sqlglot.expressions.core:SAFE_IDENTIFIER_RE", f"SAFE_IDENTIFIER_RE admits {c!r}",
                     f"SAFE_IDENTIFIER_RE = {pat!r} lets {c!r} through as part of a bare word, but the tokenizers of {', '.join(sorted(special[c])[:6])} ... treat it as a token or "
                     f"delimiter of its own: a name containing it is written unquoted and read back as several tokens")
    else:
        ctx.ok("SAFE_IDENTIFIER_RE|alphabet", {"pattern": pat, "extra_characters": sorted(extra)})
    if end_ok:
        ctx.ok("SAFE_IDENTIFIER_RE|anchored at the very end", {"pattern": pat})
    else:
        ctx.fail(m, node, "sqlglot.expressions.core:SAFE_IDENTIFIER_RE", "SAFE_IDENTIFIER_RE is not anchored with \\Z",
                 f"SAFE_IDENTIFIER_RE = {pat!r} is used with .match(): without `\\Z` a name with a trailing line break counts as a safe bare word, is written unquoted and read back without it")


RULES = [rule_anchor, rule_tables, rule_funnel, rule_delegation, rule_comments, rule_raw_quotes, rule_rebuilt_identifiers, rule_safe_identifier]
EXPLANATION = (
    "Writer/reader table agreement decided exhaustively for every dialect class: the generator's escaping tables "
    "(QUOTE_END, STRING_ESCAPES[0], ESCAPED_SEQUENCES, identifier doubling and identifier_sql's constant replacements) "
    "are checked against the tokenizer's acceptance conditions (STRING_ESCAPES, _QUOTES, UNESCAPED_SEQUENCES, "
    "IDENTIFIER_ESCAPES), each predicate mirroring one branch of _extract_string whose presence is itself an anchored "
    "obligation; plus the emitter funnel (overrides delegate, dispatch facts) and block-comment-only emission. A table "
    "edit in any dialect that lets a value terminate its own quoting breaks one of these relations. Does not decide the "
    "full for-all-strings round trip or non-plain literal kinds."
)
ASSUMPTIONS = [
    "importing sqlglot yields the tables used at run time (metaclass-derived QUOTE_*/ESCAPED_SEQUENCES)",
    "the predicates encode _extract_string's branches as read on this tree; rule R7 fails if those branches change",
    "single-character symmetric primary quote and identifier delimiters (others reported as not decided)",
]
