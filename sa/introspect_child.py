"""S2: import-introspection child process.

Run as:  PYTHONPATH=<repo root> /venv/bin/python introspect_child.py <out.json>

Imports sqlglot and all dialect modules and dumps *declarative tables* (class attributes,
MROs, module globals) as JSON. It never calls tokenize / parse / generate / optimize /
execute and holds no SQL input: only import-time code (class bodies, metaclasses) runs.
"""

from __future__ import annotations

import enum
import inspect
import json
import sys
import types


def main(out: str) -> None:
    import sqlglot  # noqa: F401
    from sqlglot import exp, tokens
    from sqlglot.dialects import DIALECT_MODULE_NAMES
    from sqlglot.dialects.dialect import Dialect
    from sqlglot.generator import Generator
    from sqlglot.parser import Parser
    from sqlglot.tokenizer_core import TokenizerCore
    import importlib
    import pkgutil

    # load every module of the package so that globals inventory is complete
    loaded = []
    failed = {}
    for mi in pkgutil.walk_packages(sqlglot.__path__, "sqlglot."):
        if mi.name.endswith("__main__"):
            continue
        try:
            importlib.import_module(mi.name)
            loaded.append(mi.name)
        except Exception as e:  # noqa: BLE001
            failed[mi.name] = f"{type(e).__name__}: {e}"

    def cname(c):
        return f"{c.__module__}:{c.__qualname__}" if isinstance(c, type) else repr(c)

    def tok(t):
        return t.name if isinstance(t, enum.Enum) else str(t)

    def js(v, depth=0):
        """JSON-safe rendering of table values."""
        if isinstance(v, enum.Enum):
            return v.name
        if isinstance(v, type):
            return cname(v)
        if isinstance(v, (str, int, float, bool)) or v is None:
            return v
        if isinstance(v, dict):
            return {str(js(k)): js(x, depth + 1) for k, x in v.items()}
        if isinstance(v, (list, tuple)):
            return [js(x, depth + 1) for x in v]
        if isinstance(v, (set, frozenset)):
            return sorted((js(x, depth + 1) for x in v), key=repr)
        if isinstance(v, (types.FunctionType, types.MethodType, types.BuiltinFunctionType)):
            return f"<func {getattr(v, '__module__', '?')}:{getattr(v, '__qualname__', '?')}>"
        return f"<{type(v).__name__}>"

    classes = Dialect.classes  # forces load of all dialects (import-time code only)
    expr_classes = {}
    for key, c in exp.EXPR_CLASSES.items():
        expr_classes[c.__name__] = {
            "key": key,
            "module": c.__module__,
            "is_func": issubclass(c, exp.Func),
            "is_property": issubclass(c, exp.Property),
            "arg_types": {k: bool(v) for k, v in getattr(c, "arg_types", {}).items()},
            "mro": [b.__name__ for b in c.__mro__ if b is not object],
        }

    OP_TABLES = [
        "ASSIGNMENT", "DISJUNCTION", "CONJUNCTION", "EQUALITY", "COMPARISON", "BITWISE",
        "TERM", "FACTOR", "EXPONENT",
    ]

    dialects = {}
    gen_handlers = {}
    for name, d in sorted(classes.items()):
        T = d.tokenizer_class
        P = d.parser_class
        G = d.generator_class
        gkey = cname(G)
        if gkey not in gen_handlers:
            # mirror of _build_dispatch, read-only (does not touch _DISPATCH_CACHE)
            handled = {}
            for k, v in G.TRANSFORMS.items():
                if isinstance(k, type):
                    handled[k.__name__] = "TRANSFORMS"
            for attr in dir(G):
                if attr.endswith("_sql") and not attr.startswith("_"):
                    ec = exp.EXPR_CLASSES.get(attr[:-4])
                    if ec is not None and ec.__name__ not in handled:
                        owner = next((b for b in G.__mro__ if attr in b.__dict__), None)
                        handled[ec.__name__] = f"method:{cname(owner) if owner else '?'}.{attr}"
            gen_handlers[gkey] = handled

        def owner_of(cls, attr):
            for b in cls.__mro__:
                if attr in b.__dict__:
                    return cname(b)
            return None

        # transforms dict ownership facts for C15.c
        transforms_owner = owner_of(G, "TRANSFORMS")
        json_parts_definers = [cname(b) for b in G.__mro__ if "SUPPORTED_JSON_PATH_PARTS" in b.__dict__]

        # naming facts for the C01 closure rules: which class a function name is read as, under which name a class is printed
        def builder_class(b):
            return getattr(b, "__self__", None) if getattr(b, "__name__", "") == "from_arg_list" and isinstance(getattr(b, "__self__", None), type) else None

        def render_name(cls):
            tr = G.TRANSFORMS.get(cls)
            if tr is None:
                if getattr(G, cls.key + "_sql", None) is not None:
                    return ["method", None]
                if issubclass(cls, exp.Func):
                    names = cls.sql_names()
                    return ["default", names[0] if names else None]
                return ["none", None]
            code = getattr(tr, "__code__", None)
            if getattr(tr, "__qualname__", "").startswith("rename_func.<locals>") and code is not None and "name" in code.co_freevars:
                val = tr.__closure__[code.co_freevars.index("name")].cell_contents
                return ["rename", val if isinstance(val, str) else None]
            return ["custom", None]

        functions = {}
        func_classes = {}
        for fname, b in getattr(P, "FUNCTIONS", {}).items():
            bc = builder_class(b)
            functions[str(fname)] = bc.__name__ if bc is not None else None
            if bc is not None:
                func_classes[bc.__name__] = bc
        func_render = {cn_: render_name(c_) for cn_, c_ in func_classes.items()}
        type_mapping = {k.name: v for k, v in getattr(G, "TYPE_MAPPING", {}).items() if isinstance(k, enum.Enum) and isinstance(v, str)}

        dialects[name] = {
            "str_tables": {
                a: dict(v) for a in dir(d) if a.isupper() and not a.startswith("_")
                for v in [getattr(d, a)]
                if isinstance(v, dict) and v and all(isinstance(k, str) and isinstance(x, str) for k, x in v.items())
            },
            "functions": functions,
            "func_render": func_render,
            "type_mapping": type_mapping,
            "class": cname(d),
            "mro": [cname(b) for b in d.__mro__ if b is not object],
            "tokenizer_class": cname(T),
            "tokenizer_mro": [cname(b) for b in T.__mro__ if b is not object],
            "parser_class": cname(P),
            "parser_mro": [cname(b) for b in P.__mro__ if b is not object],
            "generator_class": cname(G),
            "generator_mro": [cname(b) for b in G.__mro__ if b is not object],
            "tok": {
                "QUOTES": js(T.QUOTES),
                "_QUOTES": js(T._QUOTES),
                "IDENTIFIERS": js(T.IDENTIFIERS),
                "_IDENTIFIERS": js(T._IDENTIFIERS),
                "STRING_ESCAPES": js(T.STRING_ESCAPES),
                "BYTE_STRING_ESCAPES": js(T.BYTE_STRING_ESCAPES),
                "IDENTIFIER_ESCAPES": js(T.IDENTIFIER_ESCAPES),
                "ESCAPE_FOLLOW_CHARS": js(T.ESCAPE_FOLLOW_CHARS),
                "_FORMAT_STRINGS": {k: [v[0], tok(v[1])] for k, v in T._FORMAT_STRINGS.items()},
                "COMMENTS": js(T.COMMENTS),
                "_COMMENTS": js(T._COMMENTS),
                "KEYWORDS": {k: tok(v) for k, v in T.KEYWORDS.items()},
                "SINGLE_TOKENS": {k: tok(v) for k, v in T.SINGLE_TOKENS.items()},
                "NESTED_COMMENTS": T.NESTED_COMMENTS,
                "HINT_START": T.HINT_START,
                "STRING_ESCAPES_ALLOWED_IN_RAW_STRINGS": T.STRING_ESCAPES_ALLOWED_IN_RAW_STRINGS,
            },
            "attrs": {
                k: js(getattr(d, k, None))
                for k in (
                    "QUOTE_START", "QUOTE_END", "IDENTIFIER_START", "IDENTIFIER_END",
                    "BYTE_START", "BYTE_END", "HEX_START", "HEX_END", "BIT_START", "BIT_END",
                    "UNICODE_START", "UNICODE_END",
                    "ESCAPED_SEQUENCES", "UNESCAPED_SEQUENCES", "STRINGS_SUPPORT_ESCAPED_SEQUENCES",
                    "BYTE_STRINGS_SUPPORT_ESCAPED_SEQUENCES",
                    "TIME_MAPPING", "INVERSE_TIME_MAPPING", "FORMAT_MAPPING", "INVERSE_FORMAT_MAPPING",
                    "NULL_ORDERING", "TYPED_DIVISION", "SAFE_DIVISION", "NORMALIZATION_STRATEGY",
                )
            },
            "own_inverse_time_mapping": "INVERSE_TIME_MAPPING" in d.__dict__,
            "parser_ops": {
                tbl: {tok(k): (v.__name__ if isinstance(v, type) else js(v)) for k, v in getattr(P, tbl, {}).items()}
                for tbl in OP_TABLES
            },
            "parser_tables": {
                tbl: sorted(tok(k) if isinstance(k, enum.Enum) else str(k) for k in getattr(P, tbl))
                for tbl in dir(P)
                if tbl.isupper() and isinstance(getattr(P, tbl), (dict, set, frozenset)) and not tbl.startswith("_")
                and all(isinstance(k, (str, enum.Enum)) for k in getattr(P, tbl))
            },
            "transforms_owner": transforms_owner,
            "transforms_id": id(G.TRANSFORMS),
            "json_parts_definers": json_parts_definers,
            "generator_own_attrs": sorted(k for k in G.__dict__ if not k.startswith("__")),
        }

    # inventory of shared Expr instances and worker instances reachable from module
    # globals / class attributes (depth <= 3 through dict/list/tuple/set)
    shared_exprs = []
    shared_workers = []
    seen_ids = set()
    WORKERS = (Parser, Generator, tokens.Tokenizer, TokenizerCore)
    try:
        from sqlglot.schema import MappingSchema
        from sqlglot.optimizer.annotate_types import TypeAnnotator

        WORKERS = WORKERS + (MappingSchema, TypeAnnotator)
    except Exception:  # noqa: BLE001
        pass

    def visit(v, path, depth):
        if id(v) in seen_ids and isinstance(v, (exp.Expr,) + WORKERS):
            return
        if isinstance(v, exp.Expr):
            seen_ids.add(id(v))
            shared_exprs.append({"path": path, "class": type(v).__name__, "has_parent": v.parent is not None})
            return
        if isinstance(v, WORKERS):
            seen_ids.add(id(v))
            shared_workers.append({"path": path, "class": cname(type(v))})
            return
        if depth >= 3:
            return
        if isinstance(v, dict):
            for k, x in list(v.items())[:5000]:
                kk = k.__name__ if isinstance(k, type) else repr(k)
                visit(x, f"{path}[{kk}]", depth + 1)
                if isinstance(k, (exp.Expr,) + WORKERS):
                    visit(k, f"{path}.key({kk})", depth + 1)
        elif isinstance(v, (list, tuple, set, frozenset)):
            for i, x in enumerate(list(v)[:5000]):
                visit(x, f"{path}[{i}]", depth + 1)

    for modname in sorted(m for m in sys.modules if m == "sqlglot" or m.startswith("sqlglot.")):
        mod = sys.modules[modname]
        for gname, gval in list(vars(mod).items()):
            if gname.startswith("__"):
                continue
            if isinstance(gval, types.ModuleType):
                continue
            if isinstance(gval, type):
                if gval.__module__ != modname:
                    continue
                stack = [gval]
                while stack:
                    c = stack.pop()
                    for an, av in list(vars(c).items()):
                        if an.startswith("__"):
                            continue
                        if isinstance(av, type):
                            if av.__module__ == modname and av.__qualname__.startswith(c.__qualname__ + "."):
                                stack.append(av)
                            continue
                        visit(av, f"{modname}:{c.__qualname__}.{an}", 0)
            else:
                visit(gval, f"{modname}:{gname}", 0)

    facts = {
        "python": sys.version,
        "sqlglot_file": sqlglot.__file__,
        "loaded_modules": loaded,
        "failed_modules": failed,
        "dialect_module_names": sorted(DIALECT_MODULE_NAMES),
        "expression_slots": list(exp.Expr.__slots__) if hasattr(exp.Expr, "__slots__") else None,
        "expr_base_mro_slots": {
            b.__name__: list(getattr(b, "__slots__", ())) for b in exp.Expression.__mro__ if b is not object
        },
        "expr_classes": expr_classes,
        "dtype_values": {m.name: m.value for m in exp.DType},
        "dialects": dialects,
        "gen_handlers": gen_handlers,
        "shared_exprs": shared_exprs,
        "shared_workers": shared_workers,
        "unescaped_sequences_global": js(__import__("sqlglot.dialects.dialect", fromlist=["x"]).UNESCAPED_SEQUENCES),
    }
    with open(out, "w") as f:
        json.dump(facts, f)


if __name__ == "__main__":
    main(sys.argv[1])
