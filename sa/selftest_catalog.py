"""Seeded faults (must fire, naming the rule) and benign variants (must stay silent).

Each entry is a small textual edit of the *current* tree that still compiles. Faults model
realistic regressions: a dropped release/restore/invalidate, a guard removed, a writer
added in the wrong place, a .copy() removed, reverting one of the `fix:` commits.
"""

from .selftest import Mut

P = "sqlglot/parser.py"
G = "sqlglot/generator.py"
CORE = "sqlglot/expressions/core.py"
SCHEMA = "sqlglot/schema.py"
DIFF = "sqlglot/diff.py"
DIALECT = "sqlglot/dialects/dialect.py"

CATALOG: list[Mut] = []


def add(*a, **k):
    CATALOG.append(Mut(*a, **k))


# ------------------------------------------------------------------------------- C14
add("C14", "read error_level in a _parse_* method", P,
    "    def _parse_command(self) -> exp.Command:\n        self._warn_unsupported()",
    "    def _parse_command(self) -> exp.Command:\n        if self.error_level == ErrorLevel.IGNORE:\n            return exp.Command(this='X')\n        self._warn_unsupported()",
    "C14.a")
add("C14", "level-guarded branch computes instead of reporting", P,
    "        if self.error_level != ErrorLevel.IGNORE:\n            for error_message in expression.error_messages(args):\n                self.raise_error(error_message)",
    "        if self.error_level != ErrorLevel.IGNORE:\n            for error_message in expression.error_messages(args):\n                self.raise_error(error_message)\n            expression.set('validated', True)",
    "C14.a")
add("C14", "drop finally restore in _try_parse", P,
    "        finally:\n            if not this or retreat:\n                self._retreat(index)\n            self.error_level = error_level\n",
    "        finally:\n            if not this or retreat:\n                self._retreat(index)\n        if this:\n            self.error_level = error_level\n",
    "C14.b")
add("C14", "raise UnsupportedError directly in a *_sql method", G,
    "        if join_mark and not self.dialect.SUPPORTS_COLUMN_JOIN_MARKS:\n            join_mark = \"\"\n            self.unsupported(",
    "        if join_mark and not self.dialect.SUPPORTS_COLUMN_JOIN_MARKS:\n            join_mark = \"\"\n            raise UnsupportedError(",
    "C14.c")
add("C14", "revert exasol fix (call raising transform outside conversion)", "sqlglot/generators/exasol.py",
    "        try:\n            processed = _group_by_all(processed)\n        except UnsupportedError as unsupported_error:\n            self.unsupported(str(unsupported_error))\n",
    "        processed = _group_by_all(processed)\n",
    "C14.c")
add("C14", "skip check_errors on one path of the statement loop", P,
    "            if self._index < self._tokens_size:\n                self.raise_error(\"Invalid expression / Unexpected token\")\n\n            self.check_errors()",
    "            if self._index < self._tokens_size:\n                self.raise_error(\"Invalid expression / Unexpected token\")\n                continue\n\n            self.check_errors()",
    "C14.d")
add("C14", "max_errors truncates the reported error list", P,
    "                errors=merge_errors(self.errors),\n            )\n\n    def expression(",
    "                errors=merge_errors(self.errors[: self.max_errors]),\n            )\n\n    def expression(",
    "C14.d")
add("C14", "benign: rename saved local in _try_parse", P,
    "        error_level = self.error_level\n        this: T | None = None\n\n        self.error_level = ErrorLevel.IMMEDIATE\n        try:\n            this = parse_method()\n        except ParseError:\n            this = None\n        finally:\n            if not this or retreat:\n                self._retreat(index)\n            self.error_level = error_level",
    "        saved_level = self.error_level\n        this: T | None = None\n\n        self.error_level = ErrorLevel.IMMEDIATE\n        try:\n            this = parse_method()\n        except ParseError:\n            this = None\n        finally:\n            if not this or retreat:\n                self._retreat(index)\n            self.error_level = saved_level",
    "silent")
add("C14", "benign: new transform raising UnsupportedError used only under preprocess", "sqlglot/transforms.py",
    "def unnest_to_explode(\n",
    "def _verif_benign(expression: exp.Expr) -> exp.Expr:\n    if isinstance(expression, exp.Cube):\n        raise UnsupportedError('x')\n    return expression\n\n\n_VERIF_T = preprocess([_verif_benign])\n\n\ndef unnest_to_explode(\n",
    "silent")

# ------------------------------------------------------------------------------- C19
add("C19", "move import_module out of the lock (dialects)", "sqlglot/dialects/__init__.py",
    "        with _import_lock:\n            module = importlib.import_module(f\"sqlglot.dialects.{module_name}\")\n",
    "        module = importlib.import_module(f\"sqlglot.dialects.{module_name}\")\n",
    "C19.a")
add("C19", "Lock() instead of RLock() (optimizer)", "sqlglot/optimizer/__init__.py",
    "_import_lock = threading.RLock()", "_import_lock = threading.Lock()", "C19.a")
add("C19", "publish globals()[name] outside the lock", "sqlglot/optimizer/__init__.py",
    "                raise AttributeError(f\"module {__name__!r} has no attribute {name!r}\") from None\n        globals()[name] = value\n        return value",
    "                raise AttributeError(f\"module {__name__!r} has no attribute {name!r}\") from None\n    globals()[name] = value\n    return value",
    "C19.a")
add("C19", "revert registry fix (publish class before initialising it)", DIALECT,
    "        enum = Dialects.__members__.get(clsname.upper())\n\n        klass.TIME_TRIE",
    "        enum = Dialects.__members__.get(clsname.upper())\n        cls._classes[enum.value if enum is not None else clsname.lower()] = klass\n\n        klass.TIME_TRIE",
    "C19.b")
add("C19", "publish dispatch dict then fill it", G,
    "        if dispatch is None:\n            dispatch = _build_dispatch(cls)\n            _DISPATCH_CACHE[cls] = dispatch\n",
    "        if dispatch is None:\n            dispatch = {}\n            _DISPATCH_CACHE[cls] = dispatch\n            dispatch.update(_build_dispatch(cls))\n",
    "C19.b")
add("C19", "cache builder with a global side effect", G,
    "    dispatch: dict[type[exp.Expr], t.Callable[..., str]] = dict(cls.TRANSFORMS)\n",
    "    dispatch: dict[type[exp.Expr], t.Callable[..., str]] = dict(cls.TRANSFORMS)\n    _DISPATCH_CACHE.pop(Generator, None)\n",
    "C19.c")
add("C19", "module-level shared Parser instance", P,
    "\nclass Parser:\n", "\nclass Parser:\n    pass\n\n\n_SHARED_VERIF = None\n\n\nclass _ParserOrig:\n", "silent")  # placeholder benign (class rename would break imports) -> replaced below
CATALOG.pop()
add("C19", "module-level shared Tokenizer instance", "sqlglot/tokens.py",
    "\nclass Tokenizer(_TokenizerBase):\n",
    "\nclass Tokenizer(_TokenizerBase):\n",
    "silent")
CATALOG.pop()
add("C19", "shared worker instance at module level", "sqlglot/optimizer/qualify_columns.py",
    "\ndef qualify_columns(\n",
    "\nfrom sqlglot.schema import MappingSchema as _MS\n\n_SHARED_SCHEMA = _MS()\n\n\ndef qualify_columns(\n",
    "C19.d")
add("C19", "Dialect.parser caches its worker", DIALECT,
    "        args: ParserArgs = {\"dialect\": self, **opts}\n        return self.parser_class(**args)",
    "        args: ParserArgs = {\"dialect\": self, **opts}\n        self._cached_parser = self.parser_class(**args)\n        return self._cached_parser",
    "C19.d")
add("C19", "revert PRIOR fix (run-time write to class-level parser table)", P,
    "        self._connect_by_depth += 1\n        try:\n            return self._parse_disjunction()\n        finally:\n            self._connect_by_depth -= 1\n",
    "        self.NO_PAREN_FUNCTION_PARSERS[\"PRIOR\"] = lambda self: self.expression(\n            exp.Prior(this=self._parse_bitwise())\n        )\n        connect = self._parse_disjunction()\n        self.NO_PAREN_FUNCTION_PARSERS.pop(\"PRIOR\")\n        return connect\n",
    "C19.e")
add("C19", "run-time memo in a module-level dict", "sqlglot/helper.py",
    "def seq_get(seq: Sequence[T], index: int) -> T | None:\n",
    "_VERIF_MEMO: dict = {}\n\n\ndef _verif_memo(x):\n    _VERIF_MEMO[x] = 1\n    return x\n\n\ndef seq_get(seq: Sequence[T], index: int) -> T | None:\n",
    "C19.e")
add("C19", "benign: reorder statements before the registry publish", DIALECT,
    "        klass.SUPPORTS_COLUMN_JOIN_MARKS = \"(+)\" in klass.tokenizer_class.KEYWORDS\n\n        if enum not in (\"\", \"bigquery\", \"snowflake\"):\n            klass.INITCAP_SUPPORTS_CUSTOM_DELIMITERS = False\n",
    "        if enum not in (\"\", \"bigquery\", \"snowflake\"):\n            klass.INITCAP_SUPPORTS_CUSTOM_DELIMITERS = False\n\n        klass.SUPPORTS_COLUMN_JOIN_MARKS = \"(+)\" in klass.tokenizer_class.KEYWORDS\n",
    "silent")
add("C19", "benign: local dict mutated in a function", "sqlglot/helper.py",
    "def seq_get(seq: Sequence[T], index: int) -> T | None:\n",
    "def _verif_local():\n    memo: dict = {}\n    memo[1] = 2\n    memo.pop(1)\n    return memo\n\n\ndef seq_get(seq: Sequence[T], index: int) -> T | None:\n",
    "silent")

# ------------------------------------------------------------------------------- C18
add("C18", "revert add_table fix (keyed eviction only)", SCHEMA,
    "        self._find_cache.clear()\n",
    "        self._find_cache.pop((normalized_table, True), None)\n        self._find_cache.pop((normalized_table, False), None)\n",
    "C18.a")
add("C18", "add_table invalidates only on one path", SCHEMA,
    "        self._find_cache.clear()\n",
    "        if normalized_column_mapping:\n            self._find_cache.clear()\n",
    "C18.a")
add("C18", "new method writes mapping without invalidation", SCHEMA,
    "    def column_names(\n        self,\n        table: exp.Table | str,\n        only_visible: bool = False,",
    "    def drop_all(self) -> None:\n        self.mapping.clear()\n        self.mapping_trie.clear()\n\n    def column_names(\n        self,\n        table: exp.Table | str,\n        only_visible: bool = False,",
    "C18.a")
add("C18", "revert type cache fix (dialect not in key)", SCHEMA,
    "        cache_key = (schema_type, dialect)\n", "        cache_key = schema_type\n", "C18.b")
add("C18", "revert name cache fix (quoted not in key)", SCHEMA,
    "        cache_key = (name_str, quoted, dialect, is_table, normalize)",
    "        cache_key = (name_str, dialect, is_table, normalize)", "C18.b")
add("C18", "drop is_table from the name cache key", SCHEMA,
    "        cache_key = (name_str, quoted, dialect, is_table, normalize)",
    "        cache_key = (name_str, quoted, dialect, normalize)", "C18.b")
add("C18", "find() serves cached None", SCHEMA,
    "        schema = self._find_cache.get(cache_key)\n\n        if schema is None:\n",
    "        schema = self._find_cache.get(cache_key, 0)\n\n        if schema == 0:\n",
    "C18.c")
add("C18", "benign: rename cache attribute consistently", SCHEMA,
    "_find_cache", "_lookup_cache", "silent", 0)
add("C18", "benign: read-only helper call on mapping in a new method", SCHEMA,
    "    def column_names(\n        self,\n        table: exp.Table | str,\n        only_visible: bool = False,",
    "    def table_count(self) -> int:\n        return len(flatten_schema(self.mapping))\n\n    def column_names(\n        self,\n        table: exp.Table | str,\n        only_visible: bool = False,",
    "silent")

# ------------------------------------------------------------------------------- C08
add("C08", "optimizer rule writes node.args directly", "sqlglot/optimizer/eliminate_ctes.py",
    "def eliminate_ctes(expression: E, journal: Journal | None = None) -> E:\n",
    "def _verif_bad(node, x):\n    node.args[\"this\"] = x\n\n\ndef eliminate_ctes(expression: E, journal: Journal | None = None) -> E:\n",
    "C08.a")
add("C08", "raw insert on an aliased child list", "sqlglot/optimizer/eliminate_ctes.py",
    "def eliminate_ctes(expression: E, journal: Journal | None = None) -> E:\n",
    "def _verif_bad(e, y):\n    xs = e.expressions\n    xs.insert(0, y)\n\n\ndef eliminate_ctes(expression: E, journal: Journal | None = None) -> E:\n",
    "C08.a")
add("C08", "stale hash: assign _hash from another node", "sqlglot/optimizer/eliminate_ctes.py",
    "def eliminate_ctes(expression: E, journal: Journal | None = None) -> E:\n",
    "def _verif_bad(a, b):\n    a._hash = hash(b)\n\n\ndef eliminate_ctes(expression: E, journal: Journal | None = None) -> E:\n",
    "C08.a")
add("C08", "revert extend_props fix", P,
    "                for prop in temp_props.expressions:\n                    properties.append(\"expressions\", prop)\n",
    "                properties.expressions.extend(temp_props.expressions)\n", "C08.a")
add("C08", "revert postgres constraints fix", "sqlglot/parsers/postgres.py",
    "            column_def.set(\"constraints\", [constraint, *(column_def.args.get(\"constraints\") or [])])\n",
    "            if not column_def.args.get(\"constraints\"):\n                column_def.set(\"constraints\", [])\n            column_def.args[\"constraints\"].insert(0, constraint)\n",
    "C08.a")
add("C08", "delete invalidation loop in append", CORE,
    "    def append(self, arg_key: str, value: t.Any) -> None:\n        node: Expr | None = self\n        while node and node._hash is not None:\n            node._hash = None\n            node = node.parent\n",
    "    def append(self, arg_key: str, value: t.Any) -> None:\n",
    "C08.b")
add("C08", "set() writes before invalidating", CORE,
    "        node: Expr | None = self\n\n        while node and node._hash is not None:\n            node._hash = None\n            node = node.parent\n\n        if index is not None:",
    "        if value is None and index is None:\n            self.args.pop(arg_key, None)\n            return\n\n        node: Expr | None = self\n\n        while node and node._hash is not None:\n            node._hash = None\n            node = node.parent\n\n        if index is not None:",
    "C08.b")
add("C08", "revert shared-literal fix in duckdb parser", "sqlglot/parsers/duckdb.py",
    "scale=exp.UnixToTime.MICROS.copy()", "scale=exp.UnixToTime.MICROS", "C08.c")
add("C08", "embed shared template via set()", "sqlglot/parsers/bigquery.py",
    "def _build_contains_substring(args: list) -> exp.Contains:\n",
    "def _verif_bad(node: exp.Expr) -> None:\n    node.set(\"scale\", exp.UnixToTime.NANOS)\n\n\ndef _build_contains_substring(args: list) -> exp.Contains:\n",
    "C08.c")
add("C08", "__deepcopy__ filters args but keeps hash", CORE,
    "            for k, vs in node.args.items():\n                if isinstance(vs, Expr):\n                    stack.append((vs, vs.__class__()))",
    "            for k, vs in node.args.items():\n                if vs is False:\n                    continue\n                if isinstance(vs, Expr):\n                    stack.append((vs, vs.__class__()))",
    "C08.d")
add("C08", "benign: rebuild list and set()", "sqlglot/optimizer/eliminate_ctes.py",
    "def eliminate_ctes(expression: E, journal: Journal | None = None) -> E:\n",
    "def _verif_ok(e, y):\n    xs = e.expressions\n    e.set(\"expressions\", [*xs, y])\n\n\ndef eliminate_ctes(expression: E, journal: Journal | None = None) -> E:\n",
    "silent")
add("C08", "benign: parent pointer on a node built two lines above", "sqlglot/optimizer/eliminate_ctes.py",
    "def eliminate_ctes(expression: E, journal: Journal | None = None) -> E:\n",
    "def _verif_ok(e):\n    from sqlglot import exp\n\n    props = exp.Properties(expressions=[])\n    props.parent = e\n    return props\n\n\ndef eliminate_ctes(expression: E, journal: Journal | None = None) -> E:\n",
    "silent")
add("C08", "benign: compare against shared literal", "sqlglot/parsers/bigquery.py",
    "def _build_contains_substring(args: list) -> exp.Contains:\n",
    "def _verif_ok(node: exp.Expr) -> bool:\n    return node.args.get(\"scale\") == exp.UnixToTime.NANOS\n\n\ndef _build_contains_substring(args: list) -> exp.Contains:\n",
    "silent")

# ------------------------------------------------------------------------------- C20
add("C20", "delete break after inner match", DIFF,
    "                        ordered_unmatched_target_nodes.pop(target_node_id, None)\n                        break\n",
    "                        ordered_unmatched_target_nodes.pop(target_node_id, None)\n", "C20.a")
add("C20", "delete one unmatched-set removal", DIFF,
    "                matching_set.add((id(source_leaf), id(target_leaf)))\n                self._unmatched_source_nodes.remove(id(source_leaf))\n",
    "                matching_set.add((id(source_leaf), id(target_leaf)))\n", "C20.a")
add("C20", "drop membership test on target side", DIFF,
    "            if (\n                id(source_leaf) in self._unmatched_source_nodes\n                and id(target_leaf) in self._unmatched_target_nodes\n            ):",
    "            if id(source_leaf) in self._unmatched_source_nodes:", "C20.a")
add("C20", "drop _is_same_type guard in inner matching", DIFF,
    "                if _is_same_type(source_node, target_node):\n                    source_leaf_ids",
    "                if source_node is not None:\n                    source_leaf_ids", "C20.b")
add("C20", "append Keep in both branches", DIFF,
    "                if source_non_expression_leaves != target_non_expression_leaves:\n                    edit_script.append(Update(source_node, target_node))\n                elif not delta_only:",
    "                if source_non_expression_leaves != target_non_expression_leaves:\n                    edit_script.append(Update(source_node, target_node))\n                if not delta_only:",
    "C20.c")
add("C20", "matched pair emits nothing on one path", DIFF,
    "            else:\n                edit_script.append(Update(source_node, target_node))\n\n        return edit_script",
    "            elif not delta_only:\n                edit_script.append(Update(source_node, target_node))\n\n        return edit_script",
    "silent")
CATALOG.pop()
add("C20", "Update dropped for updatable types when delta_only is False", DIFF,
    "            else:\n                edit_script.append(Update(source_node, target_node))\n\n        return edit_script",
    "            elif delta_only:\n                edit_script.append(Update(source_node, target_node))\n\n        return edit_script",
    "C20.c")
add("C20", "drop finally hash eviction", DIFF,
    "    finally:\n        if not copy:\n            for node in unhashed_nodes:\n                node._hash = None\n",
    "    finally:\n        pass\n", "C20.d")
add("C20", "evict only the hashes cached for the source tree", DIFF,
    "        [] if copy else [n for n in chain(source_nodes, target_nodes) if n._hash is None]\n",
    "        [] if copy else [n for n in source_nodes if n._hash is None]\n", "C20.d")
add("C08", "revert: diff() evicts the hash of every input node, cached by diff or not", DIFF,
    "            for node in unhashed_nodes:\n                node._hash = None\n",
    "            for node in chain(source_nodes, target_nodes):\n                node._hash = None\n", "C08.a")
add("C20", "distiller mutates a node", DIFF,
    "    def _dice_coefficient(self, source: exp.Expr, target: exp.Expr) -> float:\n",
    "    def _verif_bad(self, source: exp.Expr) -> None:\n        source.set(\"this\", None)\n\n    def _dice_coefficient(self, source: exp.Expr, target: exp.Expr) -> float:\n",
    "C20.d")
add("C20", "benign: rename matching_set", DIFF, "matching_set", "matching_pairs", "silent", 0)

# ------------------------------------------------------------------------------- C15
LIN = "sqlglot/lineage.py"
add("C15", "revert lineage fix (iterate a set into downstream)", LIN,
    "    source_columns = dict.fromkeys(find_all_in_scope(select, exp.Column))\n",
    "    source_columns = set(find_all_in_scope(select, exp.Column))\n", "C15.a",
    extra=[(LIN, "        source_columns.update(dict.fromkeys(source.find_all(exp.Column)))\n", "        source_columns |= set(source.find_all(exp.Column))\n")])
add("C15", "revert resolver fix (list of keys & keys)", "sqlglot/optimizer/resolver.py",
    "                right_columns = set(right)\n                columns = [col for col in dict.fromkeys(left) if col in right_columns]\n",
    "                columns = list(dict.fromkeys(left).keys() & dict.fromkeys(right).keys())\n", "C15.a")
add("C15", "revert required_args fix (set iterated into error list)", CORE,
    "        cls.required_args = tuple(k for k, v in cls.arg_types.items() if v)\n",
    "        cls.required_args = {k for k, v in cls.arg_types.items() if v}\n", "C15.a",
    extra=[(CORE, "    required_args: t.ClassVar[tuple[str, ...]] = (\"this\",)\n", "    required_args: t.ClassVar[set[str]] = {\"this\"}\n")])
add("C15", "remove sorted() in tsort", "sqlglot/helper.py",
    "        result.extend(sorted(current))  # type: ignore\n", "        result.extend(current)  # type: ignore\n", "C15.a")
add("C15", "set(cols) materialised into a list in an optimizer rule", "sqlglot/optimizer/pushdown_projections.py",
    "def pushdown_projections(\n",
    "def _verif_bad(cols: list[str]) -> list[str]:\n    out = []\n    for c in set(cols):\n        out.append(c)\n    return out\n\n\ndef pushdown_projections(\n", "C15.a")
add("C15", "drop a field from Parser.reset", P,
    "        self._prev_comments = []\n        self._pipe_cte_counter = 0\n        self._chunks = []\n",
    "        self._prev_comments = []\n        self._chunks = []\n", "C15.b.reset")
add("C15", "new parser state attribute never reset", P,
    "        self._connect_by_depth = 0\n\n    def _advance(self",
    "\n    def _advance(self", "C15.b.reset")
add("C15", "tokenizer reset re-initialises with a different value", "sqlglot/tokenizer_core.py",
    "        self._comments = []\n        self._char = \"\"\n        self._end = False\n        self._peek = \"\"\n        self._prev_token_line = -1\n\n    def tokenize",
    "        self._comments = []\n        self._char = \"\"\n        self._end = False\n        self._peek = \"\"\n        self._prev_token_line = 0\n\n    def tokenize", "C15.b.reset")
add("C15", "tokenize() no longer resets first", "sqlglot/tokenizer_core.py",
    "        self.reset()\n        self.sql = sql\n        self.size = len(sql)\n", "        self.sql = sql\n        self.size = len(sql)\n", "C15.b.reset")
add("C15", "revert _next_name fix", G,
    "        self.unsupported_messages = []\n        self._next_name = name_sequence(\"_t\")\n", "        self.unsupported_messages = []\n", "C15.b.generator")
add("C15", "revert no_identify fix (toggle without finally)", G,
    "        try:\n            return func(*args, **kwargs)\n        finally:\n            self.identify = original\n",
    "        result = func(*args, **kwargs)\n        self.identify = original\n        return result\n", "C15.b.generator")
add("C15", "new generator method flips pretty without restore", G,
    "    def sep(self, sep: str = \" \") -> str:\n",
    "    def _verif_bad(self, e: exp.Expr) -> str:\n        self.pretty = False\n        return self.sql(e)\n\n    def sep(self, sep: str = \" \") -> str:\n", "C15.b.generator")
add("C15", "subclass body pops from the parent's KEYWORDS", "sqlglot/dialects/duckdb.py",
    "        KEYWORDS = {\n            **tokens.Tokenizer.KEYWORDS,\n            \"//\": TokenType.DIV,",
    "        tokens.Tokenizer.KEYWORDS.pop(\"VERIF_NO_SUCH\", None)\n        KEYWORDS = {\n            **tokens.Tokenizer.KEYWORDS,\n            \"//\": TokenType.DIV,", "C15.c")
add("C15", "class body mutates an inherited table by alias", "sqlglot/dialects/duckdb.py",
    "    DATE_PART_MAPPING = {\n        # The aliases of DAYOFWEEKISO are mapped to ISODOW directly, the table is looked up only once\n        **{k: \"ISODOW\" if v == \"DAYOFWEEKISO\" else v for k, v in Dialect.DATE_PART_MAPPING.items()},\n        \"DAYOFWEEKISO\": \"ISODOW\",\n    }\n",
    "    DATE_PART_MAPPING = Dialect.DATE_PART_MAPPING\n", "C15.c")
add("C15", "module-level name_sequence", "sqlglot/optimizer/qualify_tables.py",
    "def qualify_tables(\n", "_NEXT = name_sequence(\"_q\")\n\n\ndef qualify_tables(\n", "C15.e")
add("C15", "benign: iterate a set into another set", "sqlglot/optimizer/pushdown_projections.py",
    "def pushdown_projections(\n",
    "def _verif_ok(cols: list[str]) -> set[str]:\n    out = set()\n    for c in set(cols):\n        out.add(c.lower())\n    return out\n\n\ndef pushdown_projections(\n", "silent")
add("C15", "benign: sorted(set) into a list", "sqlglot/optimizer/pushdown_projections.py",
    "def pushdown_projections(\n",
    "def _verif_ok(cols: list[str]) -> list[str]:\n    return sorted(set(cols))\n\n\ndef pushdown_projections(\n", "silent")
add("C15", "benign: generator toggle under try/finally", G,
    "    def sep(self, sep: str = \" \") -> str:\n",
    "    def _verif_ok(self, e: exp.Expr) -> str:\n        saved = self.pretty\n        self.pretty = False\n        try:\n            return self.sql(e)\n        finally:\n            self.pretty = saved\n\n    def sep(self, sep: str = \" \") -> str:\n", "silent")

# ------------------------------------------------------------------------------- C12
SERDE = "sqlglot/serde.py"
add("C12", "rename wire key on the writer side only", SERDE,
    "                payload[COMMENTS] = node.comments\n", "                payload[\"cm\"] = node.comments\n", "C12.a")
add("C12", "load stops reading the type payload", SERDE,
    "    expression._type = load(payload.get(TYPE))\n", "    expression._type = None\n", "C12.a")
add("C12", "two wire keys share a string", SERDE, "META = \"m\"\n", "META = \"o\"\n", "C12.a")
add("C12", "new slot without serde/copy support", CORE,
    "        \"_meta\",\n        \"_hash\",\n    )\n\n    def __eq__",
    "        \"_meta\",\n        \"_hash\",\n        \"_origin\",\n    )\n\n    def __eq__", "C12.b")
add("C12", "__deepcopy__ skips _meta", CORE,
    "            if node._meta is not None:\n                copy._meta = deepcopy(node._meta)\n", "", "C12.b")
add("C12", "dump stops emitting comments", SERDE,
    "            if node.comments:\n                payload[COMMENTS] = node.comments\n", "", "C12.a")
add("C12", "revert serde fix (meta emitted verbatim)", SERDE,
    "                payload[META] = {\n                    k: {EXPR: dump(v)} if isinstance(v, exp.Expr) else v\n                    for k, v in node._meta.items()\n                }\n",
    "                payload[META] = node._meta\n", "C12.c")
add("C12", "store a set in meta", "sqlglot/optimizer/qualify_tables.py",
    "        db.meta[\"is_table\"] = True\n", "        db.meta[\"is_table\"] = True\n        db.meta[\"seen\"] = {\"a\", \"b\"}\n", "C12.c")
add("C12", "pickle bypasses serde", CORE,
    "        return (load, (dump(self),))\n", "        return (self.__class__, ())\n", "C12.d")
add("C12", "benign: reorder slots", CORE,
    "        \"_type\",\n        \"_meta\",\n        \"_hash\",\n    )\n\n    def __eq__", "        \"_meta\",\n        \"_type\",\n        \"_hash\",\n    )\n\n    def __eq__", "silent")
add("C12", "benign: store a str in meta", "sqlglot/optimizer/qualify_tables.py",
    "        db.meta[\"is_table\"] = True\n", "        db.meta[\"is_table\"] = True\n        db.meta[\"origin\"] = \"qualify\"\n", "silent")

# ------------------------------------------------------------------------------- C13
TCORE = "sqlglot/tokenizer_core.py"
add("C13", "off-by-one _char in the str.find fast path", TCORE,
    "                self._char = sql[end]\n", "                self._char = sql[end + 1]\n", "C13.a")
add("C13", "fast path forgets to update _col on one branch", TCORE,
    "                else:\n                    self._col += end - pos\n\n                self._current = end + 1",
    "                else:\n                    pass\n\n                self._current = end + 1", "C13.a")
add("C13", "_peek computed from the old offset in _advance", TCORE,
    "        self._peek = \"\" if self._end else sql[self._current]\n\n        if alnum",
    "        self._peek = \"\" if self._end else sql[self._current - 1]\n\n        if alnum", "C13.a")
add("C13", "alnum fast path advances offset but not column", TCORE,
    "            while _peek.isalnum():\n                _col += 1\n                _current += 1\n",
    "            while _peek.isalnum():\n                _current += 1\n", "C13.a")
add("C13", "_end compared with > instead of >=", TCORE,
    "                self._end = self._current >= self.size\n                self._char = sql[end]",
    "                self._end = self._current > self.size\n                self._char = sql[end]", "C13.a")
add("C13", "token end stamped exclusive", TCORE,
    "                end=self._current - 1,\n", "                end=self._current,\n", "C13.b")
add("C13", "token col stamped from line", TCORE,
    "                col=self._col,\n", "                col=self._line,\n", "C13.b")
add("C13", "_find_sql drops the +1", P,
    "        return self.sql[start.start : end.end + 1]\n", "        return self.sql[start.start : end.end]\n", "C13.c")
add("C13", "_is_connected treats end as exclusive", P,
    "prev.end + 1 == curr.start", "prev.end == curr.start", "C13.c")
add("C13", "highlight_sql treats end as exclusive", "sqlglot/errors.py",
    "        highlight_end = end + 1\n", "        highlight_end = end\n", "C13.c")
add("C13", "raise_error reports col from the token start offset", P,
    "            line=token.line,\n            col=token.col,\n", "            line=token.line,\n            col=token.start,\n", "C13.d")
add("C13", "raise_error highlights another token", P,
    "            positions=[(token.start, token.end)],\n", "            positions=[(self._prev.start, token.end)],\n", "C13.d")
add("C13", "update_positions crosses start and end", CORE,
    "            meta[\"start\"] = other.start\n            meta[\"end\"] = other.end\n",
    "            meta[\"start\"] = other.end\n            meta[\"end\"] = other.start\n", "C13.d")
add("C13", "benign: cache self._current in a local in _add", TCORE,
    "        if text is None:\n            text = self.sql[self._start : self._current]\n",
    "        cur = self._current\n        if text is None:\n            text = self.sql[self._start : cur]\n", "silent")

# ------------------------------------------------------------------------------- C10
QF = "sqlglot/optimizer/qualify.py"
add("C10", "swap qualify_tables and qualify_columns", QF,
    "    expression = qualify_tables(\n        expression,\n        db=db,\n        catalog=catalog,\n        dialect=dialect,\n        on_qualify=on_qualify,\n        canonicalize_table_aliases=canonicalize_table_aliases,\n    )\n\n    if isolate_tables:\n        expression = isolate_table_selects(expression, schema=schema)\n\n    if qualify_columns:\n        expression = qualify_columns_func(\n            expression,\n            schema,\n            expand_alias_refs=expand_alias_refs,\n            expand_stars=expand_stars,\n            infer_schema=infer_schema,\n            allow_partial_qualification=allow_partial_qualification,\n        )\n",
    "    if qualify_columns:\n        expression = qualify_columns_func(\n            expression,\n            schema,\n            expand_alias_refs=expand_alias_refs,\n            expand_stars=expand_stars,\n            infer_schema=infer_schema,\n            allow_partial_qualification=allow_partial_qualification,\n        )\n\n    expression = qualify_tables(\n        expression,\n        db=db,\n        catalog=catalog,\n        dialect=dialect,\n        on_qualify=on_qualify,\n        canonicalize_table_aliases=canonicalize_table_aliases,\n    )\n\n    if isolate_tables:\n        expression = isolate_table_selects(expression, schema=schema)\n",
    "C10.a")
add("C10", "drop the threading assignment of quote_identifiers", QF,
    "        expression = quote_identifiers_func(expression, dialect=dialect, identify=identify)",
    "        quote_identifiers_func(expression.copy(), dialect=dialect, identify=identify)", "C10.a")
add("C10", "validation guarded by the wrong flag", QF,
    "    if validate_qualify_columns:\n", "    if validate_qualify_columns and qualify_columns:\n", "C10.a")
add("C10", "normalize_identifiers loses the dialect", QF,
    "        expression,\n        dialect=dialect,\n        store_original_column_identifiers=True,",
    "        expression,\n        store_original_column_identifiers=True,", "C10.a")
add("C10", "default of quote_identifiers flipped", QF,
    "    quote_identifiers: bool = True,\n", "    quote_identifiers: bool = False,\n", "C10.a")
add("C10", "qualify_columns raises KeyError", "sqlglot/optimizer/qualify_columns.py",
    "                raise OptimizeError(f\"Unknown column: {column_name}\")", "                raise KeyError(f\"Unknown column: {column_name}\")", "C10.b")
add("C10", "benign: reorder keyword arguments", QF,
    "        db=db,\n        catalog=catalog,\n        dialect=dialect,\n", "        dialect=dialect,\n        db=db,\n        catalog=catalog,\n", "silent")
add("C10", "benign: new OptimizeError subclass raised", "sqlglot/optimizer/qualify_columns.py",
    "                raise OptimizeError(f\"Unknown column: {column_name}\")", "                raise SchemaError(f\"Unknown column: {column_name}\")", "silent")

# ------------------------------------------------------------------------------- C07
add("C07", "sentinel removed unconditionally", G,
    "        if self.pretty:\n            sql = sql.replace(self.SENTINEL_LINE_BREAK, \"\\n\")\n",
    "        sql = sql.replace(self.SENTINEL_LINE_BREAK, \"\\n\")\n", "C07.a")
add("C07", "sentinel inserted regardless of pretty", G,
    "        if self.pretty:\n            return string.replace(\"\\n\", self.SENTINEL_LINE_BREAK)\n        return string\n",
    "        return string.replace(\"\\n\", self.SENTINEL_LINE_BREAK)\n", "C07.a")
add("C07", "early return in generate() before sentinel removal", G,
    "        sql = self.sql(expression).strip()\n\n        if self.pretty:",
    "        sql = self.sql(expression).strip()\n\n        if self.unsupported_level == ErrorLevel.IGNORE:\n            return sql\n\n        if self.pretty:", "C07.a")
add("C07", "Athena generate() stops delegating", "sqlglot/generators/athena.py",
    "        return self._trino_generator.generate(expression, copy=copy)\n",
    "        return self._trino_generator.sql(expression)\n", "C07.a")
add("C07", "comment text interpolated directly in a *_sql method", G,
    "    def uncache_sql(self, expression: exp.Uncache) -> str:\n        table = self.sql(expression, \"this\")\n",
    "    def uncache_sql(self, expression: exp.Uncache) -> str:\n        table = self.sql(expression, \"this\") + \" \".join(expression.comments or [])\n", "C07.b")
add("C07", "maybe_comment ignores comments=False", G,
    "            if self.comments\n            else None\n        )\n", "            if self.comments or expression\n            else None\n        )\n", "C07.b")
add("C07", "emit a line comment", G,
    "        return f\"{sql} {' '.join(comments_list)}\"\n", "        return f\"{sql} -- {' '.join(comments_list)}\"\n", "C07.c")
add("C07", "sanitize_comment stops breaking up */", G,
    "        comment = comment.replace(\"*/\", \"* /\").replace(\"/*\", \"/ *\")\n", "        comment = comment.replace(\"/*\", \"/ *\")\n", "C07.c")
add("C07", "block comment without sanitize_comment", G,
    "            f\"/*{self._replace_line_breaks(self.sanitize_comment(comment))}*/\"\n", "            f\"/*{self._replace_line_breaks(comment)}*/\"\n", "C07.c")
add("C07", "benign: sanitize via a local", G,
    "        comments_list = [\n            f\"/*{self._replace_line_breaks(self.sanitize_comment(comment))}*/\"\n            for comment in comments\n            if comment\n        ]\n",
    "        comments_list = [\n            f\"/*{self._replace_line_breaks(self.sanitize_comment(comment))}*/\"\n            for comment in list(comments)\n            if comment\n        ]\n", "silent")

# ------------------------------------------------------------------------------- C04
add("C04", "Hive string escapes become a double quote only", "sqlglot/dialects/hive.py",
    "        STRING_ESCAPES = [\"\\\\\"]\n", "        STRING_ESCAPES = ['\"']\n", "C04.R1")
add("C04", "add a reader escape the writer does not escape", "sqlglot/dialects/postgres.py",
    "    class Tokenizer(tokens.Tokenizer):\n", "    class Tokenizer(tokens.Tokenizer):\n        STRING_ESCAPES = [\"'\", \"^\"]\n", "C04.R2")
add("C04", "global unescape table loses the backslash pair", DIALECT,
    "    \"\\\\\\\\\": \"\\\\\",\n", "", "C04.R2")
add("C04", "metaclass derives writer sequences the reader cannot decode", DIALECT,
    "            v: k\n            for k, v in klass.UNESCAPED_SEQUENCES.items()", "            v: k.upper()\n            for k, v in klass.UNESCAPED_SEQUENCES.items()", "C04.R3")
add("C04", "revert identifier backslash fix", G,
    "        if self._identifier_escapes_backslash:\n            # A backslash is an escape character inside this dialect's quoted identifiers\n            text = text.replace(\"\\\\\", \"\\\\\\\\\")\n", "", "C04.R4")
add("C04", "another dialect gains a backslash identifier escape without decode support", "sqlglot/dialects/presto.py",
    "    class Tokenizer(tokens.Tokenizer):\n", "    class Tokenizer(tokens.Tokenizer):\n        IDENTIFIER_ESCAPES = [\"\\\\\"]\n", "C04.R4")
add("C04", "literal_sql override bypasses escape_str", "sqlglot/generators/sqlite.py",
    "class SQLiteGenerator(generator.Generator):\n", "class SQLiteGenerator(generator.Generator):\n    def literal_sql(self, expression: exp.Literal) -> str:\n        return f\"'{expression.this}'\" if expression.is_string else expression.this\n\n", "C04.R5")
add("C04", "identifier quoted before escaping on one path", G,
    "        text = text.replace(self._identifier_end, self._escaped_identifier_end)\n        if (\n            quoted",
    "        if not quoted:\n            text = text.replace(self._identifier_end, self._escaped_identifier_end)\n        if (\n            quoted", "C04.R7")
add("C04", "escaped quote built from the last escape instead of the first", G,
    "            self.dialect.tokenizer_class.STRING_ESCAPES[0] + self.dialect.QUOTE_END\n        )\n        self._escaped_byte_quote_end",
    "            self.dialect.tokenizer_class.STRING_ESCAPES[-1] + self.dialect.QUOTE_END\n        )\n        self._escaped_byte_quote_end", "C04.R7")
add("C04", "reader drops the quote rule of the escape branch", "sqlglot/tokenizer_core.py",
    "                and (self._char not in quotes or self._char == self._peek)\n", "", "C04.R7")
add("C04", "emit a line comment (C04 view)", G,
    "        return f\"{sql} {' '.join(comments_list)}\"\n", "        return f\"{sql} -- {' '.join(comments_list)}\"\n", "C04.R6")
add("C04", "benign: add a second quote style", "sqlglot/dialects/postgres.py",
    "    class Tokenizer(tokens.Tokenizer):\n", "    class Tokenizer(tokens.Tokenizer):\n        QUOTES = [\"'\", \"$$\"]\n", "silent")
add("C04", "benign: TSQL-style override that still delegates", "sqlglot/generators/sqlite.py",
    "class SQLiteGenerator(generator.Generator):\n", "class SQLiteGenerator(generator.Generator):\n    def literal_sql(self, expression: exp.Literal) -> str:\n        text = super().literal_sql(expression)\n        return text\n\n", "silent")

# ------------------------------------------------------------------------------- C01
add("C01", "ClickHouse generator loses its FINAL handler", "sqlglot/generators/clickhouse.py",
    "        exp.Final: lambda self, e: f\"{self.sql(e, 'this')} FINAL\",\n", "", "C01.a")
add("C01", "ClickHouse generator loses partitionid_sql", "sqlglot/generators/clickhouse.py",
    "    def partitionid_sql(self, expression: exp.PartitionId) -> str:", "    def _partitionid_sql_disabled(self, expression: exp.PartitionId) -> str:", "C01.a")
add("C01", "swap GT and LT in Parser.COMPARISON", P,
    "        TokenType.GT: exp.GT,\n", "        TokenType.GT: exp.LT,\n", "C01.b",
    extra=[(P, "        TokenType.LT: exp.LT,\n", "        TokenType.LT: exp.GT,\n")])
add("C01", "neq printed with an operator that re-parses differently", G,
    "        return self.binary(expression, \"<>\")\n", "        return self.binary(expression, \"<=>\")\n", "C01.b")
add("C01", "inverse time mapping that does not close", "sqlglot/dialects/duckdb.py",
    "        \"%e\": \"%-d\",  # BigQuery's space-padded day (%e) -> DuckDB's no-padding day (%-d)\n",
    "        \"%e\": \"%q\",\n        \"%d\": \"%x\",\n", "C01.c",
    extra=[("sqlglot/dialects/duckdb.py", "    INVERSE_TIME_MAPPING = {\n", "    TIME_MAPPING = {\"%q\": \"%d\"}\n\n    INVERSE_TIME_MAPPING = {\n")])
add("C01", "base dialect gains a time mapping", DIALECT,
    "    TIME_MAPPING: dict[str, str] = {}\n", "    TIME_MAPPING: dict[str, str] = {\"yyyy\": \"%Y\"}\n", "C01.c")
add("C01", "benign: reorder entries of Parser.COMPARISON", P,
    "        TokenType.GT: exp.GT,\n        TokenType.GTE: exp.GTE,\n", "        TokenType.GTE: exp.GTE,\n        TokenType.GT: exp.GT,\n", "silent")
add("C01", "benign: handler for a class no parser builds", G,
    "    def uncache_sql(self, expression: exp.Uncache) -> str:\n", "    def verifnothing_sql(self, expression: exp.Expr) -> str:\n        return \"\"\n\n    def uncache_sql(self, expression: exp.Uncache) -> str:\n", "silent")

# ------------------------------------------------------------------------------- C05
add("C05", "_parse_csv loop stops consuming its separator", P,
    "        while self._match(sep):\n            if isinstance(parse_result, exp.Expr):",
    "        while self._match(sep, advance=False):\n            if isinstance(parse_result, exp.Expr):", "C05.a")
add("C05", "delete break in _parse_properties", P,
    "            if not prop:\n                break\n            for p in ensure_list(prop):",
    "            if not prop:\n                pass\n            for p in ensure_list(prop):", "C05.a")
add("C05", "revert SYSTEM_VERSIONING hang fix", P,
    "                elif not self._match(TokenType.COMMA, advance=False):\n                    self.raise_error(\"Unexpected SYSTEM_VERSIONING option\")\n                    break\n", "", "C05.a")
add("C05", "revert COPY parameters hang fix", P,
    "            if self._index == index:\n                self.raise_error(\"Unable to parse COPY parameter\")\n                break\n", "", "C05.a")
add("C05", "revert Trino ELSEIF hang fix", "sqlglot/parsers/trino.py",
    "            tail = node\n\n            if self._index == index:\n                # Nothing was consumed (e.g. truncated input): the error has been recorded\n                break\n",
    "            tail = node\n", "C05.a")
add("C05", "tokenizer comment scan stops advancing", "sqlglot/tokenizer_core.py",
    "            while not self._end and _peek != \"\\n\" and _peek != \"\\r\":\n                self._advance(alnum=True)\n",
    "            while not self._end and _peek != \"\\n\" and _peek != \"\\r\":\n", "C05.a")
add("C05", "retreat one token too far in a property parser", P,
    "    def _parse_describe(self) -> exp.Describe:\n        kind = self._prev.text if self._match_set(self.CREATABLES) else None\n        style: str | None = (\n            self._prev.text.upper() if self._match_texts(self.DESCRIBE_STYLES) else None\n        )\n        if self._match(TokenType.DOT):\n            style = None\n            self._retreat(self._index - 2)",
    "    def _parse_describe(self) -> exp.Describe:\n        kind = self._prev.text if self._match_set(self.CREATABLES) else None\n        style: str | None = (\n            self._prev.text.upper() if self._match_texts(self.DESCRIBE_STYLES) else None\n        )\n        if self._match(TokenType.DOT):\n            style = None\n            self._retreat(self._index - 3)", "C05.b")
add("C05", "retreat to a computed forward position", P,
    "        result = self.CONSTRAINT_PARSERS[constraint_key](self)\n        if not result:\n            self._retreat(index)",
    "        result = self.CONSTRAINT_PARSERS[constraint_key](self)\n        if not result:\n            self._retreat(index + 1)", "C05.b")
add("C05", "_try_parse stops restoring the index", P,
    "        finally:\n            if not this or retreat:\n                self._retreat(index)\n            self.error_level = error_level",
    "        finally:\n            self.error_level = error_level", "C05.b")
add("C05", "remove the _match_set guard before a table lookup", P,
    "            if self._match_set(self.RANGE_PARSERS):\n                expression = self.RANGE_PARSERS[self._prev.token_type](self, this)",
    "            if self._match_set(self.RANGE_PARSERS) or self._match(TokenType.ISNULL):\n                expression = self.RANGE_PARSERS[self._prev.token_type](self, this)", "C05.c")
add("C05", "match on TERM but index FACTOR", P,
    "        while self._match_set(factor):\n", "        while self._match_set(self.TERM):\n", "silent")
CATALOG.pop()
add("C05", "match on one table, index another", P,
    "        if self._match_texts(self.ALTER_ALTER_PARSERS):\n            return self.ALTER_ALTER_PARSERS[self._prev.text.upper()](self)",
    "        if self._match_texts(self.ALTER_ALTER_PARSERS):\n            return self.ALTER_PARSERS[self._prev.text.upper()](self)", "C05.c")
add("C05", "revert generator fall-through fix", G,
    "            self.unsupported(f\"Unsupported expression type {expression.__class__.__name__}\")\n            sql = \"\"\n",
    "            raise ValueError(f\"Unsupported expression type {expression.__class__.__name__}\")\n", "C05.d")
add("C05", "raise KeyError in a _parse method", P,
    "    def _parse_command(self) -> exp.Command:\n        self._warn_unsupported()",
    "    def _parse_command(self) -> exp.Command:\n        if not self._prev:\n            raise KeyError(\"no command\")\n        self._warn_unsupported()", "C05.e")
add("C05", "revert HASHBYTES arity fix", "sqlglot/parsers/tsql.py",
    "    if len(args) != 2:\n        return exp.func(\"HASHBYTES\", *args)\n\n", "", "C05.f")
add("C05", "drop the length guard of build_date_delta_with_interval", DIALECT,
    "        if len(args) < 2:\n            return None\n", "", "C05.f")
add("C05", "public tokenizer method scans outside the TokenError wrapper", "sqlglot/tokenizer_core.py",
    "    def _scan(self, check_semicolon: bool = False) -> None:\n",
    "    def rescan(self) -> list[Token]:\n        self._scan()\n        return self.tokens\n\n    def _scan(self, check_semicolon: bool = False) -> None:\n", "C05.g")
add("C05", "benign: while True/break rewritten with a walrus condition", P,
    "        while True:\n            if before:\n                prop = self._parse_property_before()\n            else:\n                prop = self._parse_property()\n            if not prop:\n                break\n            for p in ensure_list(prop):\n                properties.append(p)\n",
    "        while prop := (self._parse_property_before() if before else self._parse_property()):\n            for p in ensure_list(prop):\n                properties.append(p)\n", "silent")
add("C05", "benign: rename saved index local", P,
    "        index = self._index\n        error_level = self.error_level\n        this: T | None = None\n",
    "        start_index = self._index\n        error_level = self.error_level\n        this: T | None = None\n", "silent",
    extra=[(P, "            if not this or retreat:\n                self._retreat(index)\n            self.error_level = error_level", "            if not this or retreat:\n                self._retreat(start_index)\n            self.error_level = error_level")])
add("C05", "benign: replace args[0] by seq_get(args, 0)", "sqlglot/parsers/bigquery.py",
    "        return exp.TsOrDsToTime(this=args[0])", "        return exp.TsOrDsToTime(this=seq_get(args, 0))", "silent")
add("C05", "benign: raise a new ParseError subclass", P,
    "    def _parse_command(self) -> exp.Command:\n        self._warn_unsupported()",
    "    def _parse_command(self) -> exp.Command:\n        if self.max_nodes == -2:\n            raise ParseError(\"x\")\n        self._warn_unsupported()", "silent")

# ------------------------------------------------------------------------------- C09
QUERY = "sqlglot/expressions/query.py"
add("C09", "builder embeds self before maybe_copy", QUERY,
    "        instance = maybe_copy(self, copy)\n        if not isinstance(alias, Expr):\n            alias = TableAlias(this=to_identifier(alias)) if alias else None\n\n        return Subquery(this=instance, alias=alias)",
    "        if not isinstance(alias, Expr):\n            alias = TableAlias(this=to_identifier(alias)) if alias else None\n\n        return Subquery(this=self, alias=alias)", "C09.a")
add("C09", "builder mutates self directly", QUERY,
    "        this = maybe_copy(self, copy)\n        inner = this.unnest()",
    "        self.set(\"alias\", None)\n        this = maybe_copy(self, copy)\n        inner = this.unnest()", "C09.a")
add("C09", "builder passes self on with copy=False", CORE,
    "        return not_(self, copy=copy)", "        return not_(self, copy=False)", "C09.a")
add("C09", "generate() no longer copies its argument", G,
    "        if copy:\n            expression = expression.copy()\n\n        expression = self.preprocess(expression)",
    "        expression = self.preprocess(expression)", "C09.b")
add("C09", "generate() defaults to copy=False", G,
    "    def generate(self, expression: exp.Expr, copy: bool = True) -> str:", "    def generate(self, expression: exp.Expr, copy: bool = False) -> str:", "C09.b")
add("C09", "optimize() hands the caller's tree to the rules", "sqlglot/optimizer/optimizer.py",
    "    optimized = exp.maybe_parse(expression, dialect=dialect, copy=True)", "    optimized = exp.maybe_parse(expression, dialect=dialect, copy=False)", "C09.b")
add("C09", "Expression.sql stops threading copy", CORE,
    "        return Dialect.get_or_raise(dialect).generate(self, copy=copy, **opts)", "        return Dialect.get_or_raise(dialect).generate(self, copy=False, **opts)", "C09.b")
add("C09", "__deepcopy__ shares the meta dict", CORE,
    "                copy._meta = deepcopy(node._meta)", "                copy._meta = node._meta", "C09.b")
add("C09", "replace_tables ignores its copy flag", "sqlglot/expressions/builders.py",
    "    return expression.transform(_replace_tables, copy=copy)", "    return expression.transform(_replace_tables, copy=False)", "C09.b")
add("C09", "copy=False on a borrowed tree in diff-like helper code", "sqlglot/schema.py",
    "def ensure_schema(\n", "def _verif_bad(table: exp.Table) -> exp.Expr:\n    return table.transform(lambda n: n, copy=False)\n\n\ndef ensure_schema(\n", "C09.c")
add("C09", "identifier_sql starts mutating its argument", "sqlglot/generators/tsql.py",
    "        identifier = super().identifier_sql(expression)\n", "        expression.set(\"quoted\", True)\n        identifier = super().identifier_sql(expression)\n", "C09.c")
add("C09", "benign: rename instance local", QUERY,
    "        instance = maybe_copy(self, copy)\n        if not isinstance(alias, Expr):\n            alias = TableAlias(this=to_identifier(alias)) if alias else None\n\n        return Subquery(this=instance, alias=alias)",
    "        inst = maybe_copy(self, copy)\n        if not isinstance(alias, Expr):\n            alias = TableAlias(this=to_identifier(alias)) if alias else None\n\n        return Subquery(this=inst, alias=alias)", "silent")
add("C09", "benign: copy=False on a freshly built node", "sqlglot/schema.py",
    "def ensure_schema(\n", "def _verif_ok() -> exp.Expr:\n    node = exp.Table(this=exp.to_identifier(\"t\"))\n    return node.transform(lambda n: n, copy=False)\n\n\ndef ensure_schema(\n", "silent")
add("C05", "revert PRQL unbound-local fix", "sqlglot/parsers/prql.py",
    "            self.raise_error(f\"Unsupported aggregation function {name}\")\n            return None\n",
    "            self.raise_error(f\"Unsupported aggregation function {name}\")\n", "C05.h")
add("C05", "local bound only on the matching branch and read after a non-raising error", P,
    "    def _parse_command(self) -> exp.Command:\n        self._warn_unsupported()",
    "    def _parse_command(self) -> exp.Command:\n        if self._curr:\n            verif_tok = self._curr\n        else:\n            self.raise_error(\"no token\")\n        self._prev_comments = verif_tok.comments\n        self._warn_unsupported()", "C05.h")


# ------------------------------------------------------------------------------- additions (session 2, second half)
add("C08", "revert SetOperation.select per-side copies", "sqlglot/expressions/query.py",
    "                *(e.copy() if isinstance(e, Expr) else e for e in expressions),\n",
    "                *expressions,\n", "C08.e")
add("C08", "UnicodeString declared a leaf class although it holds an escape node", "sqlglot/expressions/query.py",
    "class UnicodeString(Expression, Condition):\n    arg_types = {\"this\": True, \"escape\": False}\n",
    "class UnicodeString(Expression, Condition):\n    arg_types = {\"this\": True, \"escape\": False}\n    is_primitive = True\n", "C08.f")
add("C08", "parser builds a Literal around a parsed node", P,
    "            exp.HexString(\n                this=token.text,",
    "            exp.HexString(\n                this=self._parse_string() or token.text,", "C08.f")
add("C09", "benign: loop over both owned sides of a set operation with copy=False", "sqlglot/expressions/query.py",
    "        for query in (this.this, this.expression):", "        for query in [this.this, this.expression]:", "silent", 0)
add("C09", "set-operation select mutates the caller's tree (loop over self's sides)", "sqlglot/expressions/query.py",
    "        for query in (this.this, this.expression):", "        for query in (self.this, self.expression):", "C09.c")
add("C14", "Athena delegate generators lose the unsupported level", "sqlglot/generators/athena.py",
    "    if unsupported_level is not None:\n        kwargs[\"unsupported_level\"] = unsupported_level\n", "", "C14.e")
add("C05", "loop relies on break after a non-raising error once the callee un-read its keyword", P,
    "            if not prop:\n                self.raise_error(f\"Failed to parse property '{keyword}'\")\n                break\n            for p in ensure_list(prop):\n                properties.append(p)\n",
    "            if not prop:\n                self.raise_error(f\"Failed to parse property '{keyword}'\")\n\n            properties.extend(ensure_list(prop))\n", "C05.a")
add("C05", "revert column-constraint double retreat fix", P,
    "                # Some constraint parsers (e.g. NOT) already un-consume their keyword when they fail\n                self._retreat(index)\n",
    "                self._retreat(self._index - 1)\n", "C05.b")
add("C05", "truthiness guard weakened to a None test before indexing", P,
    "                if tokens and (type_token := tokens[0].token_type) in self.TYPE_TOKENS:",
    "                if tokens is not None and (type_token := tokens[0].token_type) in self.TYPE_TOKENS:", "C05.i")
add("C05", "revert parse_into empty-errors guard", P,
    "                if e.errors:\n                    e.errors[0][\"into_expression\"] = expression_type\n",
    "                e.errors[0][\"into_expression\"] = expression_type\n", "C05.i")
add("C05", "revert ClickHouse VALUES () guard", "sqlglot/parsers/clickhouse.py",
    "        if values and expressions and not isinstance(expressions[-1], exp.Tuple):",
    "        if values and not isinstance(expressions[-1], exp.Tuple):", "C05.i")
add("C05", "length test off by one before indexing", P,
    "                if type_token == TokenType.NULLABLE and len(expressions) == 1:\n                    this = expressions[0]",
    "                if type_token == TokenType.NULLABLE and len(expressions) <= 1:\n                    this = expressions[0]", "C05.i")
add("C05", "benign: len() == 1 written as truthiness plus length", P,
    "                if type_token == TokenType.NULLABLE and len(expressions) == 1:\n                    this = expressions[0]",
    "                if type_token == TokenType.NULLABLE and expressions and len(expressions) < 2:\n                    this = expressions[0]", "silent", 0)
add("C05", "revert _find_parser end-of-input guard", P,
    "        this = []\n        while self._curr:\n            # The current token might be multiple words",
    "        this = []\n        while True:\n            # The current token might be multiple words", "C05.j")
add("C05", "revert FOREIGN KEY ON DELETE end-of-input guard", P,
    "                if not self._curr:\n                    self.raise_error(f\"Expected an action after ON {kind.upper()}\")\n                    break\n                self._advance()",
    "                self._advance()", "C05.j")
add("C05", "peek dropped before an unconditional advance", P,
    "        if self._match_pair(TokenType.TABLE, TokenType.FUNCTION, advance=False):\n            self._advance()",
    "        if self._prev.token_type == TokenType.TABLE:\n            self._advance()", "C05.j")
add("C05", "benign: peek expressed through the current token's type", P,
    "        if self._match_pair(TokenType.TABLE, TokenType.FUNCTION, advance=False):\n            self._advance()",
    "        if self._curr.token_type == TokenType.TABLE and self._next.token_type == TokenType.FUNCTION:\n            self._advance()", "silent", 0)

add("C07", "unicode literal no longer neutralises line breaks", G,
    "            this = self._replace_line_breaks(this).replace(right_quote, right_quote * 2)",
    "            this = this.replace(right_quote, right_quote * 2)", "C07.d")
add("C07", "quoted identifier emitted without line-break neutralisation", G,
    "                f\"{self._identifier_start}{self._replace_line_breaks(text)}{self._identifier_end}\"",
    "                f\"{self._identifier_start}{text}{self._identifier_end}\"", "C07.d")
add("C07", "benign: neutralise first, then double the delimiter in a second statement", G,
    "            this = self._replace_line_breaks(this).replace(right_quote, right_quote * 2)",
    "            this = self._replace_line_breaks(this)\n            this = this.replace(right_quote, right_quote * 2)", "silent", 0)
add("C09", "child-list builder reads the existing clause before copying the instance", CORE,
    "    instance = maybe_copy(instance, copy)\n    parsed = []\n    properties = {} if properties is None else properties\n",
    "    parsed = []\n    properties = {} if properties is None else properties\n    existing = instance.args.get(arg)\n    if append and existing:\n        parsed = existing.expressions + parsed\n    instance = maybe_copy(instance, copy)\n",
    "C09.a")
add("C10", "outer CTE definitions win over the nested WITH's", "sqlglot/optimizer/scope.py",
    "            cte_sources={**self.cte_sources, **(cte_sources or {})},",
    "            cte_sources={**(cte_sources or {}), **self.cte_sources},", "C10.c")
add("C10", "benign: same precedence written with the | operator", "sqlglot/optimizer/scope.py",
    "            cte_sources={**self.cte_sources, **(cte_sources or {})},",
    "            cte_sources=self.cte_sources | (cte_sources or {}),", "silent", 0)
add("C12", "DType looked up by name although dump writes the value", "sqlglot/serde.py",
    "        return exp.DType(payload[VALUE])", "        return exp.DType[payload[VALUE]]", "C12.e")
add("C12", "type payloads memoised on DataType equality", "sqlglot/serde.py",
    "def load(\n    payloads: list[dict[str, t.Any]] | None,\n)",
    "import functools\n\n\n@functools.lru_cache(maxsize=64)\ndef _dump_type(dtype: exp.DataType) -> list[dict[str, t.Any]]:\n    return dump(dtype)\n\n\ndef load(\n    payloads: list[dict[str, t.Any]] | None,\n)",
    "C12.f")
add("C13", "fast path counts CR and LF separately (CRLF twice)", "sqlglot/tokenizer_core.py",
    "                    + sql.count(\"\\r\", pos, end)\n                    - sql.count(\"\\r\\n\", pos, end)\n",
    "                    + sql.count(\"\\r\", pos, end)\n", "C13.e")
add("C13", "revert: fast path counts LF only", "sqlglot/tokenizer_core.py",
    "                    + sql.count(\"\\r\", pos, end)\n                    - sql.count(\"\\r\\n\", pos, end)\n",
    "", "C13.e")
add("C13", "column restarts after the last LF only", "sqlglot/tokenizer_core.py",
    "                    self._col = end - max(sql.rfind(\"\\n\", pos, end), sql.rfind(\"\\r\", pos, end))",
    "                    self._col = end - sql.rfind(\"\\n\", pos, end)", "C13.e")
add("C13", "benign: count terms reordered", "sqlglot/tokenizer_core.py",
    "                    sql.count(\"\\n\", pos, end)\n                    + sql.count(\"\\r\", pos, end)\n",
    "                    sql.count(\"\\r\", pos, end)\n                    + sql.count(\"\\n\", pos, end)\n", "silent", 0)

add("C15", "revert: FROM table of eliminate_join_marks taken from a set", "sqlglot/transforms.py",
    "            new_from_name = next(name for name in old_joins if name in only_old_joins)\n",
    "            new_from_name = list[str](only_old_joins)[0]\n", "C15.a")
add("C15", "revert: SET_OP_MODIFIERS as a set display", P,
    "    SET_OP_MODIFIERS: t.ClassVar = (\"order\", \"limit\", \"offset\")",
    "    SET_OP_MODIFIERS: t.ClassVar = {\"order\", \"limit\", \"offset\"}", "C15.a")
add("C15", "revert: helper generator copies its parent's table without pruning", "sqlglot/generators/athena.py",
    "        if k not in generator.ALL_JSON_PATH_PARTS - TrinoGenerator.SUPPORTED_JSON_PATH_PARTS\n", "", "C15.f")
add("C15", "benign: iterate the modifiers in sorted order", P,
    "                for arg in self.SET_OP_MODIFIERS:", "                for arg in sorted(self.SET_OP_MODIFIERS):", "silent", 0)

add("C05", "revert Hive DATE_ADD increment guard", "sqlglot/generators/hive.py",
    "    if isinstance(increment, exp.Literal) and (increment.is_number or is_int(increment.name)):",
    "    if isinstance(increment, exp.Literal):", "C05.k")
add("C05", "revert Hive FLOAT size guard", "sqlglot/generators/hive.py",
    "            if size_expression and is_int(size_expression.name):", "            if size_expression:", "C05.k")
add("C05", "revert JSON path int() wrapper", "sqlglot/jsonpath.py",
    "            try:\n                return int(number)\n            except ValueError:\n                raise ParseError(_error(f\"Invalid number {number}\"))\n",
    "            return int(number)\n", "C05.k")
add("C05", "tokenizer hex validation loses its try", "sqlglot/tokenizer_core.py",
    "        try:\n            # If `value` can't be converted to a hex, fallback to tokenizing it as an identifier\n            int(value, 16)\n            self._add(TokenType.HEX_STRING, value[2:])  # Drop the 0x\n        except ValueError:\n            self._add(TokenType.IDENTIFIER)\n",
    "        int(value, 16)\n        self._add(TokenType.HEX_STRING, value[2:])  # Drop the 0x\n", "C05.k")
add("C05", "benign: guard written with str.isdigit", "sqlglot/generators/hive.py",
    "            if size_expression and is_int(size_expression.name):", "            if size_expression and size_expression.name.isdigit():", "silent", 0)

add("C05", "revert: _parse_join returns a join although the peeked APPLY was not consumed", P,
    "        if not skip_join_token and not join and self._index == index:\n            # APPLY was only peeked: if the table parser didn't consume it, there's no join here\n            return None\n",
    "", "C05.a")
add("C05", "separator match turned into a peek through the positional advance flag", P,
    "        while self._match(sep):\n            if isinstance(parse_result, exp.Expr):",
    "        while self._match(sep, False):\n            if isinstance(parse_result, exp.Expr):", "C05.a")

add("C05", "revert: UESCAPE character interpolated into a pattern unescaped", G,
    "            escape_pattern = re.compile(rf\"{re.escape(escape.name)}(\\d+)\")",
    "            escape_pattern = re.compile(rf\"{escape.name}(\\d+)\")", "C05.l")

add("C05", "revert: JSON path filter start index unchecked", "sqlglot/jsonpath.py",
    "            if start >= size:\n                raise ParseError(_error(\"Expected a filter or script expression\"))\n", "", "C05.m")
add("C05", "forward peek loses its bound check", "sqlglot/parsers/teradata.py",
    "            and self._index + 2 < len(self._tokens)\n", "", "C05.m")
add("C05", "backward peek without the lower-bound test", P,
    "        if self._index >= 2:\n            pre_volatile_token = self._tokens[self._index - 2]\n        else:\n            pre_volatile_token = None\n",
    "        pre_volatile_token = self._tokens[self._index - 2]\n", "C05.m")

add("C05", "handler renders its operand twice (exponential on nested negation)", G,
    "        this_sql = self.sql(expression, \"this\")\n        sep = \" \" if this_sql[0] == \"-\" else \"\"\n        return f\"-{sep}{this_sql}\"",
    "        sep = \" \" if self.sql(expression, \"this\").startswith(\"-\") else \"\"\n        return f\"-{sep}{self.sql(expression, 'this')}\"", "C05.n")
add("C07", "indent splits on carriage returns that _replace_line_breaks does not hide", G,
    "        lines = sql.split(\"\\n\")", "        lines = re.split(r\"\\r\\n|\\r|\\n\", sql)", "C07.e")
add("C07", "benign: indent splits with a compiled pattern for the newline only", G,
    "        lines = sql.split(\"\\n\")", "        lines = re.split(r\"\\n\", sql)", "silent", 0)
add("C08", "revert: lambda parameter type embedded once per occurrence", P,
    "exp.Cast(this=dot_or_id, to=typ.copy())", "exp.Cast(this=dot_or_id, to=typ)", "C08.g")
add("C08", "alias identifier looked up in a dict embedded without copy", "sqlglot/optimizer/qualify_tables.py",
    "                    column.set(\"table\", table_alias.copy())", "                    column.set(\"table\", table_alias)", "C08.g")
add("C15", "class body extends the base parser's trie in place", "sqlglot/parsers/teradata.py",
    "    SET_TRIE = new_trie(key.split(\" \") for key in SET_PARSERS)",
    "    SET_TRIE = new_trie(((\"QUERY_BAND\",),), parser.Parser.SET_TRIE)", "C15.c")
add("C18", "typed lookup converts the registered column types in place", SCHEMA,
    "                schema = {\n                    col: self._to_data_type(dtype) if isinstance(dtype, str) else dtype\n                    for col, dtype in schema.items()\n                }\n",
    "                for col, dtype in schema.items():\n                    if isinstance(dtype, str):\n                        schema[col] = self._to_data_type(dtype)\n", "C18.d")
add("C19", "one shared simplifier generator instance for all callers", "sqlglot/optimizer/simplify.py",
    "    return Gen().gen(expression, comments=comments)\n",
    "    return _GEN.gen(expression, comments=comments)\n", "C19.d",
    extra=[("sqlglot/optimizer/simplify.py", "GEN_DISPATCH = _build_gen_dispatch()\n", "GEN_DISPATCH = _build_gen_dispatch()\n\n_GEN = Gen()\n")])
add("C19", "revert: jsonpath resolves Dialect through the lazy package hook", "sqlglot/jsonpath.py",
    "    from sqlglot.dialects.dialect import Dialect\n", "    from sqlglot.dialects import Dialect\n", "C19.f")
add("C19", "dialect module imports sibling dialects through the package hook", "sqlglot/dialects/athena.py",
    "from sqlglot.dialects.trino import Trino\nfrom sqlglot.dialects.hive import Hive\n", "from sqlglot.dialects import Hive, Trino\n", "C19.f")

# benign refactors of code guarded by the newer rules: must stay silent
add("C05", "benign: JSON path bound check written as `not (start < size)`", "sqlglot/jsonpath.py",
    "            if start >= size:\n", "            if not (start < size):\n", "silent", 0)
add("C05", "benign: conversion guarded in an and-chain", "sqlglot/generators/hive.py",
    "            if size_expression and is_int(size_expression.name):\n                size = int(size_expression.name)\n",
    "            size = size_expression and is_int(size_expression.name) and int(size_expression.name)\n            if size:\n", "silent", 0)
add("C08", "benign: looked-up alias copied into a local first", "sqlglot/optimizer/qualify_tables.py",
    "                    column.set(\"table\", table_alias.copy())",
    "                    alias_copy = table_alias.copy()\n                    column.set(\"table\", alias_copy)", "silent", 0)
add("C18", "benign: typed lookup mutates a private copy of the registered columns", SCHEMA,
    "                schema = {\n                    col: self._to_data_type(dtype) if isinstance(dtype, str) else dtype\n                    for col, dtype in schema.items()\n                }\n",
    "                schema = dict(schema)\n                for col, dtype in list(schema.items()):\n                    if isinstance(dtype, str):\n                        schema[col] = self._to_data_type(dtype)\n", "silent", 0)
add("C19", "benign: jsonpath imports the dialect module and takes the attribute", "sqlglot/jsonpath.py",
    "    from sqlglot.dialects.dialect import Dialect\n", "    import sqlglot.dialects.dialect as _dialect_mod\n\n    Dialect = _dialect_mod.Dialect\n", "silent", 0)
add("C07", "benign: indent splits on a separator held in a variable (not decided, no alarm)", G,
    "        lines = sql.split(\"\\n\")", "        newline = \"\\n\"\n        lines = sql.split(newline)", "silent", 0)
add("C13", "benign: fast path line count through a local helper variable", "sqlglot/tokenizer_core.py",
    "                if newlines:\n                    self._line += newlines\n", "                if newlines:\n                    extra_lines = newlines\n                    self._line += extra_lines\n", "silent", 0)

add("C20", "bigram cache created once per distiller instead of once per diff()", DIFF,
    "        self._bigram_histo_cache: dict[int, defaultdict[str, int]] = {}\n\n        matching_set",
    "\n        matching_set", "C20.e",
    extra=[(DIFF, "        self._sql_generator = Dialect.get_or_raise(dialect).generator(comments=False)\n",
            "        self._sql_generator = Dialect.get_or_raise(dialect).generator(comments=False)\n        self._bigram_histo_cache: dict[int, defaultdict[str, int]] = {}\n")])
add("C20", "inputs listed depth-first but their copies breadth-first", DIFF,
    "    source_nodes = tuple(source.walk())\n    target_nodes = tuple(target.walk())\n",
    "    source_nodes = tuple(source.dfs())\n    target_nodes = tuple(target.dfs())\n", "C20.f")
add("C20", "benign: both sides listed depth-first", DIFF,
    "    source_nodes = tuple(source.walk())\n    target_nodes = tuple(target.walk())\n",
    "    source_nodes = tuple(source.dfs())\n    target_nodes = tuple(target.dfs())\n", "silent", 0,
    extra=[(DIFF, "compute_node_mappings(source_nodes, tuple(source_copy.walk()))", "compute_node_mappings(source_nodes, tuple(source_copy.dfs()))"),
           (DIFF, "compute_node_mappings(target_nodes, tuple(target_copy.walk()))", "compute_node_mappings(target_nodes, tuple(target_copy.dfs()))")])
add("C13", "error context window loses its lower clamp", "sqlglot/errors.py",
    "        start_context = sql[max(0, first_highlight_start - context_length) : first_highlight_start]",
    "        start_context = sql[first_highlight_start - context_length : first_highlight_start]", "C13.f")
add("C10", "upper-case folding ignores ASCII_ONLY_NORMALIZATION", DIALECT,
    "                normalized = (\n                    expression.this.translate(ASCII_UPPER)\n                    if self.ASCII_ONLY_NORMALIZATION\n                    else expression.this.upper()\n                )\n",
    "                normalized = expression.this.upper()\n", "C10.d")
add("C10", "revert: star modifiers keyed by id() of the source name", "sqlglot/optimizer/qualify_columns.py",
    "            columns_to_exclude = except_columns.get(table) or set()", "            columns_to_exclude = except_columns.get(id(table)) or set()", "C10.e")
add("C12", "type annotation dumped in a compact form that drops its scalar arguments", "sqlglot/serde.py",
    "                payload[TYPE] = dump(node.type)", "                payload[TYPE] = dump(node.type.this if node.type.is_leaf() else node.type)", "C12.g")
add("C12", "benign: type annotation dumped through a local alias", "sqlglot/serde.py",
    "            if node.type and node.type is not node:\n                payload[TYPE] = dump(node.type)",
    "            node_type = node.type\n            if node_type and node_type is not node:\n                payload[TYPE] = dump(node_type)", "silent", 0)

add("C08", "revert: Doris partition bounds stored as nested lists", "sqlglot/parsers/doris.py",
    "        values = self._parse_csv(\n            lambda: self.expression(\n                exp.Tuple(expressions=self._parse_wrapped_csv(self._parse_expression))\n            )\n        )\n",
    "        values = self._parse_csv(lambda: self._parse_wrapped_csv(self._parse_expression))\n", "C08.h")

add("C12", "revert: empty list arguments leave no trace in the payload", "sqlglot/serde.py",
    "                        if not vs:\n                            # An empty list has no items to carry its key, e.g. the `()` of `IDENTIFIER('f')()`\n                            payload.setdefault(EMPTY, []).append(k)\n",
    "", "C12.h", extra=[("sqlglot/serde.py", "    for arg_key in reversed(payload.get(EMPTY) or ()):\n        expression.set(arg_key, [])\n", "")])
add("C12", "loader forgets the empty-list key", "sqlglot/serde.py",
    "    for arg_key in reversed(payload.get(EMPTY) or ()):\n        expression.set(arg_key, [])\n", "", "C12.a")

# benign refactors for the rules added in the second seeded round
add("C20", "benign: bigram cache cleared by rebinding through a helper local", DIFF,
    "        self._bigram_histo_cache: dict[int, defaultdict[str, int]] = {}\n\n        matching_set",
    "        cache: dict[int, defaultdict[str, int]] = {}\n        self._bigram_histo_cache = cache\n\n        matching_set", "silent", 0)
add("C13", "benign: clamped lower bound computed in a local first", "sqlglot/errors.py",
    "        start_context = sql[max(0, first_highlight_start - context_length) : first_highlight_start]",
    "        window_start = max(0, first_highlight_start - context_length)\n        start_context = sql[window_start:first_highlight_start]", "silent", 0)
add("C10", "benign: case folding written with if/else statements", DIALECT,
    "                normalized = (\n                    expression.this.translate(ASCII_UPPER)\n                    if self.ASCII_ONLY_NORMALIZATION\n                    else expression.this.upper()\n                )\n",
    "                if self.ASCII_ONLY_NORMALIZATION:\n                    normalized = expression.this.translate(ASCII_UPPER)\n                else:\n                    normalized = expression.this.upper()\n", "silent", 0)
add("C12", "benign: empty-list keys recorded with an explicit membership test", "sqlglot/serde.py",
    "                            payload.setdefault(EMPTY, []).append(k)\n",
    "                            if EMPTY not in payload:\n                                payload[EMPTY] = []\n                            payload[EMPTY].append(k)\n", "silent", 0)
add("C08", "benign: partition bounds wrapped through a helper lambda variable", "sqlglot/parsers/doris.py",
    "        values = self._parse_csv(\n            lambda: self.expression(\n                exp.Tuple(expressions=self._parse_wrapped_csv(self._parse_expression))\n            )\n        )\n",
    "        parse_bound = lambda: self.expression(  # noqa: E731\n            exp.Tuple(expressions=self._parse_wrapped_csv(self._parse_expression))\n        )\n        values = self._parse_csv(parse_bound)\n", "silent", 0)
add("C05", "benign: forward peek bound check against the size field", "sqlglot/parsers/teradata.py",
    "            and self._index + 2 < len(self._tokens)\n", "            and self._index + 2 < self._tokens_size\n", "silent", 0)
add("C15", "benign: helper generator prunes through an explicit set difference variable", "sqlglot/generators/athena.py",
    "        if k not in generator.ALL_JSON_PATH_PARTS - TrinoGenerator.SUPPORTED_JSON_PATH_PARTS\n",
    "        if k not in (generator.ALL_JSON_PATH_PARTS - TrinoGenerator.SUPPORTED_JSON_PATH_PARTS)\n", "silent", 0)

add("C20", "benign: heap tie-breaker taken from a counter", "sqlglot/diff.py",
    "                                len(candidate_matchings),\n                                source_leaf,\n", "                                next(tie_breaker),\n                                source_leaf,\n", "silent",
    extra=[("sqlglot/diff.py", "        candidate_matchings: list[tuple[float, int, int, exp.Expr, exp.Expr]] = []\n", "        candidate_matchings: list[tuple[float, int, int, exp.Expr, exp.Expr]] = []\n        tie_breaker = iter(range(1 << 62))\n")])
add("C20", "candidate heap entries lose their insertion counter", "sqlglot/diff.py",
    "                                len(candidate_matchings),\n                                source_leaf,\n", "                                source_leaf,\n", "C20.g",
    extra=[("sqlglot/diff.py", "candidate_matchings: list[tuple[float, int, int, exp.Expr, exp.Expr]] = []", "candidate_matchings: list[tuple[float, int, exp.Expr, exp.Expr]] = []"),
           ("sqlglot/diff.py", "            _, _, _, source_leaf, target_leaf = heappop(candidate_matchings)", "            _, _, source_leaf, target_leaf = heappop(candidate_matchings)")])
add("C20", "equal trees answered by pairing the two traversals by position", "sqlglot/diff.py",
    "        self._unmatched_source_nodes = set(self._source_index) - set(pre_matched_nodes)\n",
    "        if not pre_matched_nodes and self._source == self._target and not delta_only:\n            return [Keep(s, t) for s, t in zip(self._source_index.values(), self._target_index.values())]\n        self._unmatched_source_nodes = set(self._source_index) - set(pre_matched_nodes)\n", "C20.h")
add("C20", "benign: kept pair looked up through a renamed loop over the matchings", "sqlglot/diff.py",
    "        for kept_source_node_id, kept_target_node_id in matchings.items():\n            source_node = self._source_index[kept_source_node_id]\n            target_node = self._target_index[kept_target_node_id]\n",
    "        for src_id, tgt_id in matchings.items():\n            kept_source_node_id, kept_target_node_id = src_id, tgt_id\n            source_node = self._source_index[src_id]\n            target_node = self._target_index[tgt_id]\n", "silent")

add("C12", "_load looks a dotted class name up in sqlglot.expressions when a class of that name exists there", "sqlglot/serde.py",
    "        module = __import__(module_path, fromlist=[class_name])\n    else:\n        module = exp\n",
    "        module = exp\n        if not hasattr(exp, class_name):\n            module = __import__(module_path, fromlist=[class_name])\n    else:\n        module = exp\n", "C12.i")
add("C12", "benign: _load imports the recorded module through importlib", "sqlglot/serde.py",
    "        module = __import__(module_path, fromlist=[class_name])\n",
    "        import importlib\n\n        module = importlib.import_module(module_path)\n", "silent")

add("C15", "revert: dialect extends the sets of a shallow copy of the global coercion table in place", "sqlglot/dialects/bigquery.py",
    "        **deepcopy(TypeAnnotator.COERCES_TO),", "        **TypeAnnotator.COERCES_TO,", "C15.c")
add("C15", "benign: element rebound to a new set instead of updated in place", "sqlglot/dialects/bigquery.py",
    "    COERCES_TO[exp.DType.DECIMAL] |= {exp.DType.BIGDECIMAL}", "    COERCES_TO[exp.DType.DECIMAL] = COERCES_TO[exp.DType.DECIMAL] | {exp.DType.BIGDECIMAL}", "silent", 0)

add("C15", "Databricks widens the shared coercion sets from inside a class-body loop", "sqlglot/dialects/databricks.py",
    "    COERCES_TO = defaultdict(set, deepcopy(TypeAnnotator.COERCES_TO))\n", "    COERCES_TO = defaultdict(set, TypeAnnotator.COERCES_TO)\n", "C15.c")

add("C08", "revert: pipe AGGREGATE groups embedded in SELECT and GROUP BY", P,
    "                *[\n                    projection.args.get(\"alias\", projection).copy()\n                    for projection in aggregates_or_groups\n                ],\n",
    "                *[projection.args.get(\"alias\", projection) for projection in aggregates_or_groups],\n", "C08.e")
add("C09", "revert: replace_placeholders adopts the caller's replacement node", "sqlglot/expressions/builders.py",
    "                    return convert(new_name, copy=True)", "                    return convert(new_name)", "C09.b")
add("C09", "cast() adopts its operand and may return it as is", "sqlglot/expressions/builders.py",
    "    expr = maybe_parse(expression, copy=copy, dialect=dialect, **opts)\n    data_type = DataType.build(to, copy=copy, dialect=dialect, **opts)",
    "    expr = maybe_parse(expression, dialect=dialect, **opts)\n    data_type = DataType.build(to, copy=copy, dialect=dialect, **opts)", "C09.a")
add("C08", "set() links only the inserted element after shifting the list", CORE,
    "            else:\n                expressions.insert(index, value)\n\n            value = expressions\n",
    "            else:\n                expressions.insert(index, value)\n                self._set_parent(arg_key, value, index)\n                return\n\n            value = expressions\n", "C08.i")
add("C08", "optimizer helper embeds its parameter with copy=False", "sqlglot/optimizer/canonicalize.py",
    "    node.replace(exp.cast(node.copy(), to=to))", "    node.replace(exp.cast(node.copy(), to=to, copy=False))", "C08.j")
add("C14", "only the first transform of a preprocess chain is guarded", "sqlglot/transforms.py",
    "            expression = transforms[0](expression)\n            for transform in transforms[1:]:\n                expression = transform(expression)\n        except UnsupportedError as unsupported_error:\n            self.unsupported(str(unsupported_error))\n",
    "            expression = transforms[0](expression)\n        except UnsupportedError as unsupported_error:\n            self.unsupported(str(unsupported_error))\n        else:\n            for transform in transforms[1:]:\n                expression = transform(expression)\n", "C14.c")
add("C05", "routine body loop falls through to the next chunk after reporting the end", "sqlglot/parsers/trino.py",
    "                    self.raise_error(\"Unexpected end of routine body\")\n                    break\n", "                    self.raise_error(\"Unexpected end of routine body\")\n", "C05.o")

add("C19", "engine tokenizers handed out by a memoised factory", "sqlglot/dialects/athena.py",
    "            self._hive_tokenizer = Hive().tokenizer()\n            self._trino_tokenizer = _TrinoTokenizer(Trino())\n",
    "            self._hive_tokenizer, self._trino_tokenizer = _engine_tokenizers()\n", "C19.h",
    extra=[("sqlglot/dialects/athena.py", "\nclass Athena(Dialect):", "\nimport functools\n\n\n@functools.lru_cache(maxsize=None)\ndef _engine_tokenizers():\n    return Hive().tokenizer(), _TrinoTokenizer(Trino())\n\n\nclass Athena(Dialect):")])
add("C19", "parser raises and restores the interpreter recursion limit around a parse", P,
    "        return self._parse_batch_statements(parse_method=parse_method, sep_first_statement=False)\n",
    "        import sys\n\n        limit = sys.getrecursionlimit()\n        sys.setrecursionlimit(max(limit, 10000))\n        try:\n            return self._parse_batch_statements(parse_method=parse_method, sep_first_statement=False)\n        finally:\n            sys.setrecursionlimit(limit)\n", "C19.g")

add("C04", "revert: interval text placed raw between quotes", G,
    "            this = self.escape_str(expression.this.name) if expression.this else \"\"\n            if this:\n                interval_keyword",
    "            this = expression.this.name if expression.this else \"\"\n            if this:\n                interval_keyword", "C04.R9")
add("C04", "revert: sp_rename target name placed raw between quotes", "sqlglot/generators/tsql.py",
    "'{self.escape_str(action.this.name)}'\"", "'{action.this.name}'\"", "C04.R9")
add("C04", "benign: escaped text bound to a local before it is quoted", "sqlglot/generators/tsql.py",
    "            return f\"EXEC sp_rename '{old_name}', '{self.escape_str(action.this.name)}'\"",
    "            new_name = self.escape_str(action.this.name)\n            return f\"EXEC sp_rename '{old_name}', '{new_name}'\"", "silent", 0)

add("C04", "benign: qualify elimination always quotes the rebuilt projection", "sqlglot/transforms.py",
    'exp.column(alias_or_name, quoted=identifier.args.get("quoted"))', 'exp.column(alias_or_name, quoted=True)', "silent")
add("C04", "qualify elimination rebuilds the projection without its quoted flag", "sqlglot/transforms.py",
    'exp.column(alias_or_name, quoted=identifier.args.get("quoted"))', 'exp.column(alias_or_name)', "C04.R10")
add("C04", "safe bare words may contain a dollar sign", "sqlglot/expressions/core.py",
    'SAFE_IDENTIFIER_RE: t.Pattern[str] = re.compile(r"^[_a-zA-Z][\\w]*\\Z")', 'SAFE_IDENTIFIER_RE: t.Pattern[str] = re.compile(r"^[_a-zA-Z][\\w$]*\\Z")', "C04.R11")
add("C04", "revert: safe bare words anchored with $ (trailing line break)", "sqlglot/expressions/core.py",
    'SAFE_IDENTIFIER_RE: t.Pattern[str] = re.compile(r"^[_a-zA-Z][\\w]*\\Z")', 'SAFE_IDENTIFIER_RE: t.Pattern[str] = re.compile(r"^[_a-zA-Z][\\w]*$")', "C04.R11")
add("C04", "benign: safe bare words written with an explicit character class", "sqlglot/expressions/core.py",
    'SAFE_IDENTIFIER_RE: t.Pattern[str] = re.compile(r"^[_a-zA-Z][\\w]*\\Z")', 'SAFE_IDENTIFIER_RE: t.Pattern[str] = re.compile(r"^[_a-zA-Z][_a-zA-Z0-9]*\\Z")', "silent")

add("C08", "revert: replace() clears the links of a node contained in its own replacement list", CORE,
    "        if expression is not self and not (\n            type(expression) is list and any(e is self for e in expression)\n        ):\n",
    "        if expression is not self:\n", "C08.b")
add("C08", "revert: pushdown_dnf embeds the looked-up predicate itself", "sqlglot/optimizer/pushdown_predicates.py",
    "                node.on(predicate.copy(), copy=False)", "                node.on(predicate, copy=False)", "C08.g")

add("C08", "revert: star REPLACE embeds the looked-up replacement itself for every source", "sqlglot/optimizer/qualify_columns.py",
    "                    replaced = replaced_columns.get(name)\n                    selection_expr = (\n                        replaced.copy()\n                        if replaced\n                        else exp.column(name, table=table, quoted=quoted)\n                    )\n",
    "                    selection_expr = replaced_columns.get(name) or exp.column(\n                        name, table=table, quoted=quoted\n                    )\n", "C08.g")
add("C08", "join list sorted in place through an annotated alias", "sqlglot/optimizer/optimize_joins.py",
    "        parent.set(\n            \"joins\",\n            [\n                joins_by_name[name]\n                for name in tsort(dag)\n                if name != from_.alias_or_name and name in joins_by_name\n            ],\n        )\n",
    "        order = {name: position for position, name in enumerate(tsort(dag))}\n        joins.sort(key=lambda join: order[join.alias_or_name])\n", "C08.a")
add("C08", "revert: elimination stores the surviving operand in two places", "sqlglot/optimizer/simplify.py",
    "                    op.replace(complement.copy())\n", "                    op.replace(complement)\n", "C08.k")
add("C08", "merged projection moved into the first reference, then wrapped in place for a later one", "sqlglot/optimizer/merge_subqueries.py",
    "            column.replace(expression.copy() if i < last else expression)\n",
    "            column.replace(expression.copy() if i > 0 else expression)\n", "C08.k")
add("C08", "benign: last-reference move written as an if statement", "sqlglot/optimizer/merge_subqueries.py",
    "            column.replace(expression.copy() if i < last else expression)\n",
    "            if i == last:\n                column.replace(expression)\n            else:\n                column.replace(expression.copy())\n", "silent")
add("C08", "__deepcopy__ restores the root's cached hash after the children were attached", "sqlglot/expressions/core.py",
    "                    copy.args[k] = vs\n\n        return root\n",
    "                    copy.args[k] = vs\n\n        root._hash = self._hash\n        return root\n", "C08.d")

add("C13", "revert: multi-character advances ignore the line breaks they step over", "sqlglot/tokenizer_core.py",
    "                self._line += breaks\n                self._col = i - 1 - max(skipped.rfind(\"\\n\"), skipped.rfind(\"\\r\"))\n",
    "                pass\n", "C13.g")
add("C13", "multi-character branch counts CR and LF separately", "sqlglot/tokenizer_core.py",
    "                breaks = skipped.count(\"\\n\") + skipped.count(\"\\r\") - skipped.count(\"\\r\\n\")\n",
    "                breaks = skipped.count(\"\\n\") + skipped.count(\"\\r\")\n", "C13.g")
add("C05", "revert: DataType enum looked up by token name without a membership test", P,
    "            if type_token.name not in exp.DType.__members__:\n                # Type tokens without a DataType counterpart are handled above, e.g. NULLABLE(<type>)\n                self.raise_error(f\"Invalid arguments for type {type_token.name}\")\n                self._retreat(index)\n                return None\n\n",
    "", "C05.p")

add("C05", "revert: builder retried with dialect= inside the TypeError handler, unprotected", "sqlglot/parser.py",
    "                    try:\n                        func = func_builder(args, dialect=self.dialect)\n                    except TypeError:\n                        # The builder itself failed on these arguments\n                        self.raise_error(f\"Invalid arguments for function {this}\")\n                        func = exp.Anonymous(this=this, expressions=args)\n",
    "                    func = func_builder(args, dialect=self.dialect)\n", "C05.q")
add("C05", "revert: pipe set operator asserts the class of its operand", "sqlglot/parser.py",
    "            _unwrap_query(first_setop.expression.pop()),\n", "            first_setop.expression.pop().assert_is(exp.Subquery).unnest(),\n", "C05.r")
add("C05", "pipe row count converted without the literal test", "sqlglot/parser.py",
    "        if isinstance(count, exp.Literal) and count.is_int:\n            return count.to_py()\n", "        if count:\n            return count.to_py()\n", "C05.r")
add("C05", "benign: pipe row count tested with is_number and converted under a ValueError handler", "sqlglot/parser.py",
    "        if isinstance(count, exp.Literal) and count.is_int:\n            return count.to_py()\n",
    "        if isinstance(count, exp.Literal) and count.is_int:\n            try:\n                return count.to_py()\n            except ValueError:\n                pass\n", "silent")
add("C05", "revert: MAP builder indexes the value of the last key unconditionally", "sqlglot/parser.py",
    "        values.append(seq_get(args, i + 1) or exp.Null())\n", "        values.append(args[i + 1])\n", "C05.s")
add("C05", "hive named_struct builder walks up to len(args)", "sqlglot/parsers/hive.py",
    "    for i in range(0, len(args) - 1, 2):", "    for i in range(0, len(args), 2):", "C05.s")
add("C05", "revert: connector function unpacks the argument list it just reported empty", "sqlglot/parser.py",
    "            self.raise_error(\"Expected at least one argument\")\n            return exp.Paren()\n", "            self.raise_error(\"Expected at least one argument\")\n", "C05.t")
add("C05", "revert: Teradata converts the operand of a negation it has not tested", "sqlglot/generators/teradata.py",
    "        if isinstance(value, exp.Neg) and value.this.is_number:\n", "        if isinstance(value, exp.Neg):\n", "C05.r")
add("C05", "benign: DuckDB array position guard split into two early exits", "sqlglot/generators/duckdb.py",
    "    if not position or not position.is_int:\n        self.unsupported(\"ARRAY_INSERT can only be transpiled with a literal position\")\n        return self.func(\"ARRAY_INSERT\", this, position, element)\n",
    "    if not position:\n        return self.func(\"ARRAY_INSERT\", this, position, element)\n    if not position.is_int:\n        self.unsupported(\"ARRAY_INSERT can only be transpiled with a literal position\")\n        return self.func(\"ARRAY_INSERT\", this, position, element)\n", "silent")
add("C05", "benign: connector function builds its result under a test of the argument list", "sqlglot/parser.py",
    "            self.raise_error(\"Expected at least one argument\")\n            return exp.Paren()\n\n        # Wrapped so the connector keeps its precedence in the parent context\n        return exp.Paren(this=connector(*args, copy=False))\n",
    "            self.raise_error(\"Expected at least one argument\")\n\n        # Wrapped so the connector keeps its precedence in the parent context\n        return exp.Paren(this=connector(*args, copy=False)) if args else exp.Paren()\n", "silent")
add("C05", "revert: DEFAULT <property> dispatch outside the TypeError conversion", "sqlglot/parser.py",
    "                try:\n                    return self.PROPERTY_PARSERS[self._prev.text.upper()](self, default=True)\n                except TypeError:\n                    self.raise_error(f\"Cannot parse property '{self._prev.text}'\")\n",
    "                return self.PROPERTY_PARSERS[self._prev.text.upper()](self, default=True)\n", "C05.q")
add("C05", "benign: the property parser is bound to a local before the guarded keyword call", "sqlglot/parser.py",
    "                try:\n                    return self.PROPERTY_PARSERS[self._prev.text.upper()](self, default=True)\n                except TypeError:\n",
    "                property_parser = self.PROPERTY_PARSERS[self._prev.text.upper()]\n                try:\n                    return property_parser(self, default=True)\n                except TypeError:\n", "silent")

add("C07", "revert: ON ERROR default rendered with str()", G,
    "            f\"DEFAULT {self.sql(error)} ON ERROR\"", "            f\"DEFAULT {error} ON ERROR\"", "C07.f")
add("C07", "lock wait literal rendered with str()", G,
    "                wait = f\" WAIT {self.sql(wait)}\"", "                wait = f\" WAIT {wait}\"", "C07.f")
add("C18", "constructor normalises qualifiers without is_table", SCHEMA,
    "            normalized_keys = [self._normalize_name(key, is_table=True) for key in keys]",
    "            *qualifiers, table_name = keys\n            normalized_keys = [self._normalize_name(key) for key in qualifiers]\n            normalized_keys.append(self._normalize_name(table_name, is_table=True))", "C18.e")

add("C07", "revert: DuckDB cuts the closing parenthesis of a function rendered with its comments", "sqlglot/generators/duckdb.py",
    '        this = self.sql(expression.this, comment=False).rstrip(")")\n', '        this = self.sql(expression, "this").rstrip(")")\n', "C07.h")
add("C07", "benign: DuckDB cuts the closing parenthesis with a slice", "sqlglot/generators/duckdb.py",
    '        this = self.sql(expression.this, comment=False).rstrip(")")\n', '        this = self.sql(expression.this, comment=False)[:-1]\n', "silent")
add("C07", "revert: MAKE_INTERVAL's string laid out by the pretty printer", "sqlglot/dialects/dialect.py",
    "    return f\"INTERVAL '{sep.join(args)}'\"\n", "    return f\"INTERVAL '{self.format_args(*args, sep=sep)}'\"\n", "C07.g")
add("C07", "revert: format_time renders the format with its comments", "sqlglot/generator.py",
    '            self.sql(expression.args.get("format"), comment=False),\n', '            self.sql(expression, "format"),\n', "C07.g")
add("C07", "log base tested on its rendered text", "sqlglot/generator.py",
    "            if this.name in (\"2\", \"10\"):\n                return self.func(f\"LOG{this.name}\", expr)\n",
    "            base = self.sql(this)\n            if base in (\"2\", \"10\"):\n                return self.func(f\"LOG{base}\", expr)\n", "C07.g")
add("C07", "compound interval amount rendered into the quoted string", "sqlglot/generator.py",
    "            this = self.escape_str(expression.this.name) if expression.this else \"\"\n",
    "            this = self.escape_str(expression.this.name or self.sql(expression.this)) if expression.this else \"\"\n", "C07.g")
add("C07", "benign: log base tested on the literal's own text through a local", "sqlglot/generator.py",
    "            if this.name in (\"2\", \"10\"):\n                return self.func(f\"LOG{this.name}\", expr)\n",
    "            base = this.name\n            if base in (\"2\", \"10\"):\n                return self.func(f\"LOG{base}\", expr)\n", "silent")

add("C18", "ambiguous partial name resolves to the first candidate when the failure-only flag is off", "sqlglot/schema.py",
    "            if len(possibilities) == 1:\n                parts.extend(possibilities[0])\n            else:\n                if raise_on_missing:\n                    joined_parts = \".\".join(parts)\n                    message = \", \".join(\".\".join(p) for p in possibilities)\n                    raise SchemaError(f\"Ambiguous mapping for {joined_parts}: {message}.\")\n\n                return None\n",
    "            if len(possibilities) > 1 and raise_on_missing:\n                joined_parts = \".\".join(parts)\n                message = \", \".join(\".\".join(p) for p in possibilities)\n                raise SchemaError(f\"Ambiguous mapping for {joined_parts}: {message}.\")\n\n            parts.extend(possibilities[0])\n",
    "C18.f")
add("C18", "nested_get answers an empty mapping instead of None when the failure-only flag is off", "sqlglot/schema.py",
    "                raise ValueError(f\"Unknown {name}: {key}\")\n            return None\n",
    "                raise ValueError(f\"Unknown {name}: {key}\")\n            return {}\n", "C18.f")
add("C18", "has_column reduces the column to its bare name before normalising", "sqlglot/schema.py",
    "        normalized_column_name = self._normalize_name(\n            column if isinstance(column, str) else column.this, dialect=dialect, normalize=normalize\n        )\n\n        table_schema: dict[str, object] | None = self.find(normalized_table, raise_on_missing=False)\n        return normalized_column_name in table_schema",
    "        name = column if isinstance(column, str) else column.name\n        normalized_column_name = self._normalize_name(name, dialect=dialect, normalize=normalize)\n\n        table_schema: dict[str, object] | None = self.find(normalized_table, raise_on_missing=False)\n        return normalized_column_name in table_schema",
    "C18.g")
add("C18", "benign: has_column keeps the identifier in a local before normalising", "sqlglot/schema.py",
    "        normalized_column_name = self._normalize_name(\n            column if isinstance(column, str) else column.this, dialect=dialect, normalize=normalize\n        )\n\n        table_schema: dict[str, object] | None = self.find(normalized_table, raise_on_missing=False)\n        return normalized_column_name in table_schema",
    "        ident = column if isinstance(column, str) else column.this\n        normalized_column_name = self._normalize_name(ident, dialect=dialect, normalize=normalize)\n\n        table_schema: dict[str, object] | None = self.find(normalized_table, raise_on_missing=False)\n        return normalized_column_name in table_schema",
    "silent")
add("C18", "benign: the None answer of an ambiguous lookup moved into an else branch", "sqlglot/schema.py",
    "                    raise SchemaError(f\"Ambiguous mapping for {joined_parts}: {message}.\")\n\n                return None\n",
    "                    raise SchemaError(f\"Ambiguous mapping for {joined_parts}: {message}.\")\n                else:\n                    return None\n",
    "silent")

add("C19", "distiller handed out by a memoised factory", DIFF,
    "        edit_script = ChangeDistiller(**kwargs).diff(", "        edit_script = _distiller(**kwargs).diff(", "C19.h",
    extra=[(DIFF, "\nclass ChangeDistiller:", "\nimport functools\n\n\n@functools.lru_cache(maxsize=None)\ndef _distiller(**kwargs):\n    return ChangeDistiller(**kwargs)\n\n\nclass ChangeDistiller:")])
add("C10", "pseudo-column exclusion applied regardless of the dialect setting", "sqlglot/optimizer/qualify_columns.py",
    "            if pseudocolumns and dialect.EXCLUDES_PSEUDOCOLUMNS_FROM_STAR:", "            if pseudocolumns:", "C10.f")
add("C01", "generator stops consulting a dialect-overridden setting", G,
    "        if not self.LOCKING_READS_SUPPORTED:\n            self.unsupported(\"Locking reads using 'FOR UPDATE/SHARE' are not supported\")\n            return \"\"\n", "", "C01.d")

add("C10", "benign: default db marked through a differently named local", "sqlglot/optimizer/qualify_tables.py",
    "        db = exp.parse_identifier(db, dialect=dialect)\n        db.meta[\"is_table\"] = True\n        db = normalize_identifiers(db, dialect=dialect)\n",
    "        db_ident = exp.parse_identifier(db, dialect=dialect)\n        db_ident.meta[\"is_table\"] = True\n        db = normalize_identifiers(db_ident, dialect=dialect)\n", "silent")
add("C10", "default db normalised without the table mark", "sqlglot/optimizer/qualify_tables.py",
    "        db = exp.parse_identifier(db, dialect=dialect)\n        db.meta[\"is_table\"] = True\n        db = normalize_identifiers(db, dialect=dialect)\n",
    "        db = normalize_identifiers(exp.parse_identifier(db, dialect=dialect), dialect=dialect)\n", "C10.g")
add("C10", "default catalog marked only after it was normalised", "sqlglot/optimizer/qualify_tables.py",
    "        catalog.meta[\"is_table\"] = True\n        catalog = normalize_identifiers(catalog, dialect=dialect)\n",
    "        catalog = normalize_identifiers(catalog, dialect=dialect)\n        catalog.meta[\"is_table\"] = True\n", "C10.g")

add("C19", "SingleStore's generator module is imported before the MySQL dialect exists", "sqlglot/dialects/singlestore.py",
    "from sqlglot.dialects.mysql import MySQL\nfrom sqlglot.generators.singlestore import SingleStoreGenerator\n",
    "from sqlglot.generators.singlestore import SingleStoreGenerator\nfrom sqlglot.dialects.mysql import MySQL\n", "C19.i")
add("C19", "Athena's Trino delegate filters the live TRANSFORMS of TrinoGenerator at import", "sqlglot/generators/athena.py",
    "        for k, v in {\n            **TrinoGenerator.TRANSFORMS,\n            exp.PartitionedByProperty: _partitioned_by_property_sql,\n            exp.LocationProperty: _location_property_sql,\n        }.items()\n",
    "        for k, v in TrinoGenerator.TRANSFORMS.items()\n", "C19.i")
add("C19", "benign: StarRocks filters a snapshot of the MySQL transforms", "sqlglot/generators/starrocks.py",
    "for k, v in MySQLGenerator.TRANSFORMS.items()", "for k, v in dict(MySQLGenerator.TRANSFORMS).items()", "silent")

add("C01", "hive prints ARRAY_UNIQUE_AGG under a name its parser reads as another, differently printed class", "sqlglot/generators/hive.py",
    '        exp.ArrayUniqueAgg: rename_func("COLLECT_SET"),', '        exp.ArrayUniqueAgg: rename_func("ANY_VALUE"),', "C01.e")
add("C01", "hive parser reads COLLECT_SET as AnyValue (printed FIRST) while ArrayUniqueAgg is still printed COLLECT_SET", "sqlglot/parsers/hive.py",
    '        "COLLECT_SET": exp.ArrayUniqueAgg.from_arg_list,', '        "COLLECT_SET": exp.AnyValue.from_arg_list,', "C01.e")
add("C01", "benign: COLLECT_SET printed by a bespoke lambda", "sqlglot/generators/hive.py",
    '        exp.ArrayUniqueAgg: rename_func("COLLECT_SET"),', '        exp.ArrayUniqueAgg: lambda self, e: self.func("COLLECT_SET", e.this),', "silent")
add("C01", "T-SQL date-part alias m normalised in two steps (m -> mm -> month)", "sqlglot/parsers/tsql.py",
    '    "m": "month",\n', '    "m": "mm",\n', "C01.g")
add("C01", "revert: DuckDB maps the aliases of DAYOFWEEKISO in two steps", "sqlglot/dialects/duckdb.py",
    '        **{k: "ISODOW" if v == "DAYOFWEEKISO" else v for k, v in Dialect.DATE_PART_MAPPING.items()},\n', '        **Dialect.DATE_PART_MAPPING,\n', "C01.g")
add("C01", "benign: a further alias of month in the T-SQL date-part table", "sqlglot/parsers/tsql.py",
    '    "m": "month",\n', '    "m": "month",\n    "mon": "month",\n', "silent")
add("C01", "DuckDB parser gates the map-subscript marker at <= 1.1 while the generator switches at 1.2", "sqlglot/parsers/duckdb.py",
    "        if self.dialect.version < (1, 2) and isinstance(bracket, exp.Bracket):", "        if self.dialect.version <= (1, 1) and isinstance(bracket, exp.Bracket):", "C01.h")
add("C01", "benign: DuckDB parser gate written with the operands negated", "sqlglot/parsers/duckdb.py",
    "        if self.dialect.version < (1, 2) and isinstance(bracket, exp.Bracket):", "        if not self.dialect.version >= (1, 2) and isinstance(bracket, exp.Bracket):", "silent")
add("C01", "tsql prints TIMESTAMPNTZ as TIMESTAMP, which T-SQL reads as ROWVERSION", "sqlglot/generators/tsql.py",
    '        exp.DType.TIMESTAMPNTZ: "DATETIME2",', '        exp.DType.TIMESTAMPNTZ: "TIMESTAMP",', "C01.f")
add("C01", "benign: tsql prints DECIMAL under its own name", "sqlglot/generators/tsql.py",
    '        exp.DType.DECIMAL: "NUMERIC",', '        exp.DType.DECIMAL: "DECIMAL",', "silent")

add("C13", "star position taken from the cursor after the modifiers were parsed", P,
    "                rename=self._parse_star_op(\"RENAME\"),\n            )\n        ).update_positions(star_token)",
    "                rename=self._parse_star_op(\"RENAME\"),\n            ),\n            token=self._prev,\n        )", "C13.h")

add("C13", "revert: heredoc-tag rewind keeps the advanced line", "sqlglot/tokenizer_core.py",
    "                    self._line, self._col = line, col\n", "", "C13.i")

add("C13", "revert: command text token keeps the nested scan's start", "sqlglot/tokenizer_core.py",
    "                self._start = start + len(raw) - len(raw.lstrip())\n", "", "C13.j")

add("C13", "benign: merged field name states its whole span in one call", "sqlglot/parser.py",
    "            number = field\n            field = exp.Identifier(this=name, quoted=True).update_positions(number)\n            if last and \"start\" in number.meta:\n                field.update_positions(\n                    line=last.line, col=last.col, start=number.meta[\"start\"], end=last.end\n                )\n",
    "            number = field\n            end = last or self._prev\n            field = exp.Identifier(this=name, quoted=True).update_positions(\n                line=end.line, col=end.col, start=number.meta.get(\"start\"), end=end.end\n            )\n", "silent")
add("C13", "revert: every part of a split BigQuery name takes the span of the quoted identifier", "sqlglot/parsers/bigquery.py",
    "                    part.update_positions(written.get(part.name, table.this))\n", "                    part.update_positions(table.this)\n", "C13.n")
add("C13", "revert: dashed BigQuery name keeps the span of its first fragment", "sqlglot/parsers/bigquery.py",
    "            if last and \"start\" in first.meta:\n                # The merged name ends where its last fragment ends\n                this.update_positions(\n                    line=last.line, col=last.col, start=first.meta[\"start\"], end=last.end\n                )\n", "", "C13.m")
add("C13", "Athena parse_into drops the source text on the Trino branch", "sqlglot/parsers/athena.py",
    "        return self._trino_parser.parse_into(expression_types, raw_tokens, sql)\n", "        return self._trino_parser.parse_into(expression_types, raw_tokens)\n", "C13.l")
add("C13", "benign: Dialect.parse keeps the tokens in a local before handing them on", "sqlglot/dialects/dialect.py",
    "        return self.parser(**opts).parse(self.tokenize(sql), sql)\n", "        tokens = self.tokenize(sql)\n        return self.parser(**opts).parse(tokens, sql)\n", "silent")
add("C13", "benign: Athena parse passes the source text by keyword", "sqlglot/parsers/athena.py",
    "        return self._trino_parser.parse(raw_tokens, sql)\n", "        return self._trino_parser.parse(raw_tokens, sql=sql)\n", "silent")
add("C13", "revert: number, synthesised :: and type suffix share one span", "sqlglot/tokenizer_core.py",
    "            self._start = self._current\n            self._add(TokenType.DCOLON, \"::\")\n            self._advance(len(numeric_literal))\n",
    "            self._add(TokenType.DCOLON, \"::\")\n", "C13.k")
add("C13", "the type suffix token re-uses the start of the number", "sqlglot/tokenizer_core.py",
    "            self._start = self._current\n            self._add(TokenType.DCOLON, \"::\")\n",
    "            self._add(TokenType.DCOLON, \"::\")\n", "C13.k")
add("C13", "hint scanner also emits a comment marker token with the same span", "sqlglot/tokenizer_core.py",
    "            self._add(TokenType.HINT)\n", "            self._add(TokenType.HINT)\n            self._add(TokenType.VAR, \"hint\")\n", "C13.k")
add("C13", "benign: synthesised :: emitted through a local alias of the suffix length", "sqlglot/tokenizer_core.py",
    "            self._start = self._current\n            self._add(TokenType.DCOLON, \"::\")\n            self._advance(len(numeric_literal))\n",
    "            suffix = len(numeric_literal)\n            self._start = self._current\n            self._add(TokenType.DCOLON, \"::\")\n            self._advance(suffix)\n", "silent")
add("C13", "benign: bit-string fallback re-assigns nothing but emits on disjoint paths", "sqlglot/tokenizer_core.py",
    "            int(value, 2)\n            self._add(TokenType.BIT_STRING, value[2:])  # Drop the 0b\n        except ValueError:\n            self._add(TokenType.IDENTIFIER)\n",
    "            bits = int(value, 2)\n        except ValueError:\n            bits = -1\n        if bits >= 0:\n            self._add(TokenType.BIT_STRING, value[2:])  # Drop the 0b\n        else:\n            self._add(TokenType.IDENTIFIER)\n", "silent")

# ------------------------------------------------------------------------------- C20.i
_C20I_OLD = ("    copy = (\n        len(source_nodes) != len(source_ids)\n        or len(target_nodes) != len(target_ids)\n        or source_ids & target_ids\n    )\n")
add("C20", "merged private-copy condition counts the target's id set for its node sequence", DIFF, _C20I_OLD,
    "    copy = len(source_ids | target_ids) != len(source_nodes) + len(target_ids)\n", "C20.i")
add("C20", "private-copy condition forgets nodes shared between the two inputs", DIFF, _C20I_OLD,
    "    copy = len(source_nodes) != len(source_ids) or len(target_nodes) != len(target_ids)\n", "C20.i")
add("C20", "private-copy condition looks at the source only", DIFF, _C20I_OLD,
    "    copy = len(source_nodes) != len(source_ids) or bool(source_ids & target_ids)\n", "C20.i")
add("C20", "benign: merged private-copy condition counting every node object once", DIFF, _C20I_OLD,
    "    copy = len(source_ids | target_ids) != len(source_nodes) + len(target_nodes)\n", "silent", 0)
add("C20", "benign: private-copy condition through helper locals and isdisjoint", DIFF, _C20I_OLD,
    "    duplicated = len(target_nodes) != len(target_ids) or len(source_ids) != len(source_nodes)\n    copy = duplicated or not source_ids.isdisjoint(target_ids)\n", "silent", 0)

# ------------------------------------------------------------------------------- C18.h
add("C18", "add_table returns early when the registered columns compare equal (order-insensitive)", SCHEMA,
    "        if schema and not normalized_column_mapping:\n",
    "        if schema and (not normalized_column_mapping or schema == normalized_column_mapping):\n", "C18.h")
add("C18", "benign: emptiness of the new mapping tested against a literal", SCHEMA,
    "        if schema and not normalized_column_mapping:\n",
    "        if schema and normalized_column_mapping == {}:\n", "silent", 0)
add("C18", "benign: order-sensitive comparison of the column lists", SCHEMA,
    "        if schema and not normalized_column_mapping:\n",
    "        if schema and (not normalized_column_mapping or (list(schema.items()) == list(normalized_column_mapping.items()) and False)):\n", "silent", 0)

# ------------------------------------------------------------------------------- C20.j
_C20J_OLD = ("            source_mapping = compute_node_mappings(source_nodes, tuple(source_copy.walk()))\n"
             "            target_mapping = compute_node_mappings(target_nodes, tuple(target_copy.walk()))\n"
             "            matchings = [(source_mapping[id(s)], target_mapping[id(t)]) for s, t in matchings]\n")
add("C20", "caller matchings re-mapped through one merged id -> copy table", DIFF, _C20J_OLD,
    "            node_mapping = {\n                **compute_node_mappings(source_nodes, tuple(source_copy.walk())),\n                **compute_node_mappings(target_nodes, tuple(target_copy.walk())),\n            }\n"
    "            matchings = [(node_mapping[id(s)], node_mapping[id(t)]) for s, t in matchings]\n", "C20.j")
add("C20", "target side of a caller matching looked up in the source's table", DIFF, _C20J_OLD,
    "            source_mapping = compute_node_mappings(source_nodes, tuple(source_copy.walk()))\n"
    "            target_mapping = compute_node_mappings(target_nodes, tuple(target_copy.walk()))\n"
    "            matchings = [(source_mapping[id(s)], source_mapping[id(t)]) for s, t in matchings]\n", "C20.j")
add("C20", "benign: per-side tables renamed and inlined", DIFF, _C20J_OLD,
    "            src_map = compute_node_mappings(source_nodes, tuple(source_copy.walk()))\n"
    "            matchings = [\n                (src_map[id(a)], compute_node_mappings(target_nodes, tuple(target_copy.walk()))[id(b)])\n                for a, b in matchings\n            ]\n", "silent", 0)

# ------------------------------------------------------------------------------- C12.j
SERDE_F = "sqlglot/serde.py"
add("C12", "dump() skips the type annotation of casts", SERDE_F,
    "            if node.type and node.type is not node:\n",
    "            if node.type and node.type is not node and not node.is_cast:\n", "C12.j")
add("C12", "dump() keeps comments only on non-literal nodes", SERDE_F,
    "            if node.comments:\n",
    "            if node.comments and not isinstance(node, exp.Literal):\n", "C12.j")
add("C12", "benign: type slot tested through the raw attribute", SERDE_F,
    "            if node.type and node.type is not node:\n",
    "            if node._type is not None and node.type is not node:\n", "silent", 0)

# ------------------------------------------------------------------------------- C09.d
add("C09", "convert() drops the copy flag for the values of a dict", CORE,
    "            values=_Array(expressions=[convert(v, copy=copy) for v in value.values()]),\n",
    "            values=_Array(expressions=[convert(v) for v in value.values()]),\n", "C09.d")
add("C09", "benign: convert() passes the copy flag positionally", CORE,
    "            values=_Array(expressions=[convert(v, copy=copy) for v in value.values()]),\n",
    "            values=_Array(expressions=[convert(v, copy) for v in value.values()]),\n", "silent", 0)

# ------------------------------------------------------------------------------- C05.t (wrong-kind reports)
_C05T_OLD = ("            if isinstance(arg, exp.Kwarg):\n                expr.set(arg.this.name, arg)\n            else:\n"
             "                self.raise_error(f\"Expected key => value syntax for AI.FORECAST, got {arg}\")\n                break\n")
add("C05", "AI.FORECAST argument of the wrong kind is reported and then used", "sqlglot/parsers/bigquery.py", _C05T_OLD,
    "            if not isinstance(arg, exp.Kwarg):\n                self.raise_error(f\"Expected key => value syntax for AI.FORECAST, got {arg}\")\n            expr.set(arg.this.name, arg)\n", "C05.t")
add("C05", "benign: AI.FORECAST argument of the wrong kind is reported and the loop left", "sqlglot/parsers/bigquery.py", _C05T_OLD,
    "            if not isinstance(arg, exp.Kwarg):\n                self.raise_error(f\"Expected key => value syntax for AI.FORECAST, got {arg}\")\n                break\n            expr.set(arg.this.name, arg)\n", "silent", 0)

# ------------------------------------------------------------------------------- C14.f
add("C14", "merge_errors keeps only the first entry of each exception", "sqlglot/errors.py",
    "    return [e_dict for error in errors for e_dict in error.errors]\n",
    "    return [error.errors[0] for error in errors if error.errors]\n", "C14.f")
add("C14", "benign: merge_errors written as a loop", "sqlglot/errors.py",
    "    return [e_dict for error in errors for e_dict in error.errors]\n",
    "    merged: list[dict[str, t.Any]] = []\n    for error in errors:\n        for e_dict in error.errors:\n            merged.append(e_dict)\n    return merged\n", "silent", 0)
