"""E4 (part): global-write sets — which functions write process-wide state.

Process-wide state = module-level bindings, class-level attributes, `globals()`.
A *write* is a rebinding (`global N; N = ...`), an item store/delete, an augmented
assignment, or a call of a container mutator on such an object.
"""

from __future__ import annotations

import ast
import typing as t
from dataclasses import dataclass

from .core import Func, Module, Repo, call_name, dotted, norm

MUTATORS = {
    "append", "extend", "insert", "pop", "remove", "clear", "update", "setdefault", "add",
    "discard", "popitem", "sort", "reverse", "appendleft", "extendleft", "__setitem__", "__delitem__",
}


@dataclass
class GWrite:
    func: Func | None  # None = module / class body level
    module: Module
    node: ast.AST  # the statement / call
    target: str  # description of the object written, e.g. "sqlglot.generator:_DISPATCH_CACHE"
    kind: str  # item-store | mutator-call | rebind | attr-store | globals-store
    value: ast.AST | None = None  # the stored value for item stores


def module_globals(m: Module) -> set[str]:
    out: set[str] = set()
    for st in m.tree.body:
        for node in ast.walk(st) if not isinstance(st, (ast.FunctionDef, ast.AsyncFunctionDef, ast.ClassDef)) else []:
            if isinstance(node, ast.Name) and isinstance(node.ctx, ast.Store):
                out.add(node.id)
        if isinstance(st, (ast.FunctionDef, ast.AsyncFunctionDef, ast.ClassDef)):
            out.add(st.name)
    return out


_LN_CACHE: dict[int, tuple[set[str], set[str]]] = {}


def local_names(fn: ast.FunctionDef | ast.AsyncFunctionDef | ast.Lambda) -> tuple[set[str], set[str]]:
    """(locals, declared globals) of a function, not descending into nested defs."""
    k = id(fn)
    if k not in _LN_CACHE:
        _LN_CACHE[k] = _local_names(fn)
    return _LN_CACHE[k]


def _local_names(fn: ast.FunctionDef | ast.AsyncFunctionDef | ast.Lambda) -> tuple[set[str], set[str]]:
    a = fn.args
    loc = {x.arg for x in a.posonlyargs + a.args + a.kwonlyargs}
    if a.vararg:
        loc.add(a.vararg.arg)
    if a.kwarg:
        loc.add(a.kwarg.arg)
    glob: set[str] = set()
    stack: list[ast.AST] = list(fn.body) if not isinstance(fn, ast.Lambda) else [fn.body]
    while stack:
        n = stack.pop()
        if isinstance(n, (ast.FunctionDef, ast.AsyncFunctionDef, ast.ClassDef)):
            loc.add(n.name)
            continue
        if isinstance(n, ast.Lambda):
            continue
        if isinstance(n, ast.Global):
            glob.update(n.names)
        elif isinstance(n, ast.Name) and isinstance(n.ctx, (ast.Store, ast.Del)):
            loc.add(n.id)
        elif isinstance(n, (ast.Import, ast.ImportFrom)):
            for al in n.names:
                loc.add((al.asname or al.name).split(".")[0])
        elif isinstance(n, ast.ExceptHandler) and n.name:
            loc.add(n.name)
        elif isinstance(n, ast.comprehension):
            pass
        stack.extend(ast.iter_child_nodes(n))
    return loc - glob, glob


def _scope_locals(f: Func | None) -> set[str]:
    """Names local to f or any enclosing function (closure variables are not globals)."""
    out: set[str] = set()
    g = f
    while g is not None:
        loc, glob = local_names(g.node)
        out |= loc
        g = g.parent_func
    return out


def _classify_receiver(repo: Repo, m: Module, f: Func | None, recv: ast.AST, scope_locals: set[str], mglobals: set[str]) -> str | None:
    """If `recv` denotes process-wide state, return its description."""
    if isinstance(recv, ast.Call) and call_name(recv) == "globals":
        return f"{m.name}:globals()"
    if isinstance(recv, ast.Name):
        if recv.id in scope_locals:
            return None
        if recv.id in mglobals:
            return f"{m.name}:{recv.id}"
        tgt = m.imports.get(recv.id)
        if tgt and tgt.startswith("sqlglot"):
            return tgt.rsplit(".", 1)[0] + ":" + tgt.rsplit(".", 1)[1]
        return None
    if isinstance(recv, ast.Attribute):
        base = recv.value
        d = dotted(recv)
        # cls.X / klass.X / type(self).X / self.__class__.X / ClassName.X / module.X
        if isinstance(base, ast.Name):
            if base.id in ("cls", "klass", "mcs") or base.id.endswith("_cls"):
                return f"<class via {base.id}>.{recv.attr}"
            if base.id not in scope_locals:
                c = repo.resolve_class(m, base.id)
                if c is not None:
                    return f"{c.key}.{recv.attr}"
                r = repo.resolve_name(m, base.id)
                if r is not None and r[1] == "":
                    return f"{r[0].name}:{recv.attr}"
            if base.id == "self" and recv.attr.isupper():
                return f"<class via self>.{recv.attr}"
        if isinstance(base, ast.Call) and call_name(base) == "type":
            return f"<class via type()>.{recv.attr}"
        if isinstance(base, ast.Attribute) and base.attr == "__class__":
            return f"<class via __class__>.{recv.attr}"
        if isinstance(base, ast.Attribute):
            # a.b.X where a.b resolves to a class or module
            bd = dotted(base)
            if bd and bd.split(".")[0] not in scope_locals:
                c = repo.resolve_class(m, bd)
                if c is not None:
                    return f"{c.key}.{recv.attr}"
                r = repo.resolve_name(m, bd)
                if r is not None and r[1] == "":
                    return f"{r[0].name}:{recv.attr}"
        _ = d
    return None


def global_writes(repo: Repo, modules: t.Iterable[Module] | None = None) -> list[GWrite]:
    out: list[GWrite] = []
    for m in modules or repo.modules.values():
        mg = module_globals(m)
        cache: dict[int, set[str]] = {}

        def scope(f: Func | None) -> set[str]:
            k = id(f.node) if f is not None else 0
            if k not in cache:
                cache[k] = _scope_locals(f)
            return cache[k]

        for node in m.of_type(ast.Assign, ast.AugAssign, ast.Delete, ast.AnnAssign):
            f = m.enclosing_func(node)
            targets: list[ast.AST]
            if isinstance(node, ast.Assign):
                targets = list(node.targets)
                val: ast.AST | None = node.value
            elif isinstance(node, ast.Delete):
                targets = list(node.targets)
                val = None
            else:
                targets = [node.target]
                val = getattr(node, "value", None)
            flat: list[ast.AST] = []
            for tg in targets:
                if isinstance(tg, (ast.Tuple, ast.List)):
                    flat += list(tg.elts)
                else:
                    flat.append(tg)
            for tg in flat:
                if isinstance(tg, ast.Subscript):
                    d = _classify_receiver(repo, m, f, tg.value, scope(f), mg)
                    if d:
                        out.append(GWrite(f, m, node, d, "globals-store" if d.endswith("globals()") else "item-store", val))
                elif isinstance(tg, ast.Name) and f is not None:
                    loc, glob = local_names(f.node)
                    if tg.id in glob:
                        out.append(GWrite(f, m, node, f"{m.name}:{tg.id}", "rebind", val))
                elif isinstance(tg, ast.Attribute) and f is not None:
                    # attribute store on a class / module object (not an instance)
                    base = tg.value
                    if isinstance(base, ast.Name) and base.id not in scope(f):
                        c = repo.resolve_class(m, base.id)
                        r = repo.resolve_name(m, base.id)
                        if c is not None:
                            out.append(GWrite(f, m, node, f"{c.key}.{tg.attr}", "attr-store", val))
                        elif r is not None and r[1] == "":
                            out.append(GWrite(f, m, node, f"{r[0].name}:{tg.attr}", "attr-store", val))
                    elif isinstance(base, ast.Name) and base.id == "cls" and f is not None:
                        out.append(GWrite(f, m, node, f"<class via cls>.{tg.attr}", "attr-store", val))
        for node in m.of_type(ast.Call):
            fn = node.func
            if not isinstance(fn, ast.Attribute) or fn.attr not in MUTATORS:
                continue
            f = m.enclosing_func(node)
            d = _classify_receiver(repo, m, f, fn.value, scope(f), mg)
            if d:
                out.append(GWrite(f, m, node, d, "mutator-call", None))
        # process-wide objects handed to an in-place helper (a module-level function that mutates that parameter)
        for node in m.of_type(ast.Call):
            cn = call_name(node)
            if not cn or not (node.args or node.keywords):
                continue
            r = repo.resolve_name(m, cn)
            if r is None or r[1] not in r[0].funcs or "." in r[1]:
                continue
            callee = r[0].funcs[r[1]].node
            mut = _mutated_params_cached(callee)
            if not mut:
                continue
            params = [a.arg for a in callee.args.posonlyargs + callee.args.args]
            f = m.enclosing_func(node)
            pairs = [(params[i], a) for i, a in enumerate(node.args) if i < len(params) and not isinstance(a, ast.Starred)]
            pairs += [(k.arg, k.value) for k in node.keywords if k.arg]
            for pname, a in pairs:
                if pname in mut:
                    d = _classify_receiver(repo, m, f, a, scope(f), mg)
                    if d:
                        out.append(GWrite(f, m, node, d, f"in-place helper {cn}({pname}=...)", None))
    return out


_mp_cache: dict[int, set[str]] = {}


def _mutated_params_cached(fn: ast.FunctionDef | ast.AsyncFunctionDef) -> set[str]:
    k = id(fn)
    if k not in _mp_cache:
        _mp_cache[k] = mutated_params(fn)
    return _mp_cache[k]


def describe(w: GWrite) -> str:
    where = w.func.key if w.func else f"{w.module.name}:<module/class body>"
    return f"{where} {w.kind} {w.target} :: {norm(w.node, 90)}"


# --------------------------------------------------------------------------------------
# Container-parameter mutation summaries for helper functions (in-place helpers)
# --------------------------------------------------------------------------------------


def mutated_params(fn: ast.FunctionDef | ast.AsyncFunctionDef) -> set[str]:
    """Parameters whose (container) object may be mutated in place by `fn`:
    item store / delete / augmented item assignment / mutator call on the parameter or on a
    local alias derived from it (x = p, x = p or {}, x = a[k], x = a.get(k), x = a.setdefault(k, ..),
    conditional expressions thereof).  Flow-insensitive, intraprocedural."""
    a = fn.args
    params = [x.arg for x in a.posonlyargs + a.args + a.kwonlyargs]
    alias: dict[str, set[str]] = {p: {p} for p in params}  # local -> params it may alias (into)

    def sources(e: ast.AST) -> set[str]:
        if isinstance(e, ast.Name):
            return set(alias.get(e.id, set()))
        if isinstance(e, ast.IfExp):
            return sources(e.body) | sources(e.orelse)
        if isinstance(e, ast.BoolOp):
            out: set[str] = set()
            for v in e.values:
                out |= sources(v)
            return out
        if isinstance(e, ast.Subscript):
            return sources(e.value)
        if isinstance(e, ast.Call) and isinstance(e.func, ast.Attribute) and e.func.attr in ("get", "setdefault", "pop"):
            return sources(e.func.value)
        if isinstance(e, ast.NamedExpr):
            return sources(e.value)
        return set()

    changed = True
    n = 0
    while changed and n < 10:
        changed = False
        n += 1
        for st in walk_no_nested_stmts(fn):
            tgt_val: list[tuple[ast.AST, ast.AST]] = []
            if isinstance(st, ast.Assign):
                for tg in st.targets:
                    tgt_val.append((tg, st.value))
            elif isinstance(st, ast.AnnAssign) and st.value is not None:
                tgt_val.append((st.target, st.value))
            elif isinstance(st, ast.NamedExpr):
                tgt_val.append((st.target, st.value))
            elif isinstance(st, (ast.For, ast.AsyncFor)):
                pass
            for tg, val in tgt_val:
                if isinstance(tg, ast.Name):
                    src = sources(val)
                    cur = alias.setdefault(tg.id, set())
                    if not src <= cur:
                        cur |= src
                        changed = True
    out: set[str] = set()
    for node in walk_no_nested_stmts(fn):
        if isinstance(node, ast.Subscript) and isinstance(node.ctx, (ast.Store, ast.Del)):
            out |= sources(node.value)
        if isinstance(node, ast.Call) and isinstance(node.func, ast.Attribute) and node.func.attr in MUTATORS:
            out |= sources(node.func.value)
    return out & set(params)


def walk_no_nested_stmts(fn: ast.AST) -> t.Iterator[ast.AST]:
    stack = list(ast.iter_child_nodes(fn))
    while stack:
        n = stack.pop()
        yield n
        if isinstance(n, (ast.FunctionDef, ast.AsyncFunctionDef, ast.ClassDef, ast.Lambda)):
            continue
        stack.extend(ast.iter_child_nodes(n))
