"""E5: typed facts (S3). Runs mypy-as-a-library in a child process over the repo under
analysis; cached by source digest under /verif/.cache/<digest>/ (git-ignored, recreated on
demand, so verdicts always come from the current tree)."""

from __future__ import annotations

import ast
import json
import os
import subprocess
from pathlib import Path

from .core import AnalysisError, Module, PYTHON, Repo, VERIF

_CHILD = Path(__file__).resolve().parent / "typed_child.py"
_mem: dict[str, "Types"] = {}


class Types:
    def __init__(self, data: dict) -> None:
        self.mods: dict[str, dict[str, str]] = data["modules"]
        self.n = sum(len(v) for v in self.mods.values())
        self.errors = data.get("errors", 0)
        self.messages: list[str] = data.get("messages", [])

    def of(self, m: Module, node: ast.AST) -> str | None:
        d = self.mods.get(m.name)
        if d is None or not hasattr(node, "lineno"):
            return None
        k = f"{node.lineno}:{node.col_offset}:{node.end_lineno}:{node.end_col_offset}"
        t = d.get(k)
        if t is None and isinstance(node, ast.Attribute):
            # mypy positions a MemberExpr at its start too; already covered by key above
            return None
        return t


def available() -> bool:
    try:
        r = subprocess.run([PYTHON, "-c", "import mypy.build"], capture_output=True, timeout=60)
        return r.returncode == 0
    except Exception:  # noqa: BLE001
        return False


def types(repo: Repo) -> Types:
    if repo.digest in _mem:
        return _mem[repo.digest]
    cache_root = Path(os.environ.get("VERIF_CACHE_DIR", str(VERIF / ".cache")))
    cdir = cache_root / repo.digest[:32]
    out = cdir / "types.json"
    if not out.exists():
        cdir.mkdir(parents=True, exist_ok=True)
        tmp = cdir / f"types.{os.getpid()}.tmp"
        env = dict(os.environ)
        env.pop("PYTHONPATH", None)
        env["PYTHONDONTWRITEBYTECODE"] = "1"
        p = subprocess.run([PYTHON, "-B", str(_CHILD), str(tmp)], cwd=str(repo.root), env=env, capture_output=True, text=True, timeout=900)
        if p.returncode != 0 or not tmp.exists():
            raise AnalysisError("typed facts (S3, mypy as library) failed: " + " | ".join((p.stderr or p.stdout).strip().splitlines()[-4:]))
        os.replace(tmp, out)
        # keep the cache small: drop other digests
        for other in cache_root.iterdir():
            if other.is_dir() and other != cdir and other.name != "keep":
                try:
                    for f in other.iterdir():
                        f.unlink()
                    other.rmdir()
                except OSError:
                    pass
    data = json.loads(out.read_text())
    t = Types(data)
    if t.n < 50000:
        raise AnalysisError(f"typed facts look incomplete: only {t.n} typed expressions")
    _mem[repo.digest] = t
    return t
