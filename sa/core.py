"""E0 loader + reporting/evidence/known-findings plumbing shared by every check.

Static analysis only: this module parses /repo's *current* sources with `ast` on every
run (no cache of verdicts), indexes modules / classes / functions, and gives rules a
uniform way to record obligations, findings and analysis errors.

Exit codes: 0 = every obligation discharged (known findings allowed), 1 = at least one
finding not listed in known_findings.json (prints a VIOLATION line), 2 = the analysis
itself is broken (vanished anchor, unparsable file, instance count below the reviewed
minimum) and prints ANALYSIS-ERROR.
"""

from __future__ import annotations

import ast
import hashlib
import json
import os
import sys
import time
import typing as t
from dataclasses import dataclass, field
from pathlib import Path

VERIF = Path(__file__).resolve().parent.parent
REPO = Path(os.environ.get("VERIF_REPO_ROOT", "/repo")).resolve()
PKG = "sqlglot"
EVIDENCE_DIR = Path(os.environ.get("VERIF_EVIDENCE_DIR", str(VERIF / "evidence")))
KNOWN_FILE = VERIF / "known_findings.json"
PYTHON = os.environ.get("VERIF_PYTHON", "/venv/bin/python")


class AnalysisError(Exception):
    """The analysis could not be carried out (never a verdict about the property)."""


# --------------------------------------------------------------------------------------
# AST helpers
# --------------------------------------------------------------------------------------


def norm(node: ast.AST | str, limit: int = 160) -> str:
    """Normalised text of a construct: position independent, formatting independent."""
    s = node if isinstance(node, str) else ast.unparse(node)
    s = " ".join(s.split())
    return s if len(s) <= limit else s[: limit - 3] + "..."


def dotted(node: ast.AST) -> str | None:
    """`a.b.c` for Name/Attribute chains, else None."""
    parts: list[str] = []
    while isinstance(node, ast.Attribute):
        parts.append(node.attr)
        node = node.value
    if isinstance(node, ast.Name):
        parts.append(node.id)
        return ".".join(reversed(parts))
    return None


def call_name(node: ast.AST) -> str | None:
    """Dotted name of the callee of a Call node."""
    if isinstance(node, ast.Call):
        return dotted(node.func)
    return None


def is_self_attr(node: ast.AST, attr: str | None = None, selfname: str = "self") -> bool:
    return (
        isinstance(node, ast.Attribute)
        and isinstance(node.value, ast.Name)
        and node.value.id == selfname
        and (attr is None or node.attr == attr)
    )


def const_str(node: ast.AST) -> str | None:
    if isinstance(node, ast.Constant) and isinstance(node.value, str):
        return node.value
    return None


def kwarg(call: ast.Call, name: str) -> ast.AST | None:
    for kw in call.keywords:
        if kw.arg == name:
            return kw.value
    return None


def walk_no_nested(node: ast.AST, include_lambda: bool = True) -> t.Iterator[ast.AST]:
    """ast.walk that does not descend into nested function/class definitions
    (lambdas are descended unless include_lambda=False)."""
    stack = list(ast.iter_child_nodes(node))
    while stack:
        n = stack.pop()
        yield n
        if isinstance(n, (ast.FunctionDef, ast.AsyncFunctionDef, ast.ClassDef)):
            continue
        if isinstance(n, ast.Lambda) and not include_lambda:
            continue
        stack.extend(ast.iter_child_nodes(n))


@dataclass
class Func:
    module: "Module"
    qualname: str  # Class.method or func or outer.<locals>.inner
    node: ast.FunctionDef | ast.AsyncFunctionDef | ast.Lambda
    cls: str | None  # innermost enclosing class qualname
    parent_func: "Func | None" = None

    @property
    def name(self) -> str:
        return self.qualname.rsplit(".", 1)[-1]

    @property
    def key(self) -> str:
        return f"{self.module.name}:{self.qualname}"

    @property
    def params(self) -> list[str]:
        a = self.node.args
        return [x.arg for x in a.posonlyargs + a.args + a.kwonlyargs] + (
            [a.vararg.arg] if a.vararg else []
        ) + ([a.kwarg.arg] if a.kwarg else [])

    def __hash__(self) -> int:
        return hash(self.key)

    def __eq__(self, other: object) -> bool:
        return isinstance(other, Func) and other.key == self.key


@dataclass
class Cls:
    module: "Module"
    qualname: str
    node: ast.ClassDef
    bases: list[str]  # dotted names as written

    @property
    def name(self) -> str:
        return self.qualname.rsplit(".", 1)[-1]

    @property
    def key(self) -> str:
        return f"{self.module.name}:{self.qualname}"

    def body_assigns(self) -> dict[str, ast.AST]:
        out: dict[str, ast.AST] = {}
        for st in self.node.body:
            if isinstance(st, ast.Assign):
                for tg in st.targets:
                    if isinstance(tg, ast.Name):
                        out[tg.id] = st.value
            elif isinstance(st, ast.AnnAssign) and isinstance(st.target, ast.Name) and st.value:
                out[st.target.id] = st.value
        return out

    def methods(self) -> dict[str, ast.FunctionDef]:
        return {
            st.name: st
            for st in self.node.body
            if isinstance(st, (ast.FunctionDef, ast.AsyncFunctionDef))
        }


@dataclass
class Module:
    name: str
    path: Path
    src: str
    tree: ast.Module
    funcs: dict[str, Func] = field(default_factory=dict)
    classes: dict[str, Cls] = field(default_factory=dict)
    imports: dict[str, str] = field(default_factory=dict)  # local name -> dotted target
    parents: dict[int, ast.AST] = field(default_factory=dict)
    nodes: list[ast.AST] = field(default_factory=list)  # every node, pre-order
    by_type: dict[type, list[ast.AST]] = field(default_factory=dict)

    def of_type(self, *types: type) -> list[ast.AST]:
        out: list[ast.AST] = []
        for ty in types:
            out += self.by_type.get(ty, [])
        return out

    @property
    def rel(self) -> str:
        return str(self.path.relative_to(REPO))

    def parent(self, node: ast.AST) -> ast.AST | None:
        return self.parents.get(id(node))

    def enclosing_func(self, node: ast.AST) -> Func | None:
        p = self.parent(node)
        while p is not None:
            if isinstance(p, (ast.FunctionDef, ast.AsyncFunctionDef)):
                return self._func_by_node.get(id(p))
            p = self.parent(p)
        return None

    def enclosing_class(self, node: ast.AST) -> Cls | None:
        p = self.parent(node)
        while p is not None:
            if isinstance(p, ast.ClassDef):
                return self._cls_by_node.get(id(p))
            p = self.parent(p)
        return None

    def enclosing_stmt(self, node: ast.AST) -> ast.stmt | None:
        p: ast.AST | None = node
        while p is not None and not isinstance(p, ast.stmt):
            p = self.parent(p)
        return p  # type: ignore[return-value]

    _func_by_node: dict[int, Func] = field(default_factory=dict)
    _cls_by_node: dict[int, Cls] = field(default_factory=dict)


class Repo:
    """All modules of the sqlglot package under REPO, parsed once per run."""

    def __init__(self, root: Path | None = None) -> None:
        self.root = (root or REPO).resolve()
        self.modules: dict[str, Module] = {}
        h = hashlib.sha256()
        pkg = self.root / PKG
        if not pkg.is_dir():
            raise AnalysisError(f"package directory {pkg} not found")
        for path in sorted(pkg.rglob("*.py")):
            rel = path.relative_to(self.root)
            parts = list(rel.with_suffix("").parts)
            if parts[-1] == "__init__":
                parts = parts[:-1]
            name = ".".join(parts)
            try:
                src = path.read_text(encoding="utf-8")
                tree = ast.parse(src, filename=str(path))
            except (SyntaxError, UnicodeDecodeError, OSError) as e:
                raise AnalysisError(f"cannot parse {rel}: {e}") from e
            h.update(str(rel).encode())
            h.update(src.encode())
            m = Module(name=name, path=path, src=src, tree=tree)
            self._index(m)
            self.modules[name] = m
        self.digest = h.hexdigest()
        self._subclasses: dict[str, list[Cls]] | None = None

    # ---- indexing -------------------------------------------------------------------
    def _index(self, m: Module) -> None:
        is_pkg = m.path.name == "__init__.py"

        def rec(node: ast.AST, prefix: str, cls: str | None, pf: Func | None) -> None:
            for ch in ast.iter_child_nodes(node):
                m.parents[id(ch)] = node
                m.nodes.append(ch)
                m.by_type.setdefault(type(ch), []).append(ch)
                if isinstance(ch, (ast.FunctionDef, ast.AsyncFunctionDef)):
                    qn = f"{prefix}{ch.name}"
                    f = Func(m, qn, ch, cls, pf)
                    # later definitions with the same qualname (overloads, if/else) get a suffix
                    k = qn
                    i = 1
                    while k in m.funcs:
                        i += 1
                        k = f"{qn}#{i}"
                    f.qualname = k
                    m.funcs[k] = f
                    m._func_by_node[id(ch)] = f
                    rec(ch, f"{qn}.<locals>.", cls, f)
                elif isinstance(ch, ast.ClassDef):
                    qn = f"{prefix}{ch.name}"
                    c = Cls(m, qn, ch, [d for d in (dotted(b) for b in ch.bases) if d])
                    m.classes[qn] = c
                    m._cls_by_node[id(ch)] = c
                    rec(ch, f"{qn}.", qn, pf)
                else:
                    rec(ch, prefix, cls, pf)

        rec(m.tree, "", None, None)
        # imports (module level and function level alike; last one wins)
        for node in m.of_type(ast.Import, ast.ImportFrom):
            if isinstance(node, ast.Import):
                for a in node.names:
                    m.imports[a.asname or a.name.split(".")[0]] = a.name if a.asname else a.name.split(".")[0]
            elif isinstance(node, ast.ImportFrom):
                base = node.module or ""
                if node.level:
                    pkg_parts = m.name.split(".")
                    if not is_pkg:
                        pkg_parts = pkg_parts[:-1]
                    pkg_parts = pkg_parts[: len(pkg_parts) - (node.level - 1)]
                    base = ".".join(pkg_parts + ([base] if base else []))
                for a in node.names:
                    m.imports[a.asname or a.name] = f"{base}.{a.name}"
        # the `exp` convention
        if m.imports.get("exp") == "sqlglot.exp":
            m.imports["exp"] = "sqlglot.expressions"

    # ---- lookup ---------------------------------------------------------------------
    def module(self, name: str) -> Module:
        m = self.modules.get(name)
        if m is None:
            raise AnalysisError(f"anchor vanished: module {name}")
        return m

    def func(self, module: str, qualname: str) -> Func:
        f = self.module(module).funcs.get(qualname)
        if f is None:
            raise AnalysisError(f"anchor vanished: function {module}:{qualname}")
        return f

    def cls(self, module: str, qualname: str) -> Cls:
        c = self.module(module).classes.get(qualname)
        if c is None:
            raise AnalysisError(f"anchor vanished: class {module}:{qualname}")
        return c

    def all_funcs(self) -> t.Iterator[Func]:
        for m in self.modules.values():
            yield from m.funcs.values()

    def all_classes(self) -> t.Iterator[Cls]:
        for m in self.modules.values():
            yield from m.classes.values()

    def resolve_name(self, m: Module, name: str) -> tuple[Module, str] | None:
        """Resolve a dotted name used in module m to (defining module, qualname)."""
        head, _, rest = name.partition(".")
        if head in m.classes or head in m.funcs:
            return (m, name)
        target = m.imports.get(head)
        if target is None:
            return None
        full = target + ("." + rest if rest else "")
        # longest module prefix
        parts = full.split(".")
        for i in range(len(parts), 0, -1):
            mod = ".".join(parts[:i])
            if mod in self.modules:
                qn = ".".join(parts[i:])
                mm = self.modules[mod]
                if not qn:
                    return (mm, "")
                if qn in mm.classes or qn in mm.funcs:
                    return (mm, qn)
                # re-export: follow one more hop
                h2 = qn.split(".")[0]
                if h2 in mm.imports and mm is not m:
                    r = self.resolve_name(mm, qn)
                    if r:
                        return r
                # `sqlglot.expressions` star re-exports: search submodules
                if mod == "sqlglot.expressions":
                    for sub, sm in self.modules.items():
                        if sub.startswith("sqlglot.expressions.") and (qn in sm.classes or qn in sm.funcs):
                            return (sm, qn)
                return None
        return None

    def resolve_class(self, m: Module, name: str) -> Cls | None:
        r = self.resolve_name(m, name)
        if r and r[1] in r[0].classes:
            return r[0].classes[r[1]]
        return None

    def mro(self, c: Cls) -> list[Cls]:
        """Linearised ancestors by AST (depth-first, left to right, de-duplicated) — an
        over-approximation of the C3 order that is exact for sqlglot's single-inheritance
        parser / generator / tokenizer chains."""
        out: list[Cls] = []
        seen: set[str] = set()

        def rec(x: Cls) -> None:
            if x.key in seen:
                return
            seen.add(x.key)
            out.append(x)
            for b in x.bases:
                bc = self.resolve_class(x.module, b)
                if bc is not None:
                    rec(bc)

        rec(c)
        return out

    def subclasses(self, c: Cls) -> list[Cls]:
        if self._subclasses is None:
            self._subclasses = {}
            for x in self.all_classes():
                for a in self.mro(x)[1:]:
                    self._subclasses.setdefault(a.key, []).append(x)
        return self._subclasses.get(c.key, [])

    def lookup_method(self, c: Cls, name: str) -> tuple[Cls, ast.FunctionDef] | None:
        for x in self.mro(c):
            md = x.methods().get(name)
            if md is not None:
                return (x, md)
        return None


# --------------------------------------------------------------------------------------
# Findings / reporting
# --------------------------------------------------------------------------------------


@dataclass
class Finding:
    rule: str
    where: str  # module:qualname
    construct: str  # normalised text
    file: str
    line: int
    message: str

    @property
    def key(self) -> str:
        return f"{self.rule}|{self.where}|{self.construct}"


class Ctx:
    """Collects what a check run analysed and found."""

    def __init__(self, pid: str, tier: str, repo: Repo) -> None:
        self.pid = pid
        self.tier = tier
        self.repo = repo
        self.findings: list[Finding] = []
        self.obligations = 0
        self.instances: set[str] = set()
        self.samples: list[t.Any] = []
        self.analysed: dict[str, dict[str, int]] = {}
        self.rules: dict[str, str] = {}
        self.notes: list[str] = []
        self.info: list[str] = []
        self._cur_rule = ""
        self.deferred: list[str] = []

    # -- rule bookkeeping
    def rule(self, rid: str, text: str) -> None:
        self._cur_rule = rid
        self.rules[rid] = text
        self.analysed.setdefault(rid, {})

    def count(self, what: str, n: int = 1, rule: str | None = None) -> None:
        d = self.analysed.setdefault(rule or self._cur_rule, {})
        d[what] = d.get(what, 0) + n

    def ok(self, instance: str, sample: t.Any = None, rule: str | None = None) -> None:
        """One obligation discharged."""
        r = rule or self._cur_rule
        self.obligations += 1
        self.instances.add(f"{r}|{instance}")
        self.count("obligations", 1, r)
        if sample is not None and sum(1 for s in self.samples if s.get("rule") == r) < 3:
            self.samples.append({"rule": r, "instance": instance, "verdict": "holds", "detail": sample})

    def fail(
        self,
        m: Module | None,
        node: ast.AST | None,
        where: str,
        construct: ast.AST | str,
        message: str,
        rule: str | None = None,
    ) -> None:
        r = rule or self._cur_rule
        self.obligations += 1
        self.count("obligations", 1, r)
        c = norm(construct)
        self.instances.add(f"{r}|{where}|{c}")
        self.findings.append(
            Finding(
                rule=r,
                where=where,
                construct=c,
                file=m.rel if m else "",
                line=getattr(node, "lineno", 0) if node is not None else 0,
                message=message,
            )
        )

    def require(self, cond: bool, msg: str) -> None:
        if not cond:
            raise AnalysisError(msg)

    def min_instances(self, what: str, n: int, minimum: int, rule: str | None = None) -> None:
        r = rule or self._cur_rule
        self.count(what, 0, r)
        if n < minimum:
            # deferred: a real finding elsewhere takes precedence (a seeded or real regression often
            # removes the very instances being counted); without findings this fails the run (exit 2)
            self.deferred.append(
                f"rule {r}: only {n} {what} found, reviewed minimum is {minimum} — the rule's anchors "
                f"no longer match the code; refusing to pass vacuously"
            )


def load_known() -> list[dict]:
    if not KNOWN_FILE.exists():
        return []
    try:
        data = json.loads(KNOWN_FILE.read_text())
    except json.JSONDecodeError as e:
        raise AnalysisError(f"known_findings.json unreadable: {e}") from e
    return data.get("findings", [])


def finish(ctx: Ctx, t0: float, level_explanation: str, assumptions: list[str]) -> int:
    known = [k for k in load_known() if k.get("status") == "known" and k.get("property") == ctx.pid]
    known_keys = {k["key"]: k for k in known}
    new: list[Finding] = []
    seen_known: list[tuple[Finding, dict]] = []
    dedup: dict[str, Finding] = {}
    for f in ctx.findings:
        dedup.setdefault(f.key, f)
    for f in dedup.values():
        if f.key in known_keys:
            seen_known.append((f, known_keys[f.key]))
        else:
            new.append(f)

    print(f"== {ctx.pid} [{ctx.tier}] static analysis of {ctx.repo.root} (digest {ctx.repo.digest[:12]}) ==")
    for rid, text in ctx.rules.items():
        a = ctx.analysed.get(rid, {})
        stats = ", ".join(f"{k}={v}" for k, v in sorted(a.items()))
        print(f"  rule {rid}: {text}\n      analysed: {stats or '-'}")
    for line in ctx.info:
        print(f"  info: {line}")
    for f, k in seen_known:
        print(f"KNOWN-FINDING: property={ctx.pid} {k.get('what', f.message)} [{f.rule} at {f.file}:{f.line} {f.where}]")
    EVIDENCE_DIR.mkdir(parents=True, exist_ok=True)
    replay = EVIDENCE_DIR / f"{ctx.pid}.violation.json"
    if new:
        for f in new:
            print(f"  FINDING {f.rule} {f.file}:{f.line} in {f.where}: {f.message}\n      construct: {f.construct}\n      key: {f.key}")
        replay.write_text(
            json.dumps(
                {
                    "property": ctx.pid,
                    "repo_digest": ctx.repo.digest,
                    "findings": [f.__dict__ | {"key": f.key} for f in new],
                },
                indent=1,
            )
        )
        print(f"VIOLATION property={ctx.pid} replay={replay}")
    elif replay.exists():
        replay.unlink()

    ev = {
        "property_id": ctx.pid,
        "tier": ctx.tier,
        "seed": int(os.environ.get("VERIF_SEED", "0") or 0),
        "level": "other",
        "coverage": {
            "explanation": level_explanation,
            "rules": ctx.rules,
            "analysed": ctx.analysed,
            "evaluations": ctx.obligations,
            "distinct_nontrivial": len(ctx.instances),
            "rule": "evaluations = structural obligations evaluated on this run (one per rule instance: call site, "
            "loop, table entry, function, path); distinct_nontrivial = distinct (rule, construct) keys among them "
            "(an obligation is non-trivial when the rule had to inspect repository code or a dialect table to "
            "decide it; every counted obligation is)",
            "obligations": ctx.obligations,
            "discharged": ctx.obligations - len(dedup),
            "samples": ctx.samples[:40] or [{"note": "no obligation sampled"}],
            "exhaustive": True,
            "repo_digest": ctx.repo.digest,
            "modules_parsed": len(ctx.repo.modules),
            "known_findings_seen": [f.key for f, _ in seen_known],
            "new_findings": [f.key for f in new],
            "notes": ctx.notes,
        },
        "assumptions": assumptions,
        "wall_s": round(time.time() - t0, 3),
        "violations": len(new),
    }
    (EVIDENCE_DIR / f"{ctx.pid}.json").write_text(json.dumps(ev, indent=1, default=str))
    print(
        f"  obligations={ctx.obligations} discharged={ctx.obligations - len(dedup)} "
        f"known={len(seen_known)} new={len(new)} wall={ev['wall_s']}s"
    )
    return 1 if new else 0


def run_check(pid: str, tier: str, rules: list[t.Callable[[Ctx], None]], explanation: str, assumptions: list[str]) -> int:
    t0 = time.time()
    try:
        repo = Repo()
        ctx = Ctx(pid, tier, repo)
        for r in rules:
            try:
                r(ctx)
            except AnalysisError as e:
                # one rule could not be evaluated: the others still run; a real finding takes precedence,
                # otherwise the run fails as analysis-broken (exit 2), never as a pass
                ctx.deferred.append(f"{getattr(r, '__name__', 'rule')}: {e}")
        rc = finish(ctx, t0, explanation, assumptions)
        if rc == 0 and ctx.deferred:
            for d in ctx.deferred:
                print(f"ANALYSIS-ERROR property={pid} {d}")
            return 2
        for d in ctx.deferred:
            print(f"  note: {d}")
        return rc
    except AnalysisError as e:
        print(f"ANALYSIS-ERROR property={pid} {e}")
        return 2
    except Exception as e:  # noqa: BLE001 - a crash of the analyser is never a verdict
        import traceback

        traceback.print_exc()
        print(f"ANALYSIS-ERROR property={pid} internal error: {type(e).__name__}: {e}")
        return 2
